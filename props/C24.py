"""C24 -- AsyncRequest delivers each update at most once.   Tie: lockstep (L) under harness/vsched.h, C++14 and C++17 builds."""
import re
import dv, ls_common

META = {
    'category': 'proof',
    'technique': 'Coq invariants over all interleavings of a step-level model (one step per atomic access of state_ / per access of obj_, the move of obj_ split at '
                 "T's move constructor) + lockstep replay of the same schedules on the real hooked class under a cooperative scheduler, in the C++14 (detail::OpResult) "
                 'and the C++17 (std::optional) build',
    'text': 'Kernel-checked for any number of requester, producer and consumer threads, any program over requestUpdate/updateRequested/tryEmplaceUpdate/getUpdate and any '
            'schedule (C24_holds = the full statement): no value is returned twice, every value-returning getUpdate directly follows the emplacement of that value which '
            'directly follows the latest successful request, every emplacement directly follows a successful request; at most one thread (producer or consumer) holds '
            'kUpdating.  The model is the code after the repair "fix: AsyncRequest::getUpdate must claim the update before moving it" (before it two concurrent consumers '
            'received the same value; the former witness is a regression Example in Coq and the first case of every run, in both builds).  '
            'The model is tied to the code by running generated programs under generated schedules on the real class (hooks before every access of state_/obj_) and '
            'comparing step trace, results, final state_ and obj_ with the model evaluated in Coq; the executable property (no tag returned twice, no tag out of thin air, and -- on the event order '
            "reconstructed from the implementation's own trace and results -- every emplacement after a request step, every delivery right after the emplacement of that value) "
            "is evaluated on the implementation's output.",
    'note': 'Trusted: Coq kernel; harness/vsched.h; SC interleaving of the atomic accesses (acquire/release reorderings not modelled); the payload type of the harness '
            '(trivially copyable tag, scheduling point at the end of its move constructor when the source is the shared obj_). No axioms.',
}

ASSUMPTIONS = [
    'sequentially consistent interleaving of the accesses of state_ and obj_ at the granularity of the hooks; compare_exchange_strong never fails spuriously',
    "the move of obj_ is modelled as two steps (engaged test + payload read; then T's move constructor returns and detail::OpResult clears the source): finer-grained "
    'data races inside T or OpResult are not modelled',
    'payload = integer tag that survives a move unchanged',
]

SITES = ['start', 'ar.request.cas', 'ar.updateRequested.load', 'ar.tryEmplace.cas', 'ar.tryEmplace.emplace', 'ar.tryEmplace.store',
         'ar.getUpdate.cas', 'ar.getUpdate.move', 'ar.getUpdate.store', 'T.moved']
TAGS = {'updateRequested': 1, 'emplace': 2, 'get': 3, 'getnone': 4}
COST = {'R': 1, 'U': 1, 'E': 3, 'G': 4}


def op_coq(o):
    if o[0] == 'E':
        return '(OEmplace %d)' % o[1]
    return {'R': 'OReq', 'U': 'OUpdReq', 'G': 'OGet'}[o[0]]


def op_txt(o):
    return 'E%d' % o[1] if o[0] == 'E' else o[0]


def worst(progs):
    return sum(1 + sum(COST[o[0]] for o in p) for p in progs)


def gen_sched(r, n):
    out = []
    while len(out) < n:
        c = r.randrange(0, 100)
        k = r.choice([1, 1, 1, 2, 2, 3, 4, 6]) if r.random() < 0.6 else 1
        out += [c] * k
    return out[:n]


def mcme_progs(r):
    """2-3 consumers that also request, 1 producer with >= 2 emplaces, optionally a pure requester; ops interleaved"""
    k = r.choice([2, 2, 2, 3])
    progs = []
    for t in range(k):
        p = [r.choice(['R', 'G', 'G']) for _ in range(r.randint(2, 4))]
        if 'G' not in p:
            p[-1] = 'G'
        if 'R' not in p and r.random() < 0.7:
            p.insert(r.randrange(len(p)), 'R')
        progs.append([(x,) for x in p[:4]])
    ne = r.choice([2, 2, 3, 3, 4])
    pp = ['E'] * ne
    for _ in range(r.choice([0, 0, 1])):
        pp.insert(r.randrange(len(pp) + 1), r.choice(['R', 'U']))
    t = len(progs)
    progs.append([('E', 10 * (t + 1) + i) if x == 'E' else (x,) for i, x in enumerate(pp)])
    if r.random() < 0.35:
        progs.append([('R',)] * r.randint(1, 3))
    order = list(range(len(progs)))
    r.shuffle(order)
    progs = [progs[i] for i in order]
    while worst(progs) > 70:
        progs[max(range(len(progs)), key=lambda j: len(progs[j]))].pop()
    return progs


def probe_cases():
    """Deterministic probes: a consumer is parked INSIDE getUpdate (after kA of its steps: after the claim, after the payload read, after T's move
    constructor) while a second request, a second emplacement and (jB steps of) a second consumer's getUpdate happen; then the first consumer resumes.
    Schedules are written as thread orders: every program is padded with updateRequested() calls so that no thread finishes inside the window, hence the
    candidate list is [0..n-1] and decision = thread id, whatever the number of steps an operation takes in the code under test."""
    out = []
    for k in (2, 3):
        for sep_req in (False, True):
            for kA in (1, 2, 3):
                for jB in (1, 2, 3, 4):
                    if k == 3 and (kA + jB) % 2 == 1:
                        continue          # thin out the 3-consumer variants
                    # thread ids: consumers 0..k-1, producer k, optional requester k+1
                    P = k
                    Q = k + 1
                    progs = [[('G',)]] + [[('G',)] if sep_req else [('R',), ('G',)] for _ in range(k - 1)]
                    progs.append([('E', 41), ('E', 42)] if sep_req else [('R',), ('E', 41), ('E', 42)])
                    if sep_req:
                        progs.append([('R',), ('R',)])
                    n = len(progs)
                    order = list(range(n))                         # starts
                    order += ([Q] + [P] * 3) if sep_req else [P] * 4   # first request, E41 (claim, emplace, publish)
                    order += [0] * kA                              # consumer 0 enters getUpdate and is parked after kA steps
                    order += [Q] if sep_req else [1]               # second request
                    order += [P] * 3                               # E42
                    order += [1] * jB                              # consumer 1: jB steps of its getUpdate
                    if k == 3:
                        order += [2] * (2 if sep_req else 3)
                    order += [0] * 4 + [1] * 4                     # consumer 0 resumes, consumer 1 finishes
                    for t in range(n):
                        need = order.count(t)                      # steps of t inside the window (incl. start): keep it alive throughout
                        while len(progs[t]) < need:
                            progs[t].append(('U',))
                    w = worst(progs)
                    sched = order + [0] * max(6, w - len(order) + 4)
                    for keep in (False, True):
                        out.append({'keep': keep, 'budget': w + 2, 'progs': [list(p) for p in progs], 'sched': sched, 'probe': 'k%d%s kA%d jB%d' % (k, 'Q' if sep_req else '', kA, jB)})
    return out


def impl_property(c, p):
    """the executable property evaluated on the implementation's output ALONE (python mirror of C24Check.viol_dup / viol_thin / viol_order, used only to
    pre-select candidates in the search ladder; every candidate is then judged by the Coq function): returns a reason or None"""
    gets = [v for t in sorted(p['results']) for tag, v in p['results'][t] if tag == TAGS['get']]
    if len(gets) != len(set(gets)):
        return 'value returned twice'
    emplaced = set()
    for t, prog in enumerate(c['progs']):
        rs = list(p['results'].get(t, []))
        for o in prog:
            if o[0] == 'R':
                continue
            if not rs:
                break
            tag, v = rs.pop(0)
            if o[0] == 'E' and v == 1:
                emplaced.add(o[1])
    if any(g not in emplaced for g in gets):
        return 'value never emplaced'
    ncas, nload = {}, {}
    pending, avail = False, None
    for t, site in p['steps']:
        name = SITES[site]
        if name == 'ar.request.cas':
            pending = True
        elif name == 'ar.tryEmplace.cas':
            ncas[t] = ncas.get(t, 0) + 1
        elif name == 'ar.getUpdate.cas':
            nload[t] = nload.get(t, 0) + 1
        elif name == 'ar.tryEmplace.emplace':
            tags = [o[1] for o in c['progs'][t] if o[0] == 'E']
            if not pending:
                return 'emplacement without a request step since the previous one'
            pending = False
            k = ncas.get(t, 0) - 1
            avail = tags[k] if 0 <= k < len(tags) else 0
        elif name == 'ar.getUpdate.move':
            gr = [(v if tag == TAGS['get'] else None) for tag, v in p['results'].get(t, []) if tag in (TAGS['get'], TAGS['getnone'])]
            k = nload.get(t, 0) - 1
            v = gr[k] if 0 <= k < len(gr) else None
            if v is not None:
                if avail != v:
                    return 'delivery does not directly follow the emplacement of that value'
                avail = None
    return None


def cycle_case(r):
    """several full request -> emplace -> get cycles with contention: 2-3 consumers that also request, one producer with 2-3 distinct tags; the schedule is a
    noisy version of the sequential order, written as a thread order (programs padded with updateRequested() so that decision = thread id)"""
    k = r.choice([2, 2, 3])
    m = r.choice([2, 2, 3])
    P = k
    cons = [[] for _ in range(k)]
    prod = [('E', 10 * (P + 1) + i) for i in range(m)]
    order = list(range(k + 1))
    r.shuffle(order)
    park_at = r.randrange(m - 1) if r.random() < 0.5 else -1     # cycle whose consumer is parked inside getUpdate during the whole next cycle
    held = None
    for i in range(m):
        others = [c for c in range(k) if c != held] if held is not None else list(range(k))
        a = r.choice(others)
        b = a if r.random() < 0.5 else r.choice(others)
        cons[a].append(('R',))
        cons[b].append(('G',))
        if i == park_at:
            seq = [a] + [P] * 3 + [b] * r.randint(1, 3)
            held_next = b
        else:
            seq = [a] + [P] * 3 + [b] * (r.randint(1, 4) if held is not None else 4)
            held_next = None
        for _ in range(r.choice([0, 1, 1, 2]) if held is None and held_next is None else 0):
            d = r.randrange(k)
            op = r.choice(['G', 'G', 'R'])
            cons[d].append((op,))
            pos = r.randrange(len(seq) + 1)
            seq[pos:pos] = [d] * (r.randint(1, 4) if op == 'G' else 1)
        order += seq
        if held is not None:
            order += [held] * 4 + [b] * 4
        held = held_next
    progs = cons + [prod]
    for t in range(len(progs)):
        while len(progs[t]) < order.count(t):
            progs[t].append(('U',))
    w = worst(progs)
    return {'keep': r.random() < 0.5, 'budget': w + 2, 'progs': progs, 'sched': order + [r.randrange(0, 100) for _ in range(max(6, w - len(order) + 4))]}


def gen_case(r):
    nt = r.choice([2, 2, 3, 3, 3, 4])
    shape = r.random()
    progs = []
    roles = []
    if shape < 0.25:         # several consumers that also request + one producer emplacing several distinct tags (+ maybe a requester)
        progs = mcme_progs(r)
        w = worst(progs)
        return {'keep': r.random() < 0.5, 'budget': w + 2, 'progs': progs, 'sched': gen_sched(r, w + 6)}
    if shape < 0.45:         # the same population under near-sequential schedules: several complete cycles with contention
        return cycle_case(r)
    if shape < 0.7:          # documented primary usage and generalisations with ONE consumer
        roles = ['cons'] + [r.choice(['prod', 'prod', 'req', 'prodreq']) for _ in range(nt - 1)]
    elif shape < 0.9:        # several consumers
        k = r.choice([2, 2, 3]) if nt > 2 else 2
        roles = ['cons'] * k + [r.choice(['prod', 'prodreq']) for _ in range(nt - k)]
        if 'prod' not in roles and 'prodreq' not in roles:
            roles[-1] = 'consprod'
    else:
        roles = ['any'] * nt
    r.shuffle(roles)
    for t, role in enumerate(roles):
        p = []
        nops = r.randint(1, 4)
        for i in range(nops):
            x = r.random()
            if role == 'cons':
                k = 'R' if x < 0.35 else ('G' if x < 0.9 else 'U')
            elif role == 'prod':
                k = 'E' if x < 0.75 else 'U'
            elif role == 'req':
                k = 'R' if x < 0.7 else 'U'
            elif role == 'prodreq':
                k = 'E' if x < 0.55 else ('R' if x < 0.85 else 'U')
            elif role == 'consprod':
                k = 'G' if x < 0.4 else ('E' if x < 0.7 else 'R')
            else:
                k = r.choice('RUEG')
            p.append(('E', 10 * (t + 1) + i) if k == 'E' else (k,))
        progs.append(p)
    while worst(progs) > 70:
        t = max(range(len(progs)), key=lambda j: len(progs[j]))
        progs[t].pop()
    w = worst(progs)
    return {'keep': r.random() < 0.5, 'budget': w + 2, 'progs': progs, 'sched': gen_sched(r, w + 6)}


def line_of(c):
    return '%d ; %s ; S %s' % (c['budget'], ' ; '.join(' '.join(op_txt(o) for o in p) for p in c['progs']), ' '.join(map(str, c['sched'])))


def term_of(c, p):
    nthr = len(c['progs'])
    m = re.search(r'word (-?\d+) obj (\d) (-?\d+) std (\d+)', p['extra'])
    word, eng, val, std = int(m.group(1)), int(m.group(2)), int(m.group(3)), int(m.group(4))
    if (std == 17) != c['keep']:
        return None
    res = dv.coq_list([ls_common.zpairs(p['results'].get(t, [])) for t in range(nthr)])
    return '(AC %s %d%%nat %s %s %s %s %s %s %s %d)' % (
        'true' if c['keep'] else 'false', ls_common.fuel_of(c['budget'], p['status']),
        dv.coq_list([dv.coq_list([op_coq(o) for o in pr]) for pr in c['progs']]),
        dv.coq_list([str(x) for x in c['sched']]),
        ls_common.zpairs(p['steps']), res, dv.zlit(word), 'true' if eng else 'false', dv.zlit(val), p['status'])


def n_consumers(c):
    return sum(1 for p in c['progs'] if any(o[0] == 'G' for o in p))


def execute(exes, cases):
    outs = [None] * len(cases)
    for keep in (False, True):
        idx = [i for i, c in enumerate(cases) if c['keep'] == keep]
        got = ls_common.run_cases(exes[keep], [line_of(cases[i]) for i in idx])
        for i, o in zip(idx, got):
            outs[i] = o
    return outs


IMPORTS = 'From DV Require Import Base.Sched Model.AsyncReqModel Model.C24Check.'


def viol_text(c, o):
    return ('AsyncRequest property fails on the real class [c++%d build] (a value returned twice / never emplaced / not emplaced since the latest request, or '
            'tryEmplaceUpdate succeeded without a request): %s -> %s' % (17 if c['keep'] else 14, line_of(c)[:200], o[:300]))


def replay_of(c, o):
    return {'case': line_of(c), 'build': 'c++%d' % (17 if c['keep'] else 14), 'output': o,
            'cmd': 'echo "<case>" | build/harness/h_asyncreq%s-*' % ('17' if c['keep'] else '')}


def search_ladder(ctx, exes, differing):
    """the lockstep trace differs from the model but no run violated the property yet: look for a concrete failing input.  The differing programs and a
    targeted family (2-3 consumers that also request, one producer emplacing >= 2 distinct tags) are run under thousands of decision lists; the executable
    property is evaluated on the implementation alone; candidates are confirmed by the Coq judge."""
    r = ctx.rng
    total = 4000 if ctx.quick else 30000
    base = []
    seen = set()
    for c in differing:
        key = repr(c['progs'])
        if key not in seen and len(base) < 6:
            seen.add(key)
            base.append(c['progs'])
    fam = [mcme_progs(r) for _ in range(40)] + [c['progs'] for c in probe_cases()[::6]]
    cases = []
    while len(cases) < total:
        if r.random() < 0.3:
            cases.append(cycle_case(r))
            continue
        progs = r.choice(base) if (base and r.random() < 0.3) else r.choice(fam)
        w = worst(progs)
        cases.append({'keep': r.random() < 0.5, 'budget': w + 2, 'progs': progs, 'sched': gen_sched(r, w + 6)})
    outs = execute(exes, cases)
    cands = []
    reasons = {}
    for c, o in zip(cases, outs):
        p = ls_common.parse_vsched(o, SITES, TAGS)
        if p is None or 'error' in p:
            continue
        why = impl_property(c, p)
        if why:
            reasons[why] = reasons.get(why, 0) + 1
            if len(cands) < 12:
                t = term_of(c, p)
                if t is not None:
                    cands.append((c, p, o, t))
    ctx.cov['evaluations'] += len(cases)
    ctx.cov['search_ladder'] = {'runs': len(cases), 'programs': len(base) + len(fam), 'property_failures_on_impl': reasons}
    found = 0
    if cands:
        verdicts = ls_common.judge_parallel(ctx, IMPORTS, 'judge_ar', [t for _, _, _, t in cands]) or []
        for v, (c, p, o, _) in zip(verdicts, cands):
            if v == 2:
                found += 1
                ctx.violation(viol_text(c, o), dict(replay_of(c, o), found_by='search ladder after a lockstep disagreement'))
    ctx.cov['search_ladder']['confirmed_by_coq_judge'] = found
    ctx.phase('search_ladder')


def run(ctx):
    import os
    ctx.prove(models=['Model/C24Check.v'])
    exe14 = dv.build_harness('h_asyncreq', ['h_asyncreq.cpp'], need_lib=False)
    exe17 = dv.build_harness('h_asyncreq17', ['h_asyncreq.cpp'], need_lib=False, extra_flags=['-std=c++17'])
    exes = {False: exe14, True: exe17}
    ctx.phase('build')
    r = ctx.rng
    # 1. regression: the former witness of the two-consumer double delivery (fixed in /repo), replayed on the real class in both builds
    wit_progs = [[('R',), ('E', 7)], [('G',)], [('G',)]]
    wit_sched = [0, 0, 0, 0, 0, 0, 1, 0, 1, 0, 1, 0, 1, 0, 0] + [0] * 8
    wits = [{'keep': k, 'budget': 20, 'progs': wit_progs, 'sched': wit_sched} for k in (False, True)]
    # 2. deterministic probes: a consumer parked inside the move of obj_ while request -> emplace -> second consumer's get happen
    probes = [] if os.environ.get('C24_SKIP_PROBES') else probe_cases()     # (switch used only to validate the search ladder on its own)
    n = 330 if ctx.quick else 9000
    cases = wits + probes + [gen_case(r) for _ in range(n)]
    outs = execute(exes, cases)
    terms, kept = [], []
    distinct = set()
    for c, o in zip(cases, outs):
        p = ls_common.parse_vsched(o, SITES, TAGS)
        t = term_of(c, p) if p is not None and 'error' not in p else None
        if t is None:
            ctx.broken.append('lockstep harness output unreadable for %s: %s' % (line_of(c)[:200], (o or '')[:200]))
            continue
        terms.append(t)
        kept.append((c, p, o))
        if any(tag == TAGS['emplace'] and v == 1 for rs in p['results'].values() for tag, v in rs):
            distinct.add((c['keep'], o.split('| status')[0]))
    ctx.cov['evaluations'] += len(cases)
    ctx.cov['distinct_nontrivial'] += len(distinct)
    ctx.cov['rule'] = ('2 regression cases + %d deterministic probes (consumer parked after 1/2/3 steps of getUpdate while request, emplacement and 1-4 steps of another '
                       "consumer's getUpdate happen; thread-order schedules) + random programs (2-5 threads, unique tags; 25%% several requesting consumers + one producer with "
                       '2-4 emplacements, 20%% the same under noisy near-sequential thread-order schedules (several complete cycles), 25%% one consumer, 20%% several consumers, 10%% '
                       'unconstrained) x random bursty schedules (decision lists <= ~90 ints), half on the C++14 '
                       'build (detail::OpResult), half on the C++17 build (std::optional), one fork per case under vsched; non-trivial = some tryEmplaceUpdate succeeded; '
                       'distinct = distinct (build, trace, results) strings; on a lockstep disagreement a search ladder of several thousand further runs looks for a concrete '
                       'failing input') % len(probes)
    verdicts = ls_common.judge_parallel(ctx, IMPORTS, 'judge_ar', terms)
    if verdicts is None:
        ctx.broken.append('correspondence L(C24): the model no longer evaluates')
        return
    hist = {}
    differing = []
    for i, (v, (c, p, o)) in enumerate(zip(verdicts, kept)):
        hist[v] = hist.get(v, 0) + 1
        if v == 2:
            ctx.violation(viol_text(c, o), replay_of(c, o))
        elif v == 1:
            differing.append(c)
            ctx.broken.append('correspondence L(C24) [c++%d build]: real trace differs from the model on %s -> %s' % (17 if c['keep'] else 14, line_of(c)[:160], o[:200]))
    ctx.cov['verdict_histogram'] = {'agree': hist.get(0, 0), 'differ_property_holds': hist.get(1, 0), 'property_fails': hist.get(2, 0)}
    ctx.cov['traces_validated_against_impl'] += hist.get(0, 0)
    ctx.cov['regression_two_consumers'] = {'c++14': outs[0][outs[0].find('| results'):][:80], 'c++17': outs[1][outs[1].find('| results'):][:80]}
    ctx.cov['cases_by_consumer_threads'] = {str(k): sum(1 for c, _, _ in kept if min(n_consumers(c), 3) == k) for k in (0, 1, 2, 3)}
    ctx.cov['cases_with_two_or_more_deliveries'] = sum(1 for _, p, _ in kept if sum(1 for rs in p['results'].values() for tag, v in rs if tag == TAGS['get']) >= 2)
    ctx.cov['cases_with_delivery'] = sum(1 for _, p, _ in kept if any(tag == TAGS['get'] for rs in p['results'].values() for tag, v in rs))
    ctx.cov['status_histogram'] = {k: sum(1 for _, p, _ in kept if p['status'] == v) for k, v in (('done', 0), ('budget', 2))}
    ctx.sample({'case': line_of(cases[0])[:120], 'impl_c++14': outs[0][:400]})
    ctx.sample({'case': line_of(cases[1])[:120], 'impl_c++17': outs[1][:400]})
    if probes:
        ctx.sample({'probe': probes[2]['probe'], 'case': line_of(probes[2])[:200], 'impl': outs[4][:400]})
    ctx.sample({'case': line_of(cases[-1])[:200], 'impl': outs[-1][:300]})
    ctx.phase('correspond')
    # 3. search ladder: disagreement without a concrete failing input so far
    if differing and hist.get(2, 0) == 0:
        search_ladder(ctx, exes, differing)
