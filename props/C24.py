"""C24 -- AsyncRequest delivers each update at most once.   Tie: lockstep (L) under harness/vsched.h, C++14 and C++17 builds."""
import re
import dv, ls_common

META = {
    'category': 'proof',
    'technique': 'Coq invariants over all interleavings of a step-level model (one step per atomic access of state_ / per access of obj_, the move of obj_ split at '
                 "T's move constructor) + lockstep replay of the same schedules on the real hooked class under a cooperative scheduler, in the C++14 (detail::OpResult) "
                 'and the C++17 (std::optional) build',
    'text': 'Kernel-checked for any number of requester, producer and consumer threads, any program over requestUpdate/updateRequested/tryEmplaceUpdate/getUpdate and any '
            'schedule (C24_holds = the full statement): no value is returned twice, every value-returning getUpdate directly follows the emplacement of that value which '
            'directly follows the latest successful request, every emplacement directly follows a successful request; at most one thread (producer or consumer) holds '
            'kUpdating.  The model is the code after the repair "fix: AsyncRequest::getUpdate must claim the update before moving it" (before it two concurrent consumers '
            'received the same value; the former witness is a regression Example in Coq and the first case of every run, in both builds).  '
            'The model is tied to the code by running generated programs under generated schedules on the real class (hooks before every access of state_/obj_) and '
            'comparing step trace, results, final state_ and obj_ with the model evaluated in Coq; the executable property (no tag returned twice, no tag out of thin air, and -- on the event order '
            "reconstructed from the implementation's own trace and results -- every emplacement after a request step, every delivery right after the emplacement of that value) "
            "is evaluated on the implementation's output.",
    'note': 'Trusted: Coq kernel; harness/vsched.h; SC interleaving of the atomic accesses (acquire/release reorderings not modelled); the payload type of the harness '
            '(trivially copyable tag, scheduling point at the end of its move constructor when the source is the shared obj_). No axioms.',
}

ASSUMPTIONS = [
    'sequentially consistent interleaving of the accesses of state_ and obj_ at the granularity of the hooks; compare_exchange_strong never fails spuriously',
    "the move of obj_ is modelled as two steps (engaged test + payload read; then T's move constructor returns and detail::OpResult clears the source): finer-grained "
    'data races inside T or OpResult are not modelled',
    'payload = integer tag that survives a move unchanged',
]

SITES = ['start', 'ar.request.cas', 'ar.updateRequested.load', 'ar.tryEmplace.cas', 'ar.tryEmplace.emplace', 'ar.tryEmplace.store',
         'ar.getUpdate.cas', 'ar.getUpdate.move', 'ar.getUpdate.store', 'T.moved']
TAGS = {'updateRequested': 1, 'emplace': 2, 'get': 3, 'getnone': 4}
COST = {'R': 1, 'U': 1, 'E': 3, 'G': 4}


def op_coq(o):
    if o[0] == 'E':
        return '(OEmplace %d)' % o[1]
    return {'R': 'OReq', 'U': 'OUpdReq', 'G': 'OGet'}[o[0]]


def op_txt(o):
    return 'E%d' % o[1] if o[0] == 'E' else o[0]


def worst(progs):
    return sum(1 + sum(COST[o[0]] for o in p) for p in progs)


def gen_sched(r, n):
    out = []
    while len(out) < n:
        c = r.randrange(0, 100)
        k = r.choice([1, 1, 1, 2, 2, 3, 4, 6]) if r.random() < 0.6 else 1
        out += [c] * k
    return out[:n]


def gen_case(r):
    nt = r.choice([2, 2, 3, 3, 3, 4])
    shape = r.random()
    progs = []
    roles = []
    if shape < 0.5:          # documented primary usage and generalisations with ONE consumer
        roles = ['cons'] + [r.choice(['prod', 'prod', 'req', 'prodreq']) for _ in range(nt - 1)]
    elif shape < 0.85:       # several consumers
        k = r.choice([2, 2, 3]) if nt > 2 else 2
        roles = ['cons'] * k + [r.choice(['prod', 'prodreq']) for _ in range(nt - k)]
        if 'prod' not in roles and 'prodreq' not in roles:
            roles[-1] = 'consprod'
    else:
        roles = ['any'] * nt
    r.shuffle(roles)
    for t, role in enumerate(roles):
        p = []
        nops = r.randint(1, 4)
        for i in range(nops):
            x = r.random()
            if role == 'cons':
                k = 'R' if x < 0.35 else ('G' if x < 0.9 else 'U')
            elif role == 'prod':
                k = 'E' if x < 0.75 else 'U'
            elif role == 'req':
                k = 'R' if x < 0.7 else 'U'
            elif role == 'prodreq':
                k = 'E' if x < 0.55 else ('R' if x < 0.85 else 'U')
            elif role == 'consprod':
                k = 'G' if x < 0.4 else ('E' if x < 0.7 else 'R')
            else:
                k = r.choice('RUEG')
            p.append(('E', 10 * (t + 1) + i) if k == 'E' else (k,))
        progs.append(p)
    while worst(progs) > 70:
        t = max(range(len(progs)), key=lambda j: len(progs[j]))
        progs[t].pop()
    w = worst(progs)
    return {'keep': r.random() < 0.5, 'budget': w + 2, 'progs': progs, 'sched': gen_sched(r, w + 6)}


def line_of(c):
    return '%d ; %s ; S %s' % (c['budget'], ' ; '.join(' '.join(op_txt(o) for o in p) for p in c['progs']), ' '.join(map(str, c['sched'])))


def term_of(c, p):
    nthr = len(c['progs'])
    m = re.search(r'word (-?\d+) obj (\d) (-?\d+) std (\d+)', p['extra'])
    word, eng, val, std = int(m.group(1)), int(m.group(2)), int(m.group(3)), int(m.group(4))
    if (std == 17) != c['keep']:
        return None
    res = dv.coq_list([ls_common.zpairs(p['results'].get(t, [])) for t in range(nthr)])
    return '(AC %s %d%%nat %s %s %s %s %s %s %s %d)' % (
        'true' if c['keep'] else 'false', c['budget'],
        dv.coq_list([dv.coq_list([op_coq(o) for o in pr]) for pr in c['progs']]),
        dv.coq_list([str(x) for x in c['sched']]),
        ls_common.zpairs(p['steps']), res, dv.zlit(word), 'true' if eng else 'false', dv.zlit(val), p['status'])


def n_consumers(c):
    return sum(1 for p in c['progs'] if any(o[0] == 'G' for o in p))


def run(ctx):
    ctx.prove(models=['Model/C24Check.v'])
    exe14 = dv.build_harness('h_asyncreq', ['h_asyncreq.cpp'], need_lib=False)
    exe17 = dv.build_harness('h_asyncreq17', ['h_asyncreq.cpp'], need_lib=False, extra_flags=['-std=c++17'])
    ctx.phase('build')
    r = ctx.rng
    # 1. regression: the former witness of the two-consumer double delivery (fixed in /repo), replayed on the real class in both builds
    wit_progs = [[('R',), ('E', 7)], [('G',)], [('G',)]]
    wit_sched = [0, 0, 0, 0, 0, 0, 1, 0, 1, 0, 1, 0, 1, 0, 0] + [0] * 8
    wits = [{'keep': k, 'budget': 20, 'progs': wit_progs, 'sched': wit_sched} for k in (False, True)]
    n = 400 if ctx.quick else 9000
    cases = wits + [gen_case(r) for _ in range(n)]
    outs = [None] * len(cases)
    for keep, exe in ((False, exe14), (True, exe17)):
        idx = [i for i, c in enumerate(cases) if c['keep'] == keep]
        got = ls_common.run_cases(exe, [line_of(cases[i]) for i in idx])
        for i, o in zip(idx, got):
            outs[i] = o
    terms, kept = [], []
    distinct = set()
    for c, o in zip(cases, outs):
        p = ls_common.parse_vsched(o, SITES, TAGS)
        t = term_of(c, p) if p is not None and 'error' not in p else None
        if t is None:
            ctx.broken.append('lockstep harness output unreadable for %s: %s' % (line_of(c)[:200], (o or '')[:200]))
            continue
        terms.append(t)
        kept.append((c, p, o))
        if any(tag == TAGS['emplace'] and v == 1 for rs in p['results'].values() for tag, v in rs):
            distinct.add((c['keep'], o.split('| status')[0]))
    ctx.cov['evaluations'] += len(cases)
    ctx.cov['distinct_nontrivial'] += len(distinct)
    ctx.cov['rule'] = ('random programs (2-4 threads, 1-4 ops each over R/U/E<tag>/G, unique tags; 50% one consumer, 35% several consumers, 15% unconstrained) x random bursty '
                       'schedules (decision lists <= 80 ints), half on the C++14 build (detail::OpResult), half on the C++17 build (std::optional), one fork per case under '
                       'vsched; non-trivial = some tryEmplaceUpdate succeeded; distinct = distinct (build, trace, results) strings')
    verdicts = ls_common.judge_parallel(ctx, 'From DV Require Import Base.Sched Model.AsyncReqModel Model.C24Check.', 'judge_ar', terms)
    if verdicts is None:
        ctx.broken.append('correspondence L(C24): the model no longer evaluates')
        return
    hist = {}
    for i, (v, (c, p, o)) in enumerate(zip(verdicts, kept)):
        hist[v] = hist.get(v, 0) + 1
        std = 17 if c['keep'] else 14
        replay = {'case': line_of(c), 'build': 'c++%d' % std, 'output': o,
                  'cmd': 'echo "<case>" | build/harness/h_asyncreq%s-*' % ('17' if c['keep'] else '')}
        if v == 2:
            ctx.violation('AsyncRequest property fails on the real class [c++%d build] (a value returned twice / never emplaced / not emplaced since the latest request, or '
                          'tryEmplaceUpdate succeeded without a request): %s -> %s' % (std, line_of(c)[:200], o[:300]), replay)
        elif v == 1:
            ctx.broken.append('correspondence L(C24) [c++%d build]: real trace differs from the model on %s -> %s' % (std, line_of(c)[:160], o[:200]))
    ctx.cov['verdict_histogram'] = {'agree': hist.get(0, 0), 'differ_property_holds': hist.get(1, 0), 'property_fails': hist.get(2, 0)}
    ctx.cov['traces_validated_against_impl'] += hist.get(0, 0)
    ctx.cov['regression_two_consumers'] = {'c++14': outs[0][outs[0].find('| results'):][:80], 'c++17': outs[1][outs[1].find('| results'):][:80]}
    ctx.cov['cases_by_consumer_threads'] = {str(k): sum(1 for c, _, _ in kept if min(n_consumers(c), 3) == k) for k in (0, 1, 2, 3)}
    ctx.cov['cases_with_delivery'] = sum(1 for _, p, _ in kept if any(tag == TAGS['get'] for rs in p['results'].values() for tag, v in rs))
    ctx.cov['status_histogram'] = {k: sum(1 for _, p, _ in kept if p['status'] == v) for k, v in (('done', 0), ('budget', 2))}
    ctx.sample({'case': line_of(cases[0])[:120], 'impl_c++14': outs[0][:400]})
    ctx.sample({'case': line_of(cases[1])[:120], 'impl_c++17': outs[1][:400]})
    ctx.sample({'case': line_of(cases[2])[:200], 'impl': outs[2][:300]})
    ctx.phase('correspond')
