"""C41 -- SmallBufferAllocator hands out exclusive aligned blocks.   Tie: lockstep (L) under harness/vsched.h."""
import dv, ls_common, re

META = {
    'category': 'proof',
    'technique': 'Coq invariants over all interleavings of a step-level model of one size class (thread-local caches, abstract central queue, backing vector under the lock word, '
                 'both lock protocols as written) + lockstep replay of generated alloc/dealloc/bytesAllocated/thread-exit programs on the real allocator under a cooperative scheduler',
    'text': 'Kernel-checked for any number of threads, programs, schedules and any central container meeting the multiset specification: every chunk of every carved slab is in exactly '
            'one of user / central store / a thread (C41_blocks_exclusive, C41_blocks_conserved), a block handed out is never live (C41_no_reissue_before_dealloc), the carving '
            'arithmetic gives chunk-aligned, in-slab, pairwise disjoint blocks for all class constants (C41_blocks_sized_aligned, C41_class_constants). '
            'C41_lock_mutual_exclusion: for ALL programs (bytesAllocated included) at most one thread is ever between a successful acquisition of backingStoreLock and its store(0) '
            '(this was false before the /repo commit "fix: SmallBufferAllocator::bytesAllocated retried its lock CAS with a stale expected value ..."; the model describes the repaired loop). '
            'The schedule that used to break it is replayed first on every run as a regression case; generated programs x schedules are replayed on the real allocator and trace, results, lock word, '
            'slab count, class constants and critical-section occupancy are compared with the model evaluated in Coq; ownership map / non-null / alignment / in-slab / occupancy are evaluated on the implementation output, '
            'including short (partial) refills after a thread exited with a partially filled cache, for every size class.',
    'note': 'Trusted: Coq kernel; harness/vsched.h; SC interleaving; moodycamel::ConcurrentQueue as a linearizable multiset container; alignedMalloc contract (aligned, disjoint live blocks); '
            'std::vector and queue operations are atomic steps in the model; the data-race freedom of the vector that this presupposes is what C41_lock_mutual_exclusion provides. No axioms.',
}

ASSUMPTIONS = [
    'sequentially consistent interleaving at hook granularity; std::vector::push_back/size and the central-queue operations are atomic steps (a data race on the vector is undefined behaviour and outside the model; it is detected as critical-section occupancy > 1)',
    'moodycamel::ConcurrentQueue is trusted to be a linearizable multiset container (enqueue adds exactly the given blocks, dequeue removes exactly the returned ones); which blocks it returns is an oracle taken from the real run',
    'alignedMalloc(bytes, alignment) returns alignment-aligned storage disjoint from every other live allocation (hypotheses of C41_blocks_sized_aligned)',
    'compare_exchange_weak never fails spuriously on x86 and the lockstep harness cannot force it; a spurious failure is followed by allocId = 0 like any failure and is a stutter step of the model',
    'one size class is modelled (classes share no state)',
    'the allocator hook points (DISPENSO_VERIF_SBA_POINT) are live only when BOTH -DDISPENSO_VERIF and -DDISPENSO_VERIF_SBA are defined: dv.build_harness always passes -DDISPENSO_VERIF (dv.CXX) and this check adds '
    'extra_flags=(-DDISPENSO_VERIF_SBA,), so the harness has both; every other harness and the cached library are built without DISPENSO_VERIF_SBA and do not see these points. '
    'The harness compiles dispenso/small_buffer_allocator.cpp from /repo into its own TU (no library) to instantiate the 4096- and 8192-byte classes (3/12 and 1/6 chunks) next to the library class 256 (32/128)',
]

SITES = ['start', 'h.op', 'sba.grab.dequeue', 'sba.grab.fetch_add', 'sba.grab.spin', 'sba.grab.push_back', 'sba.grab.enqueue', 'sba.grab.store',
         'sba.recycle.enqueue', 'sba.bytes.cas', 'sba.bytes.size', 'sba.bytes.store', 'sba.exit.enqueue']
TAGS = {'alloc': 1, 'dealloc': 2, 'bytes': 3, 'grab': 4}
DEQ = SITES.index('sba.grab.dequeue')


def op_coq(o):
    if o[0] == 'D': return '(ODealloc %s)' % dv.zlit(o[1])
    return {'A': 'OAlloc', 'B': 'OBytes', 'X': 'OExit'}[o[0]]


def op_txt(o):
    return 'D%d' % o[1] if o[0] == 'D' else o[0]


def gen_sched(r, nthr, n):
    out = []
    mode = r.random()
    while len(out) < n:
        if mode < 0.5:
            out += [r.randrange(nthr)] * r.choice([1, 1, 2, 3, 4, 6])
        else:
            out.append(r.randrange(0, 60))
    return out[:n]


CLASSES = [4, 8, 16, 32, 64, 128, 256, 2048, 4096, 8192]   # library classes + the three extra classes of the harness


def gen_drain(r, consts):
    """a thread exits with a PARTIALLY filled cache (its flush leaves the central store with a count that is no multiple of the batch), then
    another thread allocates through several refills while HOLDING every block, so that its last refill is short"""
    chunk = r.choice([4096, 4096, 2048])
    ideal, pm, _ = consts[chunk]
    j = r.randint(1, ideal - 1) if ideal > 1 else 1
    helper = [('A',)] * j + [('X',)]
    m = (pm - j) + r.choice([1, 1, 2, ideal + 1])          # drains the first slab past the short refill
    m = min(m, 26)
    main = [('A',)] * m + [('X',)]
    progs = [helper, main]
    if r.random() < 0.4:
        progs.append([('A',)] * r.randint(1, 3) + [('X',)])
    if r.random() < 0.3:
        progs[1].insert(r.randrange(len(progs[1])), ('B',))
    budget = min(16 + sum(3 * len(p) for p in progs) + 12 * len(progs), 170)
    if r.random() < 0.6:
        sched = [0] * (len(helper) + 8) + gen_sched(r, len(progs), budget)     # the helper first, then interleaved
    else:
        sched = gen_sched(r, len(progs), budget + 4)
    return {'chunk': chunk, 'budget': budget, 'progs': progs, 'sched': sched[:budget + 4]}


def probe_lockstep(consts):
    """deterministic probes (model-tied): helper allocates j blocks and exits, main allocates until one past the short refill, holding all"""
    out = []
    for chunk in (2048, 4096, 256):
        ideal, pm, _ = consts[chunk]
        for j in sorted(set([1, max(1, ideal // 2), ideal - 1])):
            full = (pm - j) // ideal                  # full refills the central store can serve after the helper's flush
            n = full * ideal + 1                      # the next allocation needs the short refill
            progs = [[('A',)] * j + [('X',)], [('A',)] * n + [('X',)]]
            budget = 30 + j + n + 3 * (full + 3)
            out.append({'chunk': chunk, 'budget': budget, 'progs': progs, 'sched': [0] * (budget + 4)})
    return out


def probe_exit_flush(consts, r):
    """a thread exits while its cache holds MORE than the ideal batch but is not full (it freed j blocks that another thread had allocated,
    ideal < j < 2*ideal): its exit must hand exactly those j blocks back; a third thread then allocates through the central store holding everything"""
    out = []
    for chunk in (4096, 2048, 256):
        ideal, pm, _ = consts[chunk]
        js = sorted(set([ideal + 1, 2 * ideal - 1, (3 * ideal) // 2]))
        for j in js:
            if not (ideal < j < 2 * ideal):
                continue
            for variant in range(2):
                m = j + (0 if variant == 0 else 2)                     # variant 1: two blocks stay live in the first thread
                n3 = min(pm + ideal + 2, 60)
                progs = [[('A',)] * m + [('X',)], [('D', 0)] * j + [('X',)], [('A',)] * n3 + [('X',)]]
                budget = 60 + 4 * (m + j + n3)
                if variant == 0:
                    sched = [0] * (budget + 4)                           # strictly one thread after the other
                else:
                    sched = [0] * (3 * m + 6) + [r.randrange(0, 2) for _ in range(budget)]   # the freeing thread and the third interleave
                out.append({'chunk': chunk, 'budget': budget, 'progs': progs, 'sched': sched[:budget + 4]})
    return out


def probe_native(consts):
    """the same sequence on the implementation alone, for EVERY size class (batch sizes taken from the real constants)"""
    out = []
    for chunk in CLASSES:
        ideal, pm, _ = consts[chunk]
        for j in sorted(set([1, max(1, ideal // 2), max(1, ideal - 1)])):
            full = (pm - j) // ideal
            out.append('probe %d %d %d' % (chunk, j, full * ideal + ideal + 2))
    return out


def gen_case(r, with_bytes=None):
    chunk = r.choice([8192, 8192, 4096, 4096, 2048, 256])
    nth = r.choice([2, 2, 3, 3])
    if with_bytes is None:
        with_bytes = r.random() < 0.45
    progs = []
    maxops = 3 if chunk == 256 else 6
    for t in range(nth):
        p = []
        for _ in range(r.randint(1, maxops)):
            x = r.random()
            if x < 0.5: p.append(('A',))
            elif x < 0.8: p.append(('D', r.randrange(0, 6)))
            elif x < 0.92 and with_bytes: p.append(('B',))
            elif x < 0.97: p.append(('X',))
            else: p.append(('A',))
        p.append(('X',))
        progs.append(p)
    if with_bytes and not any(o[0] == 'B' for p in progs for o in p):
        progs[r.randrange(nth)].insert(0, ('B',))
    budget = 14 + sum(7 * len(p) for p in progs)
    budget = min(budget, 150)
    sched = gen_sched(r, nth, budget + 4)
    return {'chunk': chunk, 'budget': budget, 'progs': progs, 'sched': sched}


def line_of(c):
    return '%d %d ; %s ; S %s' % (c['chunk'], c['budget'], ' ; '.join(' '.join(op_txt(o) for o in p) for p in c['progs']),
                                 ' '.join(map(str, c['sched'])))


def parse_extra(extra):
    m = re.match(r'lock (-?\d+) slabs (\d+) maxocc (\d+) bad (\d+) consts (\d+),(\d+),(\d+) hints (\S*) ev(.*)', extra)
    if not m:
        return None
    hints = []
    for h in m.group(8).split(';'):
        if not h:
            continue
        xs = [int(x) for x in h.split(',')]
        hints.append(xs[1:1 + xs[0]])
    ev = []
    for tok in m.group(9).split():
        ev.append((1 if tok[0] == 'a' else 2, int(tok[1:])))
    return {'lock': int(m.group(1)), 'slabs': int(m.group(2)), 'maxocc': int(m.group(3)), 'bad': int(m.group(4)),
            'consts': (int(m.group(5)), int(m.group(6)), int(m.group(7))), 'hints': hints, 'ev': ev}


def merged_sched(c, p, x):
    """the model's decision list: vsched's decisions with, after each executed dequeue step, the blocks that dequeue returned"""
    out, hi = [], 0
    d = c['sched']
    for i, (t, site) in enumerate(p['steps']):
        out.append(d[i] if i < len(d) else 0)
        if site == DEQ:
            h = x['hints'][hi] if hi < len(x['hints']) else []
            hi += 1
            out += [len(h)] + h
    out += d[len(p['steps']):]
    return out


def term_of(c, p, x):
    nthr = len(c['progs'])
    res = dv.coq_list([ls_common.zpairs(p['results'].get(t, [])) for t in range(nthr)])
    return '(SC %s %d%%nat %s %s %s %s %s %s (%d, %d, %d) %s %s %s %d)' % (
        dv.zlit(c['chunk']), c['budget'],
        dv.coq_list([dv.coq_list([op_coq(o) for o in pr]) for pr in c['progs']]),
        dv.coq_list([dv.zlit(v) for v in merged_sched(c, p, x)]),
        ls_common.zpairs(p['steps']), res, dv.zlit(x['lock']), dv.zlit(x['slabs']), x['consts'][0], x['consts'][1], x['consts'][2], dv.zlit(x['maxocc']), dv.zlit(x['bad']),
        ls_common.zpairs(x['ev']), p['status'])


# regression case (C41_regression_former_witness), replayed first on every run: the schedule that put two threads inside before the repair of
# bytesAllocated (finding bytesAllocated-cas-retry-steals-lock, fixed): T0 stands inside grabFromCentralStore's critical section; T1's
# bytesAllocated used to fail one CAS and succeed with the second; now it keeps failing until T0 has stored 0
WITNESS = {'chunk': 4096, 'budget': 60, 'progs': [[('A',), ('X',)], [('B',), ('X',)], [('A',), ('X',)]],
           'sched': [0, 0, 0, 0, 1, 1, 1, 1, 1, 1, 2, 2, 2, 2] + [0] * 50}


def run(ctx):
    ctx.prove(models=['Model/C41Check.v'])
    exe = dv.build_harness('h_smallbuf', ['h_smallbuf.cpp'], need_lib=False, extra_flags=('-DDISPENSO_VERIF_SBA',))
    ctx.phase('build')
    r = ctx.rng
    # the class constants of the real code (batch sizes differ per class); the judge compares them with cfg_of_chunk
    couts = ls_common.run_cases(exe, ['consts %d' % ch for ch in CLASSES], jobs=2)
    consts = {}
    for ch, o in zip(CLASSES, couts):
        m = re.match(r'consts chunk (\d+) (\d+),(\d+),(\d+)', o or '')
        if m and int(m.group(1)) == ch:
            consts[ch] = (int(m.group(2)), int(m.group(3)), int(m.group(4)))
    if len(consts) != len(CLASSES):
        ctx.broken.append('harness did not report the class constants: ' + ' / '.join((o or '')[:60] for o in couts))
        return
    # implementation-only probes, every size class: helper thread allocates j and exits (partial cache flushed), a second thread allocates and
    # holds through the short refill; every block must be non-null, aligned, inside a slab and not live
    nat = probe_native(consts)
    nouts = ls_common.run_cases(exe, nat, jobs=4)
    nbad = 0
    for l, o in zip(nat, nouts):
        m = re.match(r'probe chunk (\d+) consts (\d+),(\d+),(\d+) helper (\d+) allocs (\d+) bad (\d+) firstbad (-?\d+) reason (\S+) slabs (\d+)', o or '')
        if not m:
            ctx.broken.append('probe output unreadable for %s: %s' % (l, (o or '')[:200]))
            continue
        if int(m.group(7)) > 0:
            nbad += 1
            ctx.violation('SmallBufferAllocator<%s> (batch %s, %s per slab): a helper thread allocated %s block(s) and exited, then one thread allocated %s blocks holding all of them: '
                          'allocation #%s returned a block that is %s (%s bad allocations)' % (m.group(1), m.group(2), m.group(3), m.group(5), m.group(6), m.group(8), m.group(9), m.group(7)),
                          {'case': l, 'output': o, 'cmd': 'echo "%s" | build/harness/h_smallbuf-*' % l})
    ctx.cov['native_probes'] = {'cases': len(nat), 'classes': len(CLASSES), 'failed': nbad}
    ctx.cov['evaluations'] += len(nat)
    ctx.phase('probes')
    n = 110 if ctx.quick else 7000
    nd = 45 if ctx.quick else 2000
    probes = probe_lockstep(consts)
    flush = probe_exit_flush(consts, r)
    ctx.cov['exit_flush_probe_cases'] = len(flush)
    cases = [WITNESS] + probes + flush + [gen_drain(r, consts) for _ in range(nd)] + [gen_case(r) for _ in range(n)]
    outs = ls_common.run_cases(exe, [line_of(c) for c in cases])
    terms, kept = [], []
    distinct = set()
    feat = {'short_refill': 0, 'carve': 0, 'dequeue_hit': 0, 'recycle': 0, 'exit_flush': 0, 'spin': 0, 'bytes_cas_retry': 0, 'cross_thread_dealloc': 0}
    for c, o in zip(cases, outs):
        p = ls_common.parse_vsched(o, SITES, TAGS)
        x = parse_extra(p['extra']) if p and 'error' not in p else None
        if p is None or 'error' in p or x is None:
            ctx.broken.append('lockstep harness output unreadable for %s: %s' % (line_of(c)[:200], (o or '')[:200]))
            continue
        terms.append(term_of(c, p, x))
        kept.append((c, p, x, o))
        sites = [s for (_, s) in p['steps']]
        nalloc = sum(1 for e in x['ev'] if e[0] == 1)
        if nalloc >= 2 and len(set(t for (t, _) in p['steps'])) >= 2:
            distinct.add(o.split('| status')[0])
        feat['carve'] += sites.count(SITES.index('sba.grab.push_back'))
        feat['dequeue_hit'] += sum(1 for h in x['hints'] if h)
        feat['short_refill'] += sum(1 for h in x['hints'] if 0 < len(h) < x['consts'][0])
        feat['recycle'] += sites.count(SITES.index('sba.recycle.enqueue'))
        feat['exit_flush'] += sites.count(SITES.index('sba.exit.enqueue'))
        feat['spin'] += sites.count(SITES.index('sba.grab.spin'))
        alloc_by = {}
        for t in p['results']:
            for (g, v) in p['results'][t]:
                if g == 1:
                    alloc_by.setdefault(v, set()).add(t)
        for t in p['results']:
            for (g, v) in p['results'][t]:
                if g == 2 and v >= 0 and alloc_by.get(v) and t not in alloc_by[v]:
                    feat['cross_thread_dealloc'] += 1
        ncas = sites.count(SITES.index('sba.bytes.cas'))
        nsz = sites.count(SITES.index('sba.bytes.size'))
        feat['bytes_cas_retry'] += max(0, ncas - nsz)
    ctx.cov['evaluations'] += len(cases)
    ctx.cov['distinct_nontrivial'] += len(distinct)
    ctx.cov['rule'] = ('generated programs over alloc / dealloc(k-th live block, any thread\'s) / bytesAllocated / thread-exit for 2-3 threads, classes 8192 (1 ideal, 6 per slab), '
                       '4096 (3, 12), 2048 (5, 22) and the library class 256 (32, 128) through the public API, x bursty/uniform schedules; a "drain" family (a thread exits with a partially filled '
                       'cache, another allocates through several refills holding every block, last refill short); deterministic lockstep probes of that sequence for 2048/4096/256; '
                       'plus implementation-only probes of it for every size class 4..256, 2048, 4096, 8192; one fork per case under vsched; '
                       'non-trivial = at least 2 allocations and at least 2 threads took steps; distinct = distinct (trace, results, final state) strings')
    verdicts = ls_common.judge_parallel(ctx, 'From DV Require Import Base.Sched Model.SmallBufModel Model.C41Check.', 'judge_sb', terms, shard_size=28)
    if verdicts is None:
        ctx.broken.append('correspondence L(C41): the model no longer evaluates')
        return
    hist = {}
    for i, (v, (c, p, x, o)) in enumerate(zip(verdicts, kept)):
        hist[v] = hist.get(v, 0) + 1
        if v == 2:
            if x['bad'] > 0:
                what = 'a block handed to two owners / misaligned / outside its slab (bad=%d)' % x['bad']
            elif x['maxocc'] > 1:
                what = 'critical-section occupancy %d > 1' % x['maxocc']
            else:
                what = 'ownership map violated (a live block allocated again, or a non-live block freed)'
            ctx.violation('SmallBufferAllocator: %s: %s -> %s' % (what, line_of(c)[:200], o[:400]),
                          {'case': line_of(c), 'output': o, 'cmd': 'echo "<case>" | build/harness/h_smallbuf-*'})
        elif v == 1:
            ctx.broken.append('correspondence L(C41): real trace/results differ from the model on ' + line_of(c) + ' -> ' + o[:300])
    if kept and kept[0][0] is WITNESS:
        ctx.cov['regression_former_witness'] = {'verdict': verdicts[0], 'maxocc': kept[0][2]['maxocc']}
    ctx.cov['verdict_histogram'] = {'agree': hist.get(0, 0), 'differ_property_holds': hist.get(1, 0), 'property_fails': hist.get(2, 0)}
    ctx.cov['max_occupancy_seen'] = max([x['maxocc'] for _, _, x, _ in kept] or [0])
    ctx.cov['traces_validated_against_impl'] += hist.get(0, 0)
    ctx.cov['feature_histogram'] = feat
    ctx.cov['lockstep_probe_cases'] = len(probes)
    ctx.cov['with_bytes_cases'] = sum(1 for c, _, _, _ in kept if any(o[0] == 'B' for p in c['progs'] for o in p))
    ctx.cov['status_histogram'] = {k: sum(1 for _, p, _, _ in kept if p['status'] == v) for k, v in (('done', 0), ('deadlock', 1), ('budget', 2))}
    ctx.sample({'case': line_of(cases[0])[:120], 'impl': outs[0][:500]})
    if len(cases) > 1:
        ctx.sample({'case': line_of(cases[1])[:200], 'impl': outs[1][:500]})
    ctx.phase('correspond')
