"""C32 -- ConcurrentVector behaves like std::vector sequentially, with balanced element lifetimes.
Tie: T (bucketAndSubIndex / allocCheckIndex regenerated from the source) + D (differential against the model and std::vector)."""
import dv, pf_common, os

META = {
    'category': 'proof',
    'technique': 'Coq theorems about an executable Gallina model of ConcurrentVector (buckets of lifetime-tracked cells, allocation strategies, every public '
                 'sequential operation) + bucketAndSubIndex/allocCheckIndex regenerated from the source by the translator + differential run of the real '
                 'ConcurrentVector<life::L, Traits> against the model and against std::vector, judged inside Coq (vm_compute)',
    'text': 'Kernel-checked: bucket_bijection (index <-> (bucket, sub-index) with the documented capacities for every index), the array laws of the bucketed '
            'storage, sufficiency of all three allocation strategies, and C32_holds: refinement of std::vector (contents, sizes, returned positions) and '
            'balanced element lifetimes for EVERY operation sequence (after the repairs of erase and single-element insert in /repo; the former refutation '
            'witnesses are regression examples, replayed first on every run).  The real code is run on generated operation sequences biased to '
            'bucket boundaries for 6 trait/element-size sets; model, std::vector and implementation are compared after every operation inside Coq.',
    'note': 'Trusted: Coq kernel; tools/translate.py + clang AST (detail::log2 is taken as the primitive Z.log2); harness/h_cvec.cpp + harness/life.h; '
            'python case generation.  No axioms (Print Assumptions: closed).',
}

ASSUMPTIONS = [
    'single-threaded use; operation preconditions of std::vector (valid positions, pop_back on a non-empty vector); sizes below kMaxVectorSize',
    'detail::log2 (inline asm bsr) is the primitive floor(log2) on non-zero arguments; malloc returns disjoint blocks (cells of distinct buffers never alias)',
    'element type tolerates self-move-assignment: insert(pos, 0, v) / insert(pos, first, first) self-move-assign every element of [pos, end())',
    'buffer ownership (shouldDealloc_) and the cached pointer table are not modelled; block balance (mallocs = frees) is checked on the real runs only',
    'Traits::kMaxVectorSize in max_size() and non-default SizeTraits do not compile on the current tree (reported; not exercised)',
]

PACK = os.environ.get('C32_PACK') is not None      # hexadecimal packing of long lists: measured slower to parse than plain lists

TS_FIRSTLEN = {0: 1, 1: 1, 2: 1, 3: 2, 4: 4, 5: 16}
CK = {'copy': 'KCopy', 'move': 'KMove', 'value': 'KValue'}


# ------------------------------------------------------------------------------------------------ operations
def pack(xs):
    return '0x%x' % sum(x << (20 * i) for i, x in enumerate(xs))


def zl(xs):
    """a list of Z; long lists of small non-negative numbers as one base-2^20 literal (C32Check.unpack)"""
    if PACK and len(xs) > 3 and all(0 <= x < (1 << 20) for x in xs):
        return '(unpack %d %s)' % (len(xs), pack(xs))
    return dv.coq_list([dv.zlit(x) for x in xs])


def op_tokens(op):
    sel, name, a = op
    t = [str(sel), name]
    for x in a:
        if isinstance(x, list):
            t.append(str(len(x)))
            t += [str(y) for y in x]
        else:
            t.append(str(x))
    return t


def op_coq(op):
    sel, name, a = op
    z = dv.zlit
    m = {
        'push': lambda: 'OPush KCopy %s' % z(a[0]), 'pushm': lambda: 'OPush KMove %s' % z(a[0]), 'emplace': lambda: 'OPush KValue %s' % z(a[0]),
        'growby': lambda: 'OGrowBy %s' % z(a[0]), 'growbyv': lambda: 'OGrowByVal %s %s' % (z(a[0]), z(a[1])),
        'growbyr': lambda: 'OGrowByRange %s' % zl(a[0]), 'growbyg': lambda: 'OGrowByGen %s %s' % (z(a[0]), z(a[1])),
        'gtal': lambda: 'OGtal %s' % z(a[0]), 'gtalv': lambda: 'OGtalVal %s %s' % (z(a[0]), z(a[1])),
        'pop': lambda: 'OPop', 'resize': lambda: 'OResize %s' % z(a[0]), 'resizev': lambda: 'OResizeVal %s %s' % (z(a[0]), z(a[1])),
        'clear': lambda: 'OClear', 'erase': lambda: 'OErase %s' % z(a[0]), 'eraser': lambda: 'OEraseRange %s %s' % (z(a[0]), z(a[1])),
        'insert': lambda: 'OInsert KCopy %s %s' % (z(a[0]), z(a[1])), 'insertm': lambda: 'OInsert KMove %s %s' % (z(a[0]), z(a[1])),
        'insertn': lambda: 'OInsertN %s %s %s' % (z(a[0]), z(a[1]), z(a[2])), 'insertr': lambda: 'OInsertRange %s %s' % (z(a[0]), zl(a[1])),
        'assignn': lambda: 'OAssignN %s %s' % (z(a[0]), z(a[1])), 'assignr': lambda: 'OAssignRange %s' % zl(a[0]),
        'reserve': lambda: 'OReserve %s' % z(a[0]), 'shrink': lambda: 'OShrink', 'swap': lambda: 'OSwap', 'copyas': lambda: 'OCopyAssign',
        'moveas': lambda: 'OMoveAssign', 'selfas': lambda: 'OSelfAssign',
        'rc_default': lambda: 'ORecreate CDefault', 'rc_reserve': lambda: 'ORecreate (CReserve %s)' % z(a[0]),
        'rc_sized': lambda: 'ORecreate (CSized %s)' % z(a[0]), 'rc_sizedv': lambda: 'ORecreate (CSizedVal %s %s)' % (z(a[0]), z(a[1])),
        'rc_range': lambda: 'ORecreate (CRange %s)' % zl(a[0]), 'rc_copy': lambda: 'ORecreate CCopy', 'rc_move': lambda: 'ORecreate CMove',
        'iter': lambda: 'OIter', 'at': lambda: 'OAt %s' % z(a[0]), 'frontback': lambda: 'OFrontBack', 'compare': lambda: 'OCompare',
    }
    return '(%s, %s)' % ('true' if sel else 'false', m[name]())


def spec_apply(st, op):
    """std::vector semantics in python, only to keep generated cases inside the preconditions"""
    sel, name, a = op
    s, o = st[sel], st[1 - sel]
    if name in ('push', 'pushm', 'emplace'):
        s = s + [a[0]]
    elif name == 'growby':
        s = s + [0] * a[0]
    elif name == 'growbyv':
        s = s + [a[1]] * a[0]
    elif name == 'growbyr':
        s = s + a[0]
    elif name == 'growbyg':
        s = s + [a[1] + k for k in range(a[0])]
    elif name == 'gtal':
        s = s + [0] * max(0, a[0] - len(s))
    elif name == 'gtalv':
        s = s + [a[1]] * max(0, a[0] - len(s))
    elif name == 'pop':
        s = s[:-1]
    elif name == 'resize':
        s = s[:a[0]] + [0] * max(0, a[0] - len(s))
    elif name == 'resizev':
        s = s[:a[0]] + [a[1]] * max(0, a[0] - len(s))
    elif name in ('clear', 'rc_default', 'rc_reserve'):
        s = []
    elif name == 'erase':
        s = s[:a[0]] + s[a[0] + 1:]
    elif name == 'eraser':
        s = s[:a[0]] + s[a[1]:]
    elif name in ('insert', 'insertm'):
        s = s[:a[0]] + [a[1]] + s[a[0]:]
    elif name == 'insertn':
        s = s[:a[0]] + [a[2]] * a[1] + s[a[0]:]
    elif name == 'insertr':
        s = s[:a[0]] + a[1] + s[a[0]:]
    elif name in ('assignn', 'rc_sizedv'):
        s = [a[1]] * a[0]
    elif name in ('assignr', 'rc_range'):
        s = list(a[0])
    elif name == 'rc_sized':
        s = [0] * a[0]
    elif name == 'swap':
        s, o = o, s
    elif name in ('copyas', 'rc_copy'):
        s = list(o)
    elif name in ('moveas', 'rc_move'):
        s, o = list(o), []
    st2 = [None, None]
    st2[sel], st2[1 - sel] = s, o
    return st2


class Gen:
    def __init__(self, rng, ts, maxn):
        self.r, self.ts, self.maxn = rng, ts, maxn
        fl = TS_FIRSTLEN[ts]
        b = set([0, 1, 2, 3])
        c = fl
        while c <= 2 * maxn:
            b |= {c - 1, c, c + 1, c + c // 2, c + c // 2 + 1, c // 2 + 1}
            c *= 2
        self.bounds = sorted(x for x in b if 0 <= x <= maxn)
        self.tag = 0

    def t(self):
        self.tag += 1
        return self.tag

    def tags(self, n):
        return [self.t() for _ in range(n)]

    def target(self, lo, hi):
        """a size in [lo, hi], preferably a bucket boundary"""
        c = [x for x in self.bounds if lo <= x <= hi]
        if c and self.r.random() < 0.8:
            return self.r.choice(c)
        return self.r.randint(lo, hi)

    def pos(self, n, allow_end=True):
        hi = n if allow_end else n - 1
        c = [x for x in self.bounds + [n - 1, n - 2, n] if 0 <= x <= hi]
        if c and self.r.random() < 0.6:
            return self.r.choice(c)
        return self.r.randint(0, hi)

    def one(self, st, kinds):
        r = self.r
        sel = 0 if r.random() < 0.7 else 1
        n = len(st[sel])
        m = self.maxn
        for _ in range(50):
            k = r.choice(kinds)
            if k == 'push' and n < m:
                return (sel, r.choice(['push', 'pushm', 'emplace']), [self.t()])
            if k == 'grow' and n < m:
                d = self.target(n, m) - n
                w = r.choice(['growby', 'growbyv', 'growbyr', 'growbyg', 'gtal', 'gtalv', 'resize', 'resizev'])
                if w == 'growby':
                    return (sel, w, [d])
                if w == 'growbyv':
                    return (sel, w, [d, self.t()])
                if w == 'growbyr':
                    return (sel, w, [self.tags(d)])
                if w == 'growbyg':
                    t0 = self.tag + 1
                    self.tag += d
                    return (sel, w, [d, t0])
                if w in ('gtal', 'resize'):
                    tgt = max(1, self.target(0, m)) if w == 'gtal' else self.target(0, m)
                    return (sel, w, [tgt])
                tgt = max(1, self.target(0, m)) if w == 'gtalv' else self.target(0, m)
                return (sel, w, [tgt, self.t()])
            if k == 'pop' and n > 0:
                return (sel, 'pop', [])
            if k == 'shrinksize' and n > 0:
                return self.shrinksize(sel, n)
            if k == 'erase' and n > 0:
                if r.random() < 0.5:
                    return (sel, 'erase', [self.pos(n, False)])
                i = self.pos(n)
                j = self.r.randint(i, n) if r.random() < 0.6 else min(n, i + r.choice([0, 1, 2, 3]))
                return (sel, 'eraser', [i, j])
            if k == 'erase_tail' and n > 0:     # erases that shift nothing: balanced even on the current tree
                if r.random() < 0.5:
                    return (sel, 'erase', [n - 1])
                return (sel, 'eraser', [self.pos(n), n])
            if k == 'insert1' and n < m:
                return (sel, r.choice(['insert', 'insertm']), [self.pos(n), self.t()])
            if k == 'insertn' and n < m:
                i = self.pos(n)
                d = min(m - n, r.choice([0, 1, 1, 2, 3, 5, self.target(n, m) - n]))
                if r.random() < 0.5:
                    return (sel, 'insertn', [i, d, self.t()])
                return (sel, 'insertr', [i, self.tags(d)])
            if k == 'assign':
                d = self.target(0, m)
                if r.random() < 0.5:
                    return (sel, 'assignn', [d, self.t()])
                return (sel, 'assignr', [self.tags(d)])
            if k == 'mem':
                if r.random() < 0.5:
                    return (sel, 'shrink', [])
                return (sel, 'reserve', [self.target(0, m)])
            if k == 'two':
                return (sel, r.choice(['swap', 'copyas', 'moveas', 'selfas', 'rc_copy', 'rc_move']), [])
            if k == 'recreate':
                w = r.choice(['rc_default', 'rc_reserve', 'rc_sized', 'rc_sizedv', 'rc_range'])
                d = self.target(0, m)
                if w == 'rc_default':
                    return (sel, w, [])
                if w in ('rc_reserve', 'rc_sized'):
                    return (sel, w, [d])
                if w == 'rc_sizedv':
                    return (sel, w, [d, self.t()])
                return (sel, w, [self.tags(d)])
            if k == 'observe':
                w = r.choice(['iter', 'at', 'frontback', 'compare', 'iter'])
                if w == 'at' and n > 0:
                    return (sel, w, [self.pos(n, False)])
                if w == 'frontback' and n > 0:
                    return (sel, w, [])
                if w in ('iter', 'compare'):
                    return (sel, w, [])
        return (sel, 'iter', [])

    def shrinksize(self, sel, n):
        r = self.r
        w = r.choice(['resize', 'resizev', 'clear', 'pop'])
        if w == 'clear':
            return (sel, 'clear', [])
        if w == 'pop':
            return (sel, 'pop', [])
        tgt = self.target(0, n)
        return (sel, w, [tgt]) if w == 'resize' else (sel, w, [tgt, self.t()])

    def case(self, length, kinds):
        st = [[], []]
        ops = []
        for _ in range(length):
            op = self.one(st, kinds)
            ops.append(op)
            st = spec_apply(st, op)
        return ops


ALL = ['push', 'push', 'grow', 'grow', 'grow', 'pop', 'shrinksize', 'erase_tail', 'insertn', 'assign', 'mem', 'mem', 'two', 'recreate', 'observe',
       'erase', 'erase', 'insert1']


def witnesses():
    """regression cases: the witnesses of the repaired defects (erase leak / erase return value / insert over live), replayed first on every run"""
    w = []
    for ts in (0, 5):
        w.append(('erase3', ts, [(0, 'emplace', [1]), (0, 'emplace', [2]), (0, 'emplace', [3]), (0, 'erase', [0])]))
        w.append(('eraser6', ts, [(0, 'growbyg', [6, 10]), (0, 'eraser', [1, 3])]))
        w.append(('insert3', ts, [(0, 'emplace', [1]), (0, 'emplace', [2]), (0, 'emplace', [3]), (0, 'insert', [1, 9])]))
    return w


# ------------------------------------------------------------------------------------------------ harness output
def parse_line(line):
    """-> dict(hdr=[ts, shift, maxbuf], steps=[...], final=[...], tail=[refbal, balloc, bfree]) or None"""
    if line is None or not line.startswith('cvec '):
        return None
    recs = [x.strip() for x in line.split('|')]
    hdr = [int(x) for x in recs[0].split()[1:]]
    steps = []
    for rec in recs[1:-1]:
        p = [[int(y) for y in x.split()] for x in rec.split(';')]
        if len(p) != 4 or len(p[2]) != 6:
            return None
        selfc = p[0][1:]
        two = p[1][0]
        other = p[1][2:] if two else []
        steps.append({'self': selfc, 'two': two, 'other': other, 'ret': p[2][0], 'stdret': p[2][1], 'stdok': p[2][2], 'cap': p[2][3],
                      'ss': p[2][4], 'so': p[2][5], 'led': p[3]})
    z = recs[-1]
    if not z.startswith('Z '):
        return None
    a, b = z[2:].split(';')
    return {'hdr': hdr, 'steps': steps, 'final': [int(x) for x in a.split()], 'tail': [int(x) for x in b.split()]}


def case_coq(ts, ops, p):
    steps = []
    for s in p['steps']:
        small = PACK and all(0 <= x < (1 << 20) for x in s['self'] + s['other'] + s['led']) and len(s['led']) == 14
        if small:
            steps.append('mkObsP %d %s %s %d %s %s %s %s %s %s %s %s' % (len(s['self']), pack(s['self']), 'true' if s['two'] else 'false',
                                                                       len(s['other']), pack(s['other']), dv.zlit(s['ret']), dv.zlit(s['stdret']),
                                                                       dv.zlit(s['stdok']), dv.zlit(s['cap']), dv.zlit(s['ss']), dv.zlit(s['so']),
                                                                       pack(s['led'])))
            continue
        steps.append('mkObs %s %s %s %s %s %s %s %s %s %s' % (zl(s['self']), 'true' if s['two'] else 'false', zl(s['other']), dv.zlit(s['ret']),
                                                            dv.zlit(s['stdret']), dv.zlit(s['stdok']), dv.zlit(s['cap']), dv.zlit(s['ss']),
                                                            dv.zlit(s['so']), zl(s['led'])))
    return '(mkCase %d %d %d %s %s %s %d %d %d)' % (ts, p['hdr'][1], p['hdr'][2], dv.coq_list([op_coq(o) for o in ops]), dv.coq_list(steps),
                                                   zl(p['final']), p['tail'][0], p['tail'][1], p['tail'][2])


def case_line(ts, ops):
    t = [str(ts), str(len(ops))]
    for o in ops:
        t += op_tokens(o)
    return ' '.join(t)


IMPORTS = 'From DV Require Import Base.MachInt Base.Corr Base.Life Model.CVecModel Model.C32Check.'


def judge(ctx, name, cases):
    """cases: list of (ts, ops, parsed).  -> list of judge_case results (lists of ints) or None"""
    res = []
    for k, sh in enumerate(pf_common.shard(cases, max(1, (len(cases) + 249) // 250))):
        terms = [case_coq(ts, ops, p) for ts, ops, p in sh]
        body = 'From Coq Require Import ZArith List Bool.\nImport ListNotations.\n' + IMPORTS + '\nLocal Open Scope Z_scope.\n'
        body += 'Definition cases := %s.\nEval vm_compute in (map judge_case cases).\n' % dv.coq_list(terms)
        rc, out = dv.coq_eval(ctx.work, '%s_%d' % (name, k), body, 600)
        if rc != 0:
            ctx.cov.setdefault('coq_eval_errors', []).append(out[-1500:])
            return None
        vals = dv.eval_results(out)
        res += dv.parse_zlist(vals[0])
    return res


def api_probes(ctx):
    """compile-only observations about the public interface (not part of the verdict)"""
    probes = {
        'max_size': '#include <dispenso/concurrent_vector.h>\nint main(){ dispenso::ConcurrentVector<int> v; return (int)v.max_size(); }\n',
        'custom_SizeTraits': '#include <dispenso/concurrent_vector.h>\nstruct ST { static constexpr size_t kDefaultCapacity = 4; static constexpr size_t kMaxVectorSize = 1 << 20; };\n'
                             'int main(){ dispenso::ConcurrentVector<int, dispenso::DefaultConcurrentVectorTraits, ST> v; v.push_back(1); return (int)v.size(); }\n',
    }
    out = {}
    for k, src in probes.items():
        p = os.path.join(ctx.work, 'probe_%s.cpp' % k)
        open(p, 'w').write(src)
        rc, txt = dv.sh(['g++', '-std=c++14', '-fsyntax-only', '-I' + dv.REPO, '-isystem', dv.REPO + '/dispenso/third-party', p], timeout=120)
        out[k] = 'compiles' if rc == 0 else 'does NOT compile: ' + (txt.split('error:')[1].split('\n')[0].strip() if 'error:' in txt else txt[-200:])
    ctx.cov['api_compile_probes'] = out


def run(ctx):
    rep = dv.gen(['cvec'])
    if any(rep.values()):
        ctx.broken.append('translator: ' + str(rep)[:500])
    ctx.cov['translator_report'] = rep
    ctx.phase('translate')
    ctx.prove(tie_files=['GenTie/CVecGenTie.v'], models=['Model/C32Check.v', 'Base/Corr.v'])
    exe = dv.build_harness('h_cvec', ['h_cvec.cpp'], need_lib=False, extra_flags=('-Wl,--wrap=free', '-Wl,--wrap=malloc'))
    ctx.phase('build')
    r = ctx.rng
    ncase = 140 if ctx.quick else 2500
    cases = [(nm, ts, ops) for nm, ts, ops in witnesses()]
    nwit = len(cases)
    k = 0
    while len(cases) < nwit + ncase:
        ts = k % 6
        k += 1
        maxn = {0: 40, 1: 40, 2: 40, 3: 40, 4: 40, 5: 72}[ts] if ctx.quick else {0: 70, 1: 70, 2: 70, 3: 70, 4: 70, 5: 140}[ts]
        g = Gen(r, ts, maxn)
        length = r.choice([3, 6, 10, 16, 24, 32, 40])
        cases.append(('rnd', ts, g.case(length, ALL)))
    lines = [case_line(ts, ops) for _, ts, ops in cases]
    outs = pf_common.run_harness(exe, lines, timeout=600)
    kept = []
    for (nm, ts, ops), o, ln in zip(cases, outs, lines):
        p = parse_line(o)
        if p is None or len(p['steps']) != len(ops):
            ctx.violation('the real ConcurrentVector crashed / hung / produced no result on: %s -> %s' % (ln[:300], str(o)[:200]),
                          {'case': ln, 'output': o, 'cmd': 'echo "%s" | %s' % (ln, exe)})
            continue
        kept.append((nm, ts, ops, p, ln))
    ctx.phase('run')
    res = judge(ctx, 'cases', [(ts, ops, p) for _, ts, ops, p, _ in kept])
    ctx.cov['evaluations'] += len(kept)
    ctx.cov['rule'] = ('operation sequences (length <= 40, two vectors, 45 operation kinds incl. constructors/copy/move/swap) on 6 trait x element-size sets '
                       '(first bucket 1,1,1,2,4,16; all three reallocation strategies; both iterator kinds; inline and heap buffer tables), sizes biased to '
                       '2^k-1, 2^k, 2^k+1 and the half-bucket points.  Non-trivial = the sequence crosses at least one bucket boundary (size reaches past the '
                       'first two buckets); distinct = distinct (trait set, operation list)')
    if res is None:
        ctx.broken.append('correspondence D(C32): the model no longer evaluates (see coq_eval_errors)')
        # property on the implementation's numbers alone
        for nm, ts, ops, p, ln in kept:
            if not all(s['stdok'] == 1 for s in p['steps']):
                ctx.violation('ConcurrentVector contents differ from std::vector on: %s' % ln[:400], {'case': ln, 'cmd': 'echo "%s" | %s' % (ln, exe)})
                break
        return
    hist = {0: 0, 1: 0, 2: 0}
    distinct = set()
    for (nm, ts, ops, p, ln), v in zip(kept, res):
        verdict, agree, contents, pos, life, pre, first = v
        hist[verdict] += 1
        fl = TS_FIRSTLEN[ts]
        if any(len(s['self']) > 2 * fl for s in p['steps']):
            distinct.add(ln)
        replay = {'case': ln, 'cmd': 'echo "%s" | %s' % (ln, exe), 'judge': v, 'final_ledger': p['final']}
        if not pre:
            ctx.broken.append('C32 generator produced a case outside the preconditions: %s' % ln[:200])
        if verdict == 2:
            what = []
            if not contents:
                what.append('contents/size differ from std::vector')
            if not pos:
                what.append('a returned position differs from std::vector')
            if not life:
                what.append('element lifetimes are not balanced (final ledger cv cc cm ac am d live moved e0..e4 = %s; blocks %s)' % (p['final'][:13], p['tail']))
            if not agree:
                what.append('implementation differs from the model at step %d' % first)
            ctx.violation('ConcurrentVector (trait set %d%s): %s; sequence: %s' % (ts, ', regression witness ' + nm if nm != 'rnd' else '', '; '.join(what), ln[:600]), replay)
        elif verdict == 1:
            ctx.broken.append('correspondence D(C32): implementation differs from the model at step %d (property still holds there): %s' % (first, ln[:300]))
    ctx.cov['distinct_nontrivial'] += len(distinct)
    ctx.cov['verdict_histogram'] = {'agree_and_property_holds': hist[0], 'differs_but_property_holds': hist[1], 'property_fails': hist[2]}
    ctx.cov['traces_validated_against_impl'] += hist[0]
    ctx.cov['per_trait_set'] = {str(ts): sum(1 for _, t, _, _, _ in kept if t == ts) for ts in range(6)}
    lens = {}
    for _, _, ops, _, _ in kept:
        lens[len(ops)] = lens.get(len(ops), 0) + 1
    ctx.cov['sequence_length_histogram'] = lens
    for nm, ts, ops, p, ln in kept[:2] + kept[nwit:nwit + 3]:
        ctx.sample({'case': ln[:300], 'final_ledger': p['final']})
    ctx.phase('correspond')
    if not ctx.quick:
        api_probes(ctx)
        ctx.phase('api_probes')
