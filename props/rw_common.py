"""Shared by C22 (RWLock) and C23 (DistributedRWLock): script generation, harness I/O, Coq terms (model: coq/Model/RWLockModel.v)."""
import re
import dv, ls_common

SITES = ['start', 'rw.setWriteBit.fetch_or', 'ce.wait.load', 'futex.wait', 'futex.woken', 'futex.wake', 'rw.lock_upgrade.fetch_sub',
         'rw.try_lock.fetch_or', 'rw.try_lock.load', 'rw.try_lock.fetch_and', 'rw.tryWriteBit.fetch_or', 'rw.unlock.fetch_and',
         'rw.lock_shared.fetch_add', 'rw.lock_shared.load', 'rw.try_lock_shared.fetch_add', 'rw.readerRelease.fetch_sub',
         'rw.lock_downgrade.fetch_add', 'cs.enterW', 'cs.enterR', 'cs.exitW', 'cs.exitR']
TAGS = {'try_lock': 1, 'try_lock_shared': 2}

# ops: ('L',) ('U',) ('T',n) single-slot try_lock | ('X',n) distributed try_lock | ('S',i) ('Y',i,n) ('V',i) ('G',) ('D',)


def op_coq(o):
    k = o[0]
    if k == 'L': return 'OLock'
    if k == 'U': return 'OUnlock'
    if k == 'T': return '(OTryLock %d%%nat)' % o[1]
    if k == 'X': return '(ODTryLock %d%%nat)' % o[1]
    if k == 'S': return '(OLockShared %d%%nat)' % o[1]
    if k == 'Y': return '(OTryLockShared %d%%nat %d%%nat)' % (o[1], o[2])
    if k == 'V': return '(OUnlockShared %d%%nat)' % o[1]
    return {'G': 'OUpgrade', 'D': 'ODowngrade'}[k]


def op_txt(o):
    k = o[0]
    if k in 'LUGD': return k
    if k in 'TX': return 'T%d' % o[1]          # the harness mode decides which try_lock it is
    if k in 'SV': return '%s%d' % (k, o[1])
    return 'Y%d:%d' % (o[1], o[2])


def gen_section(r, dist, nslots, depth=0, up=0.25):
    """ops from idle back to idle (one critical section, possibly with upgrade/downgrade inside)"""
    idx = r.randrange(0, max(1, nslots) * 2) if dist else 0
    x = r.random()

    def body(mode):
        ops = []
        for _ in range(3):
            if mode == 'W':
                if not dist and r.random() < up:
                    ops.append(('D',)); mode = 'R'
                else:
                    ops.append(('U',)); return ops
            else:
                if not dist and r.random() < up:
                    ops.append(('G',)); mode = 'W'
                else:
                    ops.append(('V', idx)); return ops
        ops.append(('U',) if mode == 'W' else ('V', idx))
        return ops
    if x < 0.28:
        return [('L',)] + body('W')
    if x < 0.5:
        b = body('W')
        return [('X' if dist else 'T', len(b))] + b
    if x < 0.8:
        return [('S', idx)] + body('R')
    b = body('R')
    return [('Y', idx, len(b))] + b


def gen_prog(r, dist, nslots, malformed):
    if malformed:
        pool = [('L',), ('U',), ('X' if dist else 'T', r.randint(0, 2)), ('S', 0), ('V', 0), ('Y', 0, r.randint(0, 2))]
        if dist:
            pool += [('S', 1), ('V', 1)]
        else:
            pool += [('G',), ('D',)]
        return [r.choice(pool) for _ in range(r.randint(1, 4))]
    p = []
    for _ in range(r.choice([1, 1, 2, 2, 3])):
        p += gen_section(r, dist, nslots)
        if len(p) >= 6:
            break
    return p


def gen_sched(r, n):
    """decision list mixing uniformly random choices with sticky stretches (the same residue repeated)"""
    out = []
    style = r.random()
    while len(out) < n:
        if style < 0.4 or r.random() < 0.3:
            out += [r.randrange(0, 100) for _ in range(r.randint(1, 8))]
        else:
            out += [r.randrange(0, 12)] * r.randint(2, 14)
    return out[:n]


BUDGET = {1: 90, 2: 120, 4: 150, 16: 330}


def gen_case(r, dist, malformed=False, nslots=None):
    if not dist and not malformed and nslots is None and r.random() < 0.25:
        return gen_handover_case(r)       # weight on upgrade / downgrade hand-overs with a backing-out reader and a prober
    if nslots is None:
        nslots = r.choice([1, 2, 2, 4, 4, 16]) if dist else 1
    nt = r.choice([2, 2, 3, 3, 4])
    if nslots == 16:
        nt = r.choice([2, 2, 3])
    progs = [gen_prog(r, dist, nslots, malformed) for _ in range(nt)]
    if nslots == 16:
        progs = [p[:4] for p in progs]
        # keep every try body intact: regenerate when truncation cut a section
        progs = [p if wf_py(p, nslots) else [('S', 3), ('V', 3)] for p in progs] if not malformed else progs
    budget = BUDGET[nslots]
    return {'dist': dist, 'n': nslots, 'budget': budget, 'progs': progs, 'sched': gen_sched(r, budget + 12)}


def wf_py(p, n, strict=True):
    """python twin of RWLockModel.wfb (used only to shape the generated population)"""
    def go(m, p):
        if not p:
            return (not strict) or m == 'I'
        o, rest = p[0], p[1:]
        k = o[0]
        if m == 'I':
            if k == 'L': return go('W', rest)
            if k == 'T': return n == 1 and go('W', rest) and go('I', rest[o[1]:])
            if k == 'X': return go('W', rest) and go('I', rest[o[1]:])
            if k == 'S': return go(('R', o[1] % n), rest)
            if k == 'Y': return go(('R', o[1] % n), rest) and go('I', rest[o[2]:])
            return False
        if m == 'W':
            if k == 'U': return go('I', rest)
            if k == 'D': return n == 1 and go(('R', 0), rest)
            return False
        if k == 'V': return o[1] % n == m[1] and go('I', rest)
        if k == 'G': return n == 1 and m[1] == 0 and go('W', rest)
        return False
    return go('I', p)


def line_of(c):
    mode = ('d%d' % c['n']) if c['dist'] else 'rw'
    return '%s %d ; %s ; S %s' % (mode, c['budget'], ' ; '.join(' '.join(op_txt(o) for o in p) for p in c['progs']),
                                  ' '.join(map(str, c['sched'])))


def parse_extra(extra):
    m = re.match(r'words((?: -?\d+)+) conflicts (-?\d+) spins (\d+)', extra)
    if not m:
        return None
    return [int(x) for x in m.group(1).split()], int(m.group(2)), int(m.group(3))


def term_of(c, p):
    nthr = len(c['progs'])
    words, conflicts, spins = parse_extra(p['extra'])
    res = dv.coq_list([ls_common.zpairs(p['results'].get(t, [])) for t in range(nthr)])
    return '(RC %d%%nat %d%%nat %d%%nat %s %s %s %s %s %d %s)' % (
        c['n'], spins, ls_common.fuel_of(c['budget'], p['status']),      # a run that finishes exactly at the budget is 'done'
        dv.coq_list([dv.coq_list([op_coq(o) for o in pr]) for pr in c['progs']]),
        dv.coq_list([str(x) for x in c['sched'][:len(p['steps'])]]),      # the run consumed exactly one decision per step
        dv.coq_list([str(t * 32 + site) for t, site in p['steps']]), res, dv.coq_list([dv.zlit(w) for w in words]), p['status'], dv.zlit(conflicts))


def parse_out(o):
    """tolerant parse of a harness line: a site the model does not know (renamed / new hook) gets its own index, so the
    implementation-only property can still be evaluated (the lockstep comparison then simply disagrees)"""
    p = ls_common.parse_vsched(o, SITES, TAGS)
    if isinstance(p, dict) and 'error' in p and o.startswith('steps'):
        names = []
        for tok in o.split('|')[0].split()[1:]:
            site = tok.split(':', 1)[1]
            if site not in SITES and site not in names:
                names.append(site)
        p = ls_common.parse_vsched(o, SITES + names[:10], TAGS)
        if isinstance(p, dict) and 'error' not in p:
            p['unknown_sites'] = names
    if p is None or 'error' in p or parse_extra(p['extra']) is None:
        return None
    return p


def occupancy_conflicts(steps):
    """python twin of C22Check.conflicts_of: occupancy replayed from the trace alone"""
    nw = nr = c = 0
    ew, er, xw, xr = (SITES.index(x) for x in ('cs.enterW', 'cs.enterR', 'cs.exitW', 'cs.exitR'))
    for _, site in steps:
        if site == ew:
            nw += 1
            if nw != 1 or nr != 0: c += 1
        elif site == er:
            nr += 1
            if nw != 0: c += 1
        elif site == xw: nw -= 1
        elif site == xr: nr -= 1
    return c


def impl_fails(c, p):
    """the executable property on the implementation's output alone (python twin of C22Check.property_fails; every hit is
    confirmed by the Coq judge before it is reported)"""
    words, conflicts, _ = parse_extra(p['extra'])
    n = c['n']
    wf = all(wf_py(pr, n, strict=False) for pr in c['progs'])
    bal = wf and all(wf_py(pr, n, strict=True) for pr in c['progs'])
    if wf and (conflicts > 0 or occupancy_conflicts(p['steps']) > 0):
        return 'conflicting occupancy observed inside a critical section (a try_* / lock was granted while a conflicting holder was inside)'
    if bal and p['status'] == 1:
        return 'deadlock of a balanced script (lost wake-up)'
    if bal and p['status'] == 0 and any(w != 0 for w in words):
        return 'lock word not 0 at quiescence of a balanced script (the word is not what the holders account for)'
    return None


# ---- deterministic probe families (hand-over windows) -------------------------------------------------------------
def probe_family(dist, full):
    """thread 0 = holder that hands the lock over (downgrade / upgrade / unlock), thread 1 = reader whose fetch_add lands
    while the writer bit is set and whose back-out lands after the hand-over, thread 2 = prober (decision 5 picks tid 2 both
    with candidates [0,1,2] and [0,2]).  The step counts of every phase are swept, so a changed number of accesses in the
    hand-over still lines the window up."""
    cases = []
    if not dist:
        holders = [[('L',), ('D',), ('V', 0)], [('T', 2), ('D',), ('V', 0)], [('L',), ('D',), ('G',), ('U',)]]
        readers = [[('Y', 0, 1), ('V', 0)], [('S', 0), ('V', 0)]]
        probes = [[('T', 1), ('U',)], [('L',), ('U',)], [('Y', 0, 1), ('V', 0)]]
        if not full:
            holders, probes = holders[:1], probes[:2]
        for h in holders:
            for rd in readers:
                for pb in probes:
                    for a in ((3, 4) if full else (4,)):
                        for cc in ((2, 3, 4, 5) if full else (3, 4)):
                            for d in (1, 2):
                                sched = [0] * a + [1] * 2 + [0] * cc + [1] * d + [5] * 22 + [0, 1, 5] * 30
                                cases.append({'dist': False, 'n': 1, 'budget': 90, 'progs': [h, rd, pb], 'sched': sched[:102]})
        # upgrade hand-over: the reader's fetch_add lands after the upgrader set the bit, its back-out wakes the upgrader
        for rd in readers:
            for pb in ([('Y', 0, 1), ('V', 0)], [('T', 1), ('U',)]):
                for cc in ((1, 2, 3) if full else (2,)):
                    for d in ((1, 2, 3) if full else (2,)):
                        for e in ((2, 4) if full else (3,)):
                            sched = [0] * 5 + [1] * 2 + [0] * cc + [1] * d + [0] * e + [5] * 22 + [0, 1, 5] * 30
                            cases.append({'dist': False, 'n': 1, 'budget': 90, 'progs': [[('S', 0), ('G',), ('U',)], rd, pb], 'sched': sched[:102]})
    else:
        for n in ((1, 2, 4) if full else (2,)):
            for h in ([('L',), ('U',)], [('X', 1), ('U',)]):
                for rd in ([('Y', n - 1, 1), ('V', n - 1)], [('S', n - 1), ('V', n - 1)]):
                    for pb in ([('X', 1), ('U',)], [('Y', 0, 1), ('V', 0)]):
                        for a in ((n + 1, 2 * n + 1, 2 * n + 2) if full else (n + 1, 2 * n + 2)):
                            for cc in ((1, 2, n + 1, n + 2) if full else (2, n + 2)):
                                b = BUDGET[n]
                                sched = [0] * a + [1] * 2 + [0] * cc + [1] * 2 + [5] * (3 * n + 6) + [0, 1, 5] * 60
                                cases.append({'dist': True, 'n': n, 'budget': b, 'progs': [h, rd, pb], 'sched': sched[:b + 12]})
    return cases


def block_sched(r, nt, n):
    """decision list made of short blocks 'run thread t for k steps' (value = t modulo the number of threads)"""
    out = []
    while len(out) < n:
        t = r.randrange(nt)
        k = r.choice([1, 1, 2, 2, 3, 4, 5, 6, 8, 12, 20])
        out += [t + nt * r.randrange(0, 3)] * k
    return out[:n]


def gen_handover_case(r):
    """generator weight: upgrade / downgrade with a concurrently backing-out reader and a third thread probing afterwards"""
    holder = r.choice([[('L',), ('D',), ('V', 0)], [('T', 2), ('D',), ('V', 0)], [('L',), ('D',), ('G',), ('U',)],
                       [('S', 0), ('G',), ('U',)], [('S', 0), ('G',), ('D',), ('V', 0)], [('Y', 0, 2), ('G',), ('U',)]])
    reader = r.choice([[('Y', 0, 1), ('V', 0)], [('S', 0), ('V', 0)], [('Y', 0, 1), ('V', 0), ('Y', 0, 1), ('V', 0)]])
    probe = r.choice([[('T', 1), ('U',)], [('L',), ('U',)], [('Y', 0, 1), ('V', 0)], [('T', 1), ('U',), ('T', 1), ('U',)]])
    a, cc, d = r.randint(3, 6), r.randint(1, 5), r.randint(1, 3)
    sched = [0] * a + [1] * 2 + [0] * cc + [1] * d + [5] * r.randint(2, 22)
    sched += block_sched(r, 3, 102)
    return {'dist': False, 'n': 1, 'budget': 90, 'progs': [holder, reader, probe], 'sched': sched[:102]}


# ---- search ladder on disagreement -----------------------------------------------------------------------------------
def sections_of(p, n):
    """cut a well-formed script into its critical sections (idle to idle)"""
    out, cur, depth_mode = [], [], 'I'
    for o in p:
        cur.append(o)
        k = o[0]
        if k in 'LTXSY': depth_mode = 'H'
        elif k in 'UV': depth_mode = 'I'
        if depth_mode == 'I':
            out.append(cur); cur = []
    if cur:
        out.append(cur)
    return [x for x in out if wf_py(x, n)]


def neighbours(r, c, limit=40):
    """program variants of a disagreeing case: its well-formed threads, their single critical sections, permuted and extended
    with try_lock / try_lock_shared / lock_shared / lock probes by a further thread"""
    n, dist = c['n'], c['dist']
    keep = [list(p) for p in c['progs'] if p and wf_py(p, n)]
    secs = []
    for p in keep:
        for x in sections_of(p, n):
            if x not in secs:
                secs.append(x)
    # sections with hand-overs / try operations first
    secs.sort(key=lambda x: -sum(3 if o[0] in 'DG' else 1 if o[0] in 'TXY' else 0 for o in x))
    idxs = sorted({o[1] for p in keep for o in p if o[0] in 'SYV'} | {0})
    tr = 'X' if dist else 'T'
    probes = [[(tr, 1), ('U',)], [('L',), ('U',)]]
    for i in idxs[:2]:
        probes += [[('Y', i, 1), ('V', i)], [('S', i), ('V', i)]]
    out = []

    def add(v):
        v = [list(p) for p in v if p][:4]
        if len(v) >= 2 and v not in out:
            out.append(v)
    add(keep)
    add(list(reversed(keep)))
    for pb in probes:
        add(keep[:3] + [pb])
    for sa in secs[:6]:
        for rd in probes[2:] or probes:
            for pb in probes:
                add([sa, rd, pb])
    for i, sa in enumerate(secs[:5]):
        for sb in secs[:5]:
            if sa is not sb:
                for pb in probes[:3]:
                    add([sa, sb, pb])
    tail = out[8:]
    r.shuffle(tail)
    return (out[:8] + tail)[:limit]


def ladder(ctx, exe, diffs, judge, imports, label):
    """the lockstep trace differs from the model: search for a concrete failing input of the PROPERTY on the implementation
    alone (more programs around the disagreeing ones x many more decision lists), confirm hits with the Coq judge"""
    r = ctx.rng
    total = 3000 if ctx.quick else 12000
    dist = diffs[0][0]['dist']
    variants, seen = [], set()
    for c, p, o in diffs[:10]:
        for v in neighbours(r, c):
            k = (c['n'], repr(v))
            if k not in seen:
                seen.add(k); variants.append((c['n'], v))
    variants = variants[:60]
    cases = probe_family(dist, True)
    per = max(8, total // max(1, len(variants)))
    for n, v in variants:
        b = BUDGET[n]
        for _ in range(per):
            sched = block_sched(r, len(v), b + 12) if r.random() < 0.7 else gen_sched(r, b + 12)
            cases.append({'dist': dist, 'n': n, 'budget': b, 'progs': v, 'sched': sched})
    outs = ls_common.run_cases(exe, [line_of(c) for c in cases], jobs=12)
    hits, kinds = [], {}
    for c, o in zip(cases, outs):
        p = parse_out(o)
        if p is None:
            continue
        why = impl_fails(c, p)
        if why:
            kinds[why.split(' (')[0][:40]] = kinds.get(why.split(' (')[0][:40], 0) + 1
            hits.append((len(p['steps']) + 10 * sum(len(x) for x in c['progs']), why, c, p, o))
    ctx.cov['evaluations'] += len(cases)
    ctx.cov['search_ladder'] = {'disagreeing_cases': len(diffs), 'program_variants': len(variants), 'runs': len(cases), 'hits': len(hits), 'hit_kinds': kinds}
    ctx.phase('ladder_run')
    if not hits:
        return
    hits.sort(key=lambda h: h[0])
    best, got = [], set()
    for h in hits:                      # the smallest witness of every kind
        if h[1] not in got or len(best) < 3:
            got.add(h[1]); best.append(h)
        if len(best) >= 5:
            break
    verdicts = ls_common.judge_parallel(ctx, imports, judge, [term_of(h[2], h[3]) for h in best], shard_size=100)
    for i, (_, why, c, p, o) in enumerate(best):
        if verdicts is None or verdicts[i] == 2:
            ctx.violation('%s [found by the search ladder after a model/implementation disagreement]: %s -> %s' % (why, line_of(c)[:260], o[-300:]),
                          {'case': line_of(c), 'output': o, 'why': why, 'coq_judge_verdict': None if verdicts is None else verdicts[i],
                           'cmd': 'echo "<case>" | build/harness/h_rwlock-*   (VERIF_REPO honoured by dv.build_harness)'})
    ctx.phase('ladder_judge')


def correspond(ctx, cases, judge, imports, label):
    """run the cases on the real code, judge them in Coq, file verdicts.  Returns (kept, verdicts)"""
    exe = dv.build_harness('h_rwlock', ['h_rwlock.cpp'], need_lib=False)
    ctx.phase('build')
    outs = ls_common.run_cases(exe, [line_of(c) for c in cases])
    terms, kept, distinct = [], [], set()
    for c, o in zip(cases, outs):
        p = parse_out(o)
        if p is None:
            ctx.broken.append('lockstep harness output unreadable for %s: %s' % (line_of(c)[:200], (o or '')[:200]))
            continue
        terms.append(term_of(c, p))
        kept.append((c, p, o))
        if len(p['steps']) > 2 * len(c['progs']) + 2:
            distinct.add(o.split('| status')[0])
    ctx.cov['evaluations'] += len(cases)
    ctx.cov['distinct_nontrivial'] += len(distinct)
    ctx.cov['quiescent_word_checks'] = sum(1 for c, p, _ in kept if p['status'] == 0 and all(wf_py(pr, c['n']) for pr in c['progs']))
    ctx.phase('run')
    verdicts = ls_common.judge_parallel(ctx, imports, judge, terms, shard_size=100)
    if verdicts is None:
        ctx.broken.append('correspondence L(%s): the model no longer evaluates' % label)
        return kept, None
    hist, diffs = {}, []
    for v, (c, p, o) in zip(verdicts, kept):
        hist[v] = hist.get(v, 0) + 1
        if v == 2:
            what = impl_fails(c, p) or 'property fails'
            ctx.violation('%s: %s -> %s' % (what, line_of(c)[:220], o[-260:]),
                          {'case': line_of(c), 'output': o, 'cmd': 'echo "<case>" | build/harness/h_rwlock-*'})
        elif v == 1:
            diffs.append((c, p, o))
            if len(diffs) <= 6:
                ctx.broken.append('correspondence L(%s): real trace differs from the model on %s -> %s' % (label, line_of(c)[:200], o[:300]))
        elif v == 3:
            ctx.broken.append('generator produced a non-distributed script: ' + line_of(c)[:120])
    ctx.cov['verdict_histogram'] = {'agree': hist.get(0, 0), 'differ_property_holds': hist.get(1, 0), 'property_fails': hist.get(2, 0)}
    ctx.cov['traces_validated_against_impl'] += hist.get(0, 0)
    ctx.cov['status_histogram'] = {k: sum(1 for _, p, _ in kept if p['status'] == v) for k, v in (('done', 0), ('deadlock', 1), ('budget', 2))}
    ctx.phase('correspond')
    if diffs and not any(True for _ in ctx.violations):
        ladder(ctx, exe, diffs, judge, imports, label)
    return kept, verdicts
