"""Shared by C22 (RWLock) and C23 (DistributedRWLock): script generation, harness I/O, Coq terms (model: coq/Model/RWLockModel.v)."""
import re
import dv, ls_common

SITES = ['start', 'rw.setWriteBit.fetch_or', 'ce.wait.load', 'futex.wait', 'futex.woken', 'futex.wake', 'rw.lock_upgrade.fetch_sub',
         'rw.try_lock.fetch_or', 'rw.try_lock.load', 'rw.try_lock.fetch_and', 'rw.tryWriteBit.fetch_or', 'rw.unlock.fetch_and',
         'rw.lock_shared.fetch_add', 'rw.lock_shared.load', 'rw.try_lock_shared.fetch_add', 'rw.readerRelease.fetch_sub',
         'rw.lock_downgrade.fetch_add', 'cs.enterW', 'cs.enterR', 'cs.exitW', 'cs.exitR']
TAGS = {'try_lock': 1, 'try_lock_shared': 2}

# ops: ('L',) ('U',) ('T',n) single-slot try_lock | ('X',n) distributed try_lock | ('S',i) ('Y',i,n) ('V',i) ('G',) ('D',)


def op_coq(o):
    k = o[0]
    if k == 'L': return 'OLock'
    if k == 'U': return 'OUnlock'
    if k == 'T': return '(OTryLock %d%%nat)' % o[1]
    if k == 'X': return '(ODTryLock %d%%nat)' % o[1]
    if k == 'S': return '(OLockShared %d%%nat)' % o[1]
    if k == 'Y': return '(OTryLockShared %d%%nat %d%%nat)' % (o[1], o[2])
    if k == 'V': return '(OUnlockShared %d%%nat)' % o[1]
    return {'G': 'OUpgrade', 'D': 'ODowngrade'}[k]


def op_txt(o):
    k = o[0]
    if k in 'LUGD': return k
    if k in 'TX': return 'T%d' % o[1]          # the harness mode decides which try_lock it is
    if k in 'SV': return '%s%d' % (k, o[1])
    return 'Y%d:%d' % (o[1], o[2])


def gen_section(r, dist, nslots, depth=0, up=0.25):
    """ops from idle back to idle (one critical section, possibly with upgrade/downgrade inside)"""
    idx = r.randrange(0, max(1, nslots) * 2) if dist else 0
    x = r.random()

    def body(mode):
        ops = []
        for _ in range(3):
            if mode == 'W':
                if not dist and r.random() < up:
                    ops.append(('D',)); mode = 'R'
                else:
                    ops.append(('U',)); return ops
            else:
                if not dist and r.random() < up:
                    ops.append(('G',)); mode = 'W'
                else:
                    ops.append(('V', idx)); return ops
        ops.append(('U',) if mode == 'W' else ('V', idx))
        return ops
    if x < 0.28:
        return [('L',)] + body('W')
    if x < 0.5:
        b = body('W')
        return [('X' if dist else 'T', len(b))] + b
    if x < 0.8:
        return [('S', idx)] + body('R')
    b = body('R')
    return [('Y', idx, len(b))] + b


def gen_prog(r, dist, nslots, malformed):
    if malformed:
        pool = [('L',), ('U',), ('X' if dist else 'T', r.randint(0, 2)), ('S', 0), ('V', 0), ('Y', 0, r.randint(0, 2))]
        if dist:
            pool += [('S', 1), ('V', 1)]
        else:
            pool += [('G',), ('D',)]
        return [r.choice(pool) for _ in range(r.randint(1, 4))]
    p = []
    for _ in range(r.choice([1, 1, 2, 2, 3])):
        p += gen_section(r, dist, nslots)
        if len(p) >= 6:
            break
    return p


def gen_sched(r, n):
    """decision list mixing uniformly random choices with sticky stretches (the same residue repeated)"""
    out = []
    style = r.random()
    while len(out) < n:
        if style < 0.4 or r.random() < 0.3:
            out += [r.randrange(0, 100) for _ in range(r.randint(1, 8))]
        else:
            out += [r.randrange(0, 12)] * r.randint(2, 14)
    return out[:n]


BUDGET = {1: 90, 2: 120, 4: 150, 16: 330}


def gen_case(r, dist, malformed=False, nslots=None):
    if nslots is None:
        nslots = r.choice([1, 2, 2, 4, 4, 16]) if dist else 1
    nt = r.choice([2, 2, 3, 3, 4])
    if nslots == 16:
        nt = r.choice([2, 2, 3])
    progs = [gen_prog(r, dist, nslots, malformed) for _ in range(nt)]
    if nslots == 16:
        progs = [p[:4] for p in progs]
        # keep every try body intact: regenerate when truncation cut a section
        progs = [p if wf_py(p, nslots) else [('S', 3), ('V', 3)] for p in progs] if not malformed else progs
    budget = BUDGET[nslots]
    return {'dist': dist, 'n': nslots, 'budget': budget, 'progs': progs, 'sched': gen_sched(r, budget + 12)}


def wf_py(p, n, strict=True):
    """python twin of RWLockModel.wfb (used only to shape the generated population)"""
    def go(m, p):
        if not p:
            return (not strict) or m == 'I'
        o, rest = p[0], p[1:]
        k = o[0]
        if m == 'I':
            if k == 'L': return go('W', rest)
            if k == 'T': return n == 1 and go('W', rest) and go('I', rest[o[1]:])
            if k == 'X': return go('W', rest) and go('I', rest[o[1]:])
            if k == 'S': return go(('R', o[1] % n), rest)
            if k == 'Y': return go(('R', o[1] % n), rest) and go('I', rest[o[2]:])
            return False
        if m == 'W':
            if k == 'U': return go('I', rest)
            if k == 'D': return n == 1 and go(('R', 0), rest)
            return False
        if k == 'V': return o[1] % n == m[1] and go('I', rest)
        if k == 'G': return n == 1 and m[1] == 0 and go('W', rest)
        return False
    return go('I', p)


def line_of(c):
    mode = ('d%d' % c['n']) if c['dist'] else 'rw'
    return '%s %d ; %s ; S %s' % (mode, c['budget'], ' ; '.join(' '.join(op_txt(o) for o in p) for p in c['progs']),
                                  ' '.join(map(str, c['sched'])))


def parse_extra(extra):
    m = re.match(r'words((?: -?\d+)+) conflicts (-?\d+) spins (\d+)', extra)
    if not m:
        return None
    return [int(x) for x in m.group(1).split()], int(m.group(2)), int(m.group(3))


def term_of(c, p):
    nthr = len(c['progs'])
    words, conflicts, spins = parse_extra(p['extra'])
    res = dv.coq_list([ls_common.zpairs(p['results'].get(t, [])) for t in range(nthr)])
    return '(RC %d%%nat %d%%nat %d%%nat %s %s %s %s %s %d %s)' % (
        c['n'], spins, c['budget'] + 1,      # one more than the budget: a run that finishes exactly at the budget is 'done'
        dv.coq_list([dv.coq_list([op_coq(o) for o in pr]) for pr in c['progs']]),
        dv.coq_list([str(x) for x in c['sched'][:len(p['steps'])]]),      # the run consumed exactly one decision per step
        dv.coq_list([str(t * 32 + site) for t, site in p['steps']]), res, dv.coq_list([dv.zlit(w) for w in words]), p['status'], dv.zlit(conflicts))


def correspond(ctx, cases, judge, imports, label):
    """run the cases on the real code, judge them in Coq, file verdicts.  Returns (kept, verdicts)"""
    exe = dv.build_harness('h_rwlock', ['h_rwlock.cpp'], need_lib=False)
    ctx.phase('build')
    outs = ls_common.run_cases(exe, [line_of(c) for c in cases])
    terms, kept, distinct = [], [], set()
    for c, o in zip(cases, outs):
        p = ls_common.parse_vsched(o, SITES, TAGS)
        if p is None or 'error' in p or parse_extra(p['extra']) is None:
            ctx.broken.append('lockstep harness output unreadable for %s: %s' % (line_of(c)[:200], (o or '')[:200]))
            continue
        terms.append(term_of(c, p))
        kept.append((c, p, o))
        if len(p['steps']) > 2 * len(c['progs']) + 2:
            distinct.add(o.split('| status')[0])
    ctx.cov['evaluations'] += len(cases)
    ctx.cov['distinct_nontrivial'] += len(distinct)
    ctx.phase('run')
    verdicts = ls_common.judge_parallel(ctx, imports, judge, terms, shard_size=100)
    if verdicts is None:
        ctx.broken.append('correspondence L(%s): the model no longer evaluates' % label)
        return kept, None
    hist = {}
    for v, (c, p, o) in zip(verdicts, kept):
        hist[v] = hist.get(v, 0) + 1
        if v == 2:
            words, conflicts, _ = parse_extra(p['extra'])
            what = ('conflicting occupancy observed inside a critical section' if conflicts else
                    'deadlock of a balanced script (lost wake-up)' if p['status'] == 1 else
                    'lock word not restored after a balanced script' if p['status'] == 0 else 'property fails')
            ctx.violation('%s: %s -> %s' % (what, line_of(c)[:220], o[-260:]),
                          {'case': line_of(c), 'output': o, 'cmd': 'echo "<case>" | build/harness/h_rwlock-*'})
        elif v == 1:
            ctx.broken.append('correspondence L(%s): real trace differs from the model on %s -> %s' % (label, line_of(c)[:200], o[:300]))
        elif v == 3:
            ctx.broken.append('generator produced a non-distributed script: ' + line_of(c)[:120])
    ctx.cov['verdict_histogram'] = {'agree': hist.get(0, 0), 'differ_property_holds': hist.get(1, 0), 'property_fails': hist.get(2, 0)}
    ctx.cov['traces_validated_against_impl'] += hist.get(0, 0)
    ctx.cov['status_histogram'] = {k: sum(1 for _, p, _ in kept if p['status'] == v) for k, v in (('done', 0), ('deadlock', 1), ('budget', 2))}
    ctx.phase('correspond')
    return kept, verdicts
