"""C38 -- SmallVector behaves like std::vector with aligned storage.   Tie: D (differential, model evaluated inside Coq)."""
import dv, pf_common

META = {
    'category': 'proof',
    'technique': 'Coq theorems over an executable Gallina model of every public SmallVector operation (block-structured memory with a '
                 'lifetime ledger, allocator oracle) for all operation sequences / inline capacities / allocator behaviours + differential '
                 'run of the real SmallVector<LT<A>,N> (A in 8..64, N in 1..8, lifetime-tracked elements, replaced ::operator new) against '
                 'the model and the std::vector specification, both evaluated by vm_compute',
    'text': 'Kernel-checked: for every inline capacity N >= 1, every allocator oracle and every history of constructor / copy / move / '
            'assign / push / pop / resize / reserve / clear / erase operations on any number of vectors that respects std::vector\'s '
            'preconditions, the model never commits a lifetime error (double construction, destructor on dead storage, read of a dead '
            'object, double / missing operator delete, storage released with a live object), its contents and sizes equal the list '
            'specification, constructor calls minus destructor calls equals the number of elements, and after destroying the vectors nothing '
            'is alive and every block is freed exactly once; inline elements are aligned; heap elements are aligned when alignof(T) divides '
            'what the allocation function used guarantees (::operator new: 16; detail::alignedMalloc(bytes, alignof(T)) for alignof(T) > 16: '
            'alignof(T)).  Two defects found by this check were repaired in /repo (fix: commits): under-aligned heap storage for alignof(T) > 16 '
            'and push_back(v[i]) / resize(n, v[i]) reading the argument after growing destroyed it; the former refutation witnesses are now '
            'regression Examples in Coq and regression cases replayed first on every run.',
    'note': 'Trusted: Coq kernel; harness/h_smallvec.cpp + harness/life_sv.h (registry-based lifetime tracking, replaced operator new/delete); '
            'hand-written model tied by the differential run only (no translator).  No axioms (Print Assumptions: closed).',
}

ASSUMPTIONS = [
    'memory is block-structured: distinct allocations and distinct vector objects never overlap (allocator / language contract), an element is (block, index); '
    'addresses are only used for alignment; ::operator new returns 16-aligned blocks (__STDCPP_DEFAULT_NEW_ALIGNMENT__), detail::alignedMalloc(bytes, a) '
    'returns a-aligned blocks for a power of two a (its arithmetic is property C44), nothing more',
    'T\'s operations and ::operator new do not throw; counts stay below 2^64/sizeof(T) (newCap*sizeof(T) does not wrap: outside, growToHeap under-allocates '
    'silently where std::vector throws length_error -- observed: reserve(2^61+1) on SmallVector<int64_t,2> allocates 8 bytes and reports capacity 2^61+1)',
    'the vector object itself is placed at an address aligned to alignof(SmallVector) (checked by the harness: objmod = 0)',
    'history validity = std::vector preconditions: pop_back on non-empty, erase(begin()+i) with i < size, v[i] with i < size, no use of destroyed vector objects',
]

ALS = [8, 16, 32, 64]
NS = [1, 2, 4, 8]


# ------------------------------------------------------------------------------------------------ case generation
class Sim:
    """python-side shadow of sizes / capacities, only used to aim the cases (the judging is done in Coq)"""

    def __init__(self, N, K):
        self.N, self.K = N, K
        self.s = [None] * K

    def ensure(self, v, n):
        if n <= self.N and not v['heap']:
            return
        if not v['heap']:
            v['heap'], v['cap'] = True, n
        elif n > v['cap']:
            v['cap'] = n

    def push(self, v, x):
        if not v['heap']:
            if len(v['l']) >= self.N:
                v['heap'], v['cap'] = True, 2 * self.N
        elif len(v['l']) == v['cap']:
            v['cap'] *= 2
        v['l'].append(x)

    def cap(self, v):
        return v['cap'] if v['heap'] else self.N

    def fresh(self):
        return {'l': [], 'heap': False, 'cap': 0}

    def live(self):
        return [k for k in range(self.K) if self.s[k] is not None]

    def free(self):
        return [k for k in range(self.K) if self.s[k] is None]


def gen_ops(r, N, K, nops):
    """returns (tokens, reached_heap, nmoves)"""
    sim = Sim(N, K)
    toks = []
    val = [0]
    heap_seen = [False]

    def nv():
        val[0] += 1
        return val[0]

    def count():
        return r.choice([0, 1, N - 1, N, N + 1, 2 * N, 2 * N + 1, 4 * N, 4 * N + 1, r.randint(0, 3 * N + 2)])

    while len(toks) < nops:
        live, free = sim.live(), sim.free()
        choices = []
        if free:
            choices += ['C'] * 3 + ['Cn', 'Cv', 'Ci']
            if live:
                choices += ['Cc', 'Cm'] * 2
        if live:
            choices += ['P'] * 10 + ['o'] * 3 + ['r', 'R', 'v', 'x', 'E', 'E', 's', 's', 'S', 'D'] + ['Ac', 'Am'] * (2 if len(live) > 1 else 1)
        o = r.choice(choices)
        if o in ('C', 'Cn', 'Cv', 'Ci', 'Cc', 'Cm'):
            k = r.choice(free)
            v = sim.fresh()
            if o == 'C':
                toks.append('C,%d' % k)
            elif o == 'Cn':
                n = count()
                sim.ensure(v, n) if n > 0 else None
                v['l'] = [0] * n
                toks.append('Cn,%d,%d' % (k, n))
            elif o == 'Cv':
                n, x = count(), nv()
                sim.ensure(v, n) if n > 0 else None
                v['l'] = [x] * n
                toks.append('Cv,%d,%d,%d' % (k, n, x))
            elif o == 'Ci':
                m = r.choice([0, 1, 2, 3, 4, 5, 6, min(6, N), min(6, N + 1)])
                xs = [nv() for _ in range(m)]
                sim.ensure(v, m)
                v['l'] = xs
                toks.append('Ci,%d,%d%s' % (k, m, ''.join(',%d' % x for x in xs)))
            else:
                j = r.choice(live)
                src = sim.s[j]
                if o == 'Cc':
                    sim.ensure(v, len(src['l']))
                    v['l'] = list(src['l'])
                else:
                    if src['heap']:
                        v = {'l': src['l'], 'heap': True, 'cap': src['cap']}
                    else:
                        v['l'] = src['l']
                    sim.s[j] = sim.fresh()
                toks.append('%s,%d,%d' % (o, k, j))
            sim.s[k] = v
        elif o in ('Ac', 'Am'):
            k, j = r.choice(live), r.choice(live)
            if k != j:
                src = sim.s[j]
                v = sim.fresh()
                if o == 'Ac':
                    sim.ensure(v, len(src['l']))
                    v['l'] = list(src['l'])
                else:
                    if src['heap']:
                        v = {'l': src['l'], 'heap': True, 'cap': src['cap']}
                    else:
                        v['l'] = src['l']
                    sim.s[j] = sim.fresh()
                sim.s[k] = v
            toks.append('%s,%d,%d' % (o, k, j))
        else:
            k = r.choice(live)
            v = sim.s[k]
            if o == 'P':
                # runs of pushes cross the inline -> heap and the doubling boundaries
                for _ in range(r.choice([1, 1, 1, 2, 3, N, N + 1])):
                    x = nv()
                    sim.push(v, x)
                    toks.append('P,%d,%d,%d' % (r.choice([0, 0, 1, 2]), k, x))
            elif o == 'o':
                if not v['l']:
                    continue
                v['l'].pop()
                toks.append('o,%d' % k)
            elif o in ('r', 'R'):
                n = count()
                x = nv() if o == 'R' else 0
                if n > len(v['l']):
                    sim.ensure(v, n)
                    v['l'] = v['l'] + [x] * (n - len(v['l']))
                else:
                    v['l'] = v['l'][:n]
                toks.append('r,%d,%d' % (k, n) if o == 'r' else 'R,%d,%d,%d' % (k, n, x))
            elif o == 'v':
                n = count()
                sim.ensure(v, n)
                toks.append('v,%d,%d' % (k, n))
            elif o == 'x':
                sim.s[k] = sim.fresh()
                toks.append('x,%d' % k)
            elif o == 'E':
                if not v['l']:
                    continue
                i = r.choice([0, len(v['l']) - 1, r.randrange(len(v['l']))])
                del v['l'][i]
                toks.append('E,%d,%d' % (k, i))
            elif o == 's':
                if not v['l']:
                    continue
                if len(v['l']) < sim.cap(v) and r.random() < 0.5:     # aim at size == capacity: the argument aliases an element while growing
                    while len(v['l']) < sim.cap(v):
                        x = nv()
                        sim.push(v, x)
                        toks.append('P,0,%d,%d' % (k, x))
                i = r.randrange(len(v['l']))
                sim.push(v, v['l'][i])
                toks.append('s,%d,%d' % (k, i))
            elif o == 'S':
                if not v['l']:
                    continue
                i = r.randrange(len(v['l']))
                n = r.choice([count(), sim.cap(v) + 1, 2 * sim.cap(v) + 1, len(v['l'])])
                x = v['l'][i]
                if n > len(v['l']):
                    sim.ensure(v, n)
                    v['l'] = v['l'] + [x] * (n - len(v['l']))
                else:
                    v['l'] = v['l'][:n]
                toks.append('S,%d,%d,%d' % (k, n, i))
            elif o == 'D':
                sim.s[k] = None
                toks.append('D,%d' % k)
        heap_seen[0] = heap_seen[0] or any(v is not None and v['heap'] for v in sim.s)
    return toks, heap_seen[0]


def selfref_case(r, N, grow_from_heap):
    """deterministic shape: fill to capacity, then push_back(v[i])"""
    toks = ['C,0']
    n = N if not grow_from_heap else 2 * N
    for x in range(1, n + 1):
        toks.append('P,0,0,%d' % (100 + x))
    toks.append('s,0,%d' % r.randrange(n))
    return toks


def gen_cases(ctx):
    r = ctx.rng
    cases = []
    # regression cases first: the witnesses of the two repaired defects (fix: commits in /repo)
    cases.append({'A': 64, 'N': 2, 'off': 16, 'K': 1, 'toks': ['C,0', 'P,0,0,5', 'P,0,0,6', 'P,0,0,7'], 'tag': 'regress-align'})
    cases.append({'A': 32, 'N': 1, 'off': -1, 'K': 1, 'toks': ['C,0', 'P,0,0,5', 'P,0,0,6'], 'tag': 'regress-align-native'})
    cases.append({'A': 8, 'N': 2, 'off': -1, 'K': 1, 'toks': ['C,0', 'P,0,0,11', 'P,0,0,22', 's,0,0'], 'tag': 'regress-selfref'})
    cases.append({'A': 8, 'N': 2, 'off': -1, 'K': 1, 'toks': ['C,0', 'P,0,0,5', 'P,0,0,6', 'S,0,5,0'], 'tag': 'regress-selfref-resize'})
    n_rand = 220 if ctx.quick else 8000
    n_self = 16 if ctx.quick else 200
    for i in range(n_self):
        A, N = r.choice(ALS), r.choice(NS)
        toks = selfref_case(r, N, i % 2 == 0)
        if i % 4 >= 2:
            toks[-1] = 'S,0,%d,%s' % (r.choice([2 * N + 1, 4 * N + 1, 9 * N]), toks[-1].split(',')[2])
        cases.append({'A': A, 'N': N, 'off': r.choice([-1, 0, 16, 48]), 'K': 2, 'toks': toks, 'tag': 'selfref'})
    for i in range(n_rand):
        A, N = ALS[i % 4], NS[(i // 4) % 4]
        K = r.choice([1, 2, 3, 3])
        toks, heap = gen_ops(r, N, K, r.randint(4, 28))
        off = r.choice([-1, -1, 0, 16, 32, 48])
        cases.append({'A': A, 'N': N, 'off': off, 'K': K, 'toks': toks, 'tag': 'rand', 'heap': heap})
    return cases


def case_line(c):
    return '%d %d %d %d %s' % (c['A'], c['N'], c['off'], c['K'], ' '.join(c['toks']))


# ------------------------------------------------------------------------------------------------ output -> Gallina
def ints(s):
    return [int(x) for x in s.split()]


def parse_out(line):
    """-> dict or None"""
    if line is None or not line.startswith('sv '):
        return None
    recs = [x.strip() for x in line.split('|')]
    head = ints(recs[0][3:])
    steps, full, fin, blocks = [], None, None, []
    early = False
    for rec in recs[1:]:
        if rec == 'X':
            early = True
        elif rec.startswith('F'):
            full = [ints(x) for x in rec[1:].split(';')]
        elif rec.startswith('Z'):
            fin = compact(ints(rec[1:]))
            fin_raw = ints(rec[1:])
        elif rec.startswith('B'):
            blocks = [tuple(int(y) for y in x.split(':')) for x in rec[1:].split()]
        else:
            parts = rec.split(';')
            steps.append((compact(ints(parts[0])), [ints(x) for x in parts[1:]]))
    if full is None or fin is None:
        return None
    return {'objmod': head[0], 'inloff': head[1], 'szT': head[2], 'steps': steps, 'full': full, 'fin': fin, 'fin_raw': fin_raw, 'blocks': blocks, 'early': early}


def zp(n):
    # `(Zpos 5)` elaborates several times faster than the Z numeral `5` (number notation); the files are large
    return 'Z0' if n == 0 else ('(Zpos %d)' % n if n > 0 else '(Zneg %d)' % -n)


def zl(xs):
    return dv.coq_list([zp(x) for x in xs])


def compact(h):
    # harness header (12 counters [+ live objects, live blocks]) -> [flags; misaligned; nctor; ndtor; nalloc; nfree] [+ ...]
    return [sum(h[i] for i in (0, 1, 2, 3, 4, 6, 7)), h[5]] + h[8:]


def coq_op(tok):
    f = tok.split(',')
    n, a = f[0], [int(x) for x in f[1:]]
    if n == 'C':
        return '(OCtor %d)' % a[0]
    if n == 'Cn':
        return '(OCtorN %d %d)' % (a[0], a[1])
    if n == 'Cv':
        return '(OCtorNV %d %d %s)' % (a[0], a[1], zp(a[2]))
    if n == 'Ci':
        return '(OCtorIL %d %s)' % (a[0], zl(a[2:2 + a[1]]))
    two = {'Cc': 'OCtorCopy', 'Cm': 'OCtorMove', 'Ac': 'OAssignCopy', 'Am': 'OAssignMove'}
    if n in two:
        return '(%s %d %d)' % (two[n], a[0], a[1])
    if n == 'D':
        return '(ODtor %d)' % a[0]
    if n == 'P':
        return '(OPush %d %d %s)' % (a[0], a[1], zp(a[2]))
    if n == 'o':
        return '(OPop %d)' % a[0]
    if n == 'r':
        return '(OResize %d %d)' % (a[0], a[1])
    if n == 'R':
        return '(OResizeV %d %d %s)' % (a[0], a[1], zp(a[2]))
    if n == 'v':
        return '(OReserve %d %d)' % (a[0], a[1])
    if n == 'x':
        return '(OClear %d)' % a[0]
    if n == 'E':
        return '(OErase %d %d)' % (a[0], a[1])
    if n == 's':
        return '(OPushSelf %d %d)' % (a[0], a[1])
    if n == 'S':
        return '(OResizeSelf %d %d %d)' % (a[0], a[1], a[2])
    raise ValueError(tok)


def pl(xs):
    # transport encoding: positives p = z + 3 (see Model/C38Check.v judgeP)
    # every legitimate value is in [-2, 2^40]; anything else is garbage the implementation read from dead storage
    # (possible only in the self-reference finding) and is transmitted as 2^40+1, which matches no specified value
    return dv.coq_list(['%d' % ((x if -2 <= x <= (1 << 40) else (1 << 40) + 1) + 3) for x in xs])


def coq_case(c, p):
    steps = dv.coq_list(['(%s, %s)' % (pl(h), dv.coq_list([pl(s) for s in sl])) for h, sl in p['steps']])
    return '(%s, %d%%nat, %d%%nat, %s, (%s, %s, %s), (%s, %s), %s, %s, %s)' % (
        zp(c['A']), c['N'], c['K'], dv.coq_list([coq_op(t) for t in c['toks']]), zp(p['objmod']), zp(p['inloff']), zp(p['szT']),
        pl([b[1] for b in p['blocks']]), pl([b[0] for b in p['blocks']]), steps, dv.coq_list([pl(s) for s in p['full']]), pl(p['fin']))


def coq_judge(ctx, name, terms, timeout=600):
    """like pf_common.coq_judge, but the bare numerals of the case terms are positives (transport encoding)"""
    body = ('From Coq Require Import ZArith List Bool.\nImport ListNotations.\n' + IMPORTS +
            '\nLocal Open Scope Z_scope.\nLocal Open Scope positive_scope.\n' +
            'Definition cases_0 := %s.\nEval vm_compute in (map judgeP cases_0).\n' % dv.coq_list(terms))
    rc, out = dv.coq_eval(ctx.work, name, body, timeout)
    if rc != 0:
        ctx.cov.setdefault('coq_eval_errors', []).append(out[-1500:])
        return None
    return [dv.parse_zlist(dv.eval_results(out)[0])]


IMPORTS = 'From DV Require Import Base.MachInt Base.Corr Model.SmallVecLife Model.SmallVecModel Model.C38Check.'


def run(ctx):
    ctx.prove(models=['Model/C38Check.v', 'Base/Corr.v'])
    exe = dv.build_harness('h_smallvec', ['h_smallvec.cpp'], need_lib=False, extra_flags=('-O0', '-g0'))  # 16 instantiations: -O1 -g takes 30 s to compile
    cases = gen_cases(ctx)
    outs = pf_common.run_harness(exe, [case_line(c) for c in cases])
    ctx.phase('harness')
    kept, terms = [], []
    for c, o in zip(cases, outs):
        p = parse_out(o)
        if p is None:
            ctx.violation('harness failed (crash / no output) on: %s -> %s' % (case_line(c), str(o)[:200]),
                          {'case': case_line(c), 'output': o, 'cmd': 'echo "%s" | %s' % (case_line(c), exe)})
            continue
        kept.append((c, p))
        terms.append(coq_case(c, p))
    ctx.cov['evaluations'] += len(cases)
    hist = {}
    nsteps = 0
    shards = [s for s in pf_common.shard(list(range(len(kept))), max(1, (len(kept) + 89) // 90)) if s]
    # the shards are independent coqc processes: run them side by side (elaborating the literals dominates)
    from concurrent.futures import ThreadPoolExecutor
    with ThreadPoolExecutor(max_workers=8) as ex:
        results = list(ex.map(lambda a: coq_judge(ctx, 'cases%d' % a[0], [terms[i] for i in a[1]]), enumerate(shards)))
    for idxs, res in zip(shards, results):
        if res is None:
            ctx.broken.append('correspondence D(C38): the model / judge no longer evaluates (see coq_eval_errors)')
            # fall back: the parts of the executable property that need no model, straight from the harness flags
            for i in idxs:
                c, p = kept[i]
                f = p['fin_raw']
                if any(f[x] for x in (0, 1, 2, 3, 4, 6, 7)) or f[8] != f[9] or f[10] != f[11] or f[12] or f[13]:
                    ctx.violation('lifetime / std::vector-equivalence flags raised by the real SmallVector: %s -> %s' % (case_line(c), f),
                                  {'case': case_line(c), 'cmd': 'echo "%s" | %s' % (case_line(c), exe)})
                    break
            continue
        for i, v in zip(idxs, res[0]):
            c, p = kept[i]
            hist[v] = hist.get(v, 0) + 1
            nsteps += len(p['steps'])
            line = case_line(c)
            rep = {'case': line, 'cmd': 'echo "%s" | %s' % (line, exe), 'impl_output_final': p['fin'], 'impl_blocks(bytes,addr mod 64)': p['blocks']}
            if v == 0:
                continue
            if v == 1:
                ctx.broken.append('correspondence D(C38): implementation differs from the model (property still holds there) on: ' + line)
            elif v == 9:
                ctx.broken.append('check C38: generated an invalid case: ' + line)
            else:
                bad_al = [s for s in p['full'] + [x for _, sl in p['steps'] for x in sl] if len(s) > 5 and s[3] > 0 and s[5] != 0]
                what = ('elements misaligned: data() %% alignof(T) = %d (heap bit %d)' % (bad_al[0][5], bad_al[0][2])) if bad_al else \
                    'contents/size differ from std::vector, or a lifetime error (flags / constructor-destructor balance / blocks)'
                ctx.violation('SmallVector<T,%d> (alignof(T)=%d) violates C38: %s: %s' % (c['N'], c['A'], what, line), rep)
    ctx.phase('judge')
    names = {0: 'agree_and_property_holds', 1: 'differs_but_property_holds', 2: 'property_fails', 9: 'invalid_case'}
    ctx.cov['verdict_histogram'] = {names.get(k, str(k)): v for k, v in sorted(hist.items())}
    ctx.cov['traces_validated_against_impl'] += hist.get(0, 0)
    ctx.cov['operations_compared'] = nsteps
    distinct = set(case_line(c) for c, p in kept if any(b for b in p['blocks']))
    ctx.cov['distinct_nontrivial'] += len(distinct)
    ctx.cov['rule'] = ('random histories (4..28 ops, runs of pushes across the inline->heap and doubling boundaries, counts at N-1/N/N+1/2N/2N+1/4N+1, push_back(v[i]) and resize(n, v[i]) at size == capacity) over 1..3 '
                       'vector objects x alignof(T) in {8,16,32,64} x N in {1,2,4,8} x allocator placement {native malloc, == 0/16/32/48 mod 64}; every step compares '
                       'counters, size, capacity, heap bit, data() mod alignof(T), contents.  Non-trivial = at least one heap allocation happened; distinct = distinct case lines')
    by_an = {}
    for c, p in kept:
        by_an['A%d/N%d' % (c['A'], c['N'])] = by_an.get('A%d/N%d' % (c['A'], c['N']), 0) + 1
    ctx.cov['cases_per_type'] = by_an
    for c, p in kept[:3] + kept[len(kept) // 2:len(kept) // 2 + 2]:
        ctx.sample({'case': case_line(c), 'impl_final': p['fin'], 'blocks': p['blocks']})
