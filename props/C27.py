"""C27 -- Pipeline delivers every item through every stage exactly once.   Tie: lockstep (L) under harness/vsched.h at gate granularity."""
import dv, ls_common, pipe_common as pc

META = {
    'category': 'proof',
    'technique': 'Coq flow-conservation and phase invariants over all interleavings of a gate-level model of dispenso::pipeline (any number of stages, items, threads; try_dequeue may miss; inline or queued dispatch) + lockstep replay of generated schedules on the real pipeline() under a cooperative scheduler + native histories',
    'text': 'Kernel-checked for every reachable state: per item and stage, entered = inside + thrown + finished + waiting for / entered / lost at the next stage (C27_flow_invariant), hence no '
            'stage is entered twice for an item, stage j+1 only after stage j returned, every entry carries the predecessor chain\'s value; for pipelines whose stages do not throw: '
            'when pipeline() has returned it returned normally, every item was generated once and entered and left once every stage it is not filtered out before, and no item was '
            'left in a gate queue -- the orphan of the callback/enqueue race is recovered by wait() (C27_pipeline_returns_after_all, C27_orphan_recovered; proved through the '
            '"closed gates" phase argument: outstanding_k is incremented inside an item of stage k-1 before that item\'s own decrement).  The model is tied to the code by lockstep '
            'runs of generated pipelines under generated schedules on the real pipeline() (hooks before every gate operation), comparing trace, event log and outcome with the '
            'model evaluated in Coq; the executable property is also judged on the implementation\'s own log, lockstep and native (real pools of 0-4 threads).',
    'note': 'Safety ("returns only after"): that pipeline() returns at all is not claimed (C27_termination_statement is left unproved; with throwing stages it can block for ever, see C29). Trusted: Coq kernel; harness/vsched.h; SC interleaving of the gate operations; pool / ConcurrentTaskSet abstracted to a bag + inline decision + cancelled check. No axioms.',
}

ASSUMPTIONS = [
    'sequentially consistent interleaving of the hooked gate operations; code between two hooks runs atomically in the lockstep runs (the theorems allow a switch after every frame transition)',
    'thread pool / ConcurrentTaskSet abstracted: a dispatched task is popped at most once (bag), schedule() either runs it inline or queues it, packageTask skips it when cancelled',
    'lockstep runs use a ThreadPool(0) whose numThreads_ / poolLoadFactor_ are overwritten so that tasks are queued; enrolled harness threads play the workers with pool.tryExecuteNext()',
    'termination of the drain loops of wait() (fairness) is not proved: the statements are of the form "when pipeline() has returned, then ..."',
    'C27_pipeline_returns_after_all is stated for pipelines whose stages and generator do not throw; the at-most-once / order / value theorems hold for all pipelines',
]


def run(ctx):
    ctx.prove(models=['Model/C27Check.v', 'Model/C28Check.v', 'Model/C29Check.v'])
    exe = pc.harness()
    ctx.phase('build')
    r = ctx.rng
    n = 100 if ctx.quick else 2500
    cases = [pc.gen_case(r, exceptions=False, small=(i % 10 != 0) or ctx.quick) for i in range(n)]
    kept, terms = pc.run_lockstep(ctx, exe, cases)
    nn = 12 if ctx.quick else 150
    ncases = [pc.gen_native(r, exceptions=False) for _ in range(nn)]
    nkept, nterms = pc.run_native(ctx, exe, ncases, 2)
    ctx.cov['evaluations'] += len(cases) + len(nkept)
    distinct = set(o.split('| fin')[0] for c, p, o in kept if len(p['steps']) > 20)
    ctx.cov['distinct_nontrivial'] += len(distinct) + len(set(o for _, _, o in nkept))
    ctx.cov['rule'] = ('random non-throwing pipelines (1-4 later stages, limits 1/2/3/unlimited/0,4,7 or plain functors, filters dropping items by tag, 0-6 items (lockstep) / 0-30 '
                       '(native), 1-3 workers, inline thresholds) x random schedules under vsched, one fork per case; non-trivial = more than 20 steps; distinct = distinct (trace, log) '
                       'strings; native = real pools of 0-4 threads, 2 repetitions')
    verdicts = ls_common.judge_parallel(ctx, pc.IMPORTS, 'judge_c27', terms, shard_size=25)
    nverd = ls_common.judge_parallel(ctx, pc.IMPORTS, 'judge_c27n', nterms, shard_size=25)
    if verdicts is not None and nverd is not None:
        verdicts = verdicts + nverd
    else:
        verdicts = None
    if verdicts is None:
        ctx.broken.append('correspondence L(C27): the model no longer evaluates')
        return
    hist = {}
    allk = kept + nkept
    for i, (v, (c, p, o)) in enumerate(zip(verdicts, allk)):
        native = i >= len(kept)
        hist[v] = hist.get(v, 0) + 1
        line = pc.native_line(c, 1) if native else pc.line_of(c)
        if v == 2:
            ctx.violation('an item skipped / repeated a stage, got a wrong input, or pipeline() returned early: %s -> %s' % (line[:200], o[:400]),
                          {'case': line, 'output': o, 'cmd': 'echo "<case>" | build/harness/h_pipeline-*'})
        elif v == 3:
            ctx.violation('pipeline() still running after %d steps on a schedule on which the model has returned (stall): %s -> %s' % (c['budget'], line, o[-300:]),
                          {'case': line, 'output': o, 'cmd': 'echo "<case>" | build/harness/h_pipeline-*'})
        elif v == 1:
            ctx.broken.append('correspondence L(C27): real trace differs from the model on ' + line + ' -> ' + o[:300])
    ctx.cov['verdict_histogram'] = {'agree': hist.get(0, 0), 'differ_property_holds': hist.get(1, 0), 'property_fails': hist.get(2, 0), 'stalls_where_model_returns': hist.get(3, 0)}
    ctx.cov['traces_validated_against_impl'] += hist.get(0, 0)
    ctx.cov['status_histogram'] = {k: sum(1 for _, p, _ in kept if p['status'] == v) for k, v in (('done', 0), ('deadlock', 1), ('budget', 2))}
    ctx.cov['site_histogram'] = pc.site_hist(kept)
    # examined, not alarmed on (DESIGN 6.E): a single-stage pipeline on a zero-thread pool schedules min(0, limit) = 0 runners
    outs = ls_common.run_cases(exe, ['O 1 ; P 0 32 0 0 0 ; G 2 5 -1', 'O 1 ; P 2 32 0 0 0 ; G 2 5 -1', 'O 1 ; P 0 32 0 0 1 ; G 1 5 -1'], jobs=1)
    ctx.cov['single_stage_pipeline'] = {'pool0_limit2': outs[0], 'pool2_limit2': outs[1], 'pool0_plain_functor': outs[2],
                                        'note': 'on a 0-thread pool the stage function is never called (calls=0) and pipeline() returns; no item exists, so C27 is not violated'}
    if kept:
        ctx.sample({'case': pc.line_of(kept[0][0])[:160], 'impl': kept[0][2][:300]})
    if nkept:
        ctx.sample({'case': pc.native_line(nkept[0][0], 1)[:160], 'impl': nkept[0][2][:300]})
    ctx.phase('correspond')
