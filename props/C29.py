"""C29 -- Pipeline exceptions terminate cleanly without leaks.   Tie: lockstep (L) under harness/vsched.h at gate granularity."""
import dv, ls_common, pipe_common as pc

META = {
    'category': 'proof',
    'technique': 'Coq invariants, one machine-checked counter-example and two regression examples of repaired defects over a gate-level interleaving model of dispenso::pipeline with throwing stages + lockstep replay of generated schedules (and of the counter-examples) on the real pipeline() with lifetime-tracked payloads + native histories',
    'text': 'The property was FALSE of the code in three ways.  Two are repaired in /repo and their Coq witnesses are now regression Examples replayed on the real code on every '
            'check: the hang (0db1b9f: a queued generator instance skipped by the cancelled packageTask wrapper never counted the completion latch down; the CompletionGuard is now '
            'owned by the task by value; C29_hang_regression, C29_completion_latch_owned: latch = instances that have not passed their guard, in every reachable state) and the escape '
            '(eb2d079: a generator instance run inline inside execute() let its exception leave pipeline() while other instances referenced the pipes; the functor now records it in '
            'the task set; C29_escape_regression, C29_generator_catches).  One remains a known finding: C29_refuted (a limited-stage task already handed to the task set is skipped by '
            'the cancelled wrapper; the OnceFunction it wraps is never invoked nor cleaned up: the item payload leaks).  Proved for all schedules: pipeline() rethrows exactly when an '
            'exception was captured and rethrows the first (then only) captured one (C29_first_exception_rethrown), no item twice (C29_no_item_twice), a generator instance that sees '
            'the exception produces nothing more (C29_generator_stops), the pool is empty when pipeline() returns (C29_pool_usable_after), slot accounting stays consistent '
            '(C28_slot_invariant), and without throwing stages nothing is ever skipped or stranded (C29_holds_except).',
    'note': 'Trusted: Coq kernel; harness/vsched.h and harness/life.h; SC interleaving of the gate operations; pool / ConcurrentTaskSet abstracted to a bag + inline decision + cancelled check; the two stores of trySetCurrentException are separate steps, its guard states kSetting/kSet are merged. No axioms.',
}

ASSUMPTIONS = [
    'sequentially consistent interleaving of the hooked gate operations; code between two hooks runs atomically in the lockstep runs (the theorems allow a switch after every frame transition)',
    'thread pool / ConcurrentTaskSet abstracted: a dispatched task is popped at most once (bag), schedule() either runs it inline or queues it, packageTask skips it when cancelled',
    'the model would stop where an exception leaves execute(); since /repo eb2d079 the generator functor catches (C29_generator_catches), that no thread ever reaches that state is shown on the former witness and by the lockstep runs, not proved in general',
    'that a captured exception was thrown by some stage is checked on the implementation\'s log only (not proved in Coq); termination is refuted, not proved',
    'native exception runs use one generator instance (a native hang would only end with the harness alarm)',
]


def run(ctx):
    ctx.prove(models=['Model/C27Check.v', 'Model/C28Check.v', 'Model/C29Check.v'])
    exe = pc.harness()
    ctx.phase('build')
    r = ctx.rng
    # 1. the witness of the remaining known finding (leak) and the former witnesses of the repaired ones (hang 0db1b9f, escape eb2d079),
    #    replayed on the real code first; the repaired ones must now agree with the model and satisfy the property
    wk, wt = pc.run_lockstep(ctx, exe, [pc.WIT_LEAK, pc.WIT_HANG, pc.WIT_ESCAPE])
    # 2. generated cases with exceptions
    n = 100 if ctx.quick else 2500
    cases = [pc.gen_case(r, exceptions=True, small=(i % 10 != 0) or ctx.quick) for i in range(n)]
    kept, terms = pc.run_lockstep(ctx, exe, cases)
    nn = 12 if ctx.quick else 120
    ncases = [pc.gen_native(r, exceptions=True) for _ in range(nn)]
    nkept, nterms = pc.run_native(ctx, exe, ncases, 2)
    ctx.cov['evaluations'] += len(cases) + len(wk) + len(nkept)
    distinct = set(o.split('| fin')[0] for c, p, o in kept if len(p['steps']) > 20)
    ctx.cov['distinct_nontrivial'] += len(distinct) + len(set(o for _, _, o in nkept))
    ctx.cov['rule'] = ('random pipelines with at least one throw position (stage x item first/middle/last/random, or the generator), 1-4 later stages, limits 1/2/3/unlimited/0,4,7, '
                       '0-6 items (lockstep) / 0-30 (native), 1-3 workers, inline thresholds x random schedules under vsched, payloads lifetime-tracked; non-trivial = more than 20 steps; '
                       'distinct = distinct (trace, log) strings; plus the three finding witnesses; native = real pools of 0-4 threads, one generator instance, 2 repetitions')
    verdicts = ls_common.judge_parallel(ctx, pc.IMPORTS, 'judge_c29', wt + terms, shard_size=25)
    nverd = ls_common.judge_parallel(ctx, pc.IMPORTS, 'judge_c29n', nterms, shard_size=25)
    if verdicts is not None and nverd is not None:
        verdicts = verdicts + nverd
    else:
        verdicts = None
    if verdicts is None:
        ctx.broken.append('correspondence L(C29): the model no longer evaluates')
        return
    hist = {}
    allk = wk + kept + nkept
    nl = len(wk) + len(kept)
    for i, (v, (c, p, o)) in enumerate(zip(verdicts, allk)):
        native = i >= nl
        hist[v] = hist.get(v, 0) + 1
        line = pc.native_line(c, 1) if native else pc.line_of(c)
        if v == 4:
            ctx.violation('payload never destroyed after pipeline() rethrew (live=%d): %s' % (p['live'], o[:300]), {'finding_key': pc.KEY_LEAK, 'case': line})
        elif v == 2:
            ctx.violation('exception handling of pipeline() violates C29 outside the known domains: %s -> %s' % (line[:200], o[:400]),
                          {'case': line, 'output': o, 'cmd': 'echo "<case>" | build/harness/h_pipeline-*'})
        elif v == 1:
            ctx.broken.append('correspondence L(C29): real trace differs from the model on ' + line + ' -> ' + o[:300])
    ctx.cov['verdict_histogram'] = {'agree': hist.get(0, 0), 'differ_property_holds': hist.get(1, 0), 'fails_outside_known_domains': hist.get(2, 0),
                                    'leak_known_domain': hist.get(4, 0)}
    ctx.cov['witness_verdicts'] = dict(zip(['leak', 'former_hang', 'former_escape'], verdicts[:len(wk)]))
    ctx.cov['traces_validated_against_impl'] += hist.get(0, 0) + hist.get(4, 0)
    ctx.cov['status_histogram'] = {k: sum(1 for _, p, _ in kept if p['status'] == v) for k, v in (('done', 0), ('deadlock', 1), ('budget', 2))}
    ctx.cov['site_histogram'] = pc.site_hist(kept)
    ctx.cov['native_live_histogram'] = {}
    for _, p, _ in nkept:
        k = str(p['live'])
        ctx.cov['native_live_histogram'][k] = ctx.cov['native_live_histogram'].get(k, 0) + 1
    if not ctx.quick:
        # LeakSanitizer / AddressSanitizer build of the harness on the native leak shape (reported, the verdict stays with the ledger)
        try:
            exa = dv.build_harness('h_pipeline_asan', ['h_pipeline.cpp'], extra_flags=['-fsanitize=address'], lib_flags=['-fsanitize=address'])
            rc, out = dv.sh([exa], inp='N 3 ; P 2 64 0 0 0 ; G 1 20 -1 ; T p 1 D  X 5 ; T s 1 D  X \n', timeout=300)
            ctx.cov['asan'] = {'rc': rc, 'leak_reported': 'LeakSanitizer' in out, 'tail': out[-400:]}
        except Exception as e:
            ctx.cov['asan'] = {'error': str(e)[:300]}
    if wk:
        ctx.sample({'case': pc.line_of(wk[0][0])[:160], 'impl': wk[0][2][-260:]})
    if len(wk) > 1:
        ctx.sample({'case': pc.line_of(wk[1][0])[:160], 'impl': wk[1][2][-260:]})
    if kept:
        ctx.sample({'case': pc.line_of(kept[0][0])[:160], 'impl': kept[0][2][:300]})
    ctx.phase('correspond')
