"""C29 -- Pipeline exceptions terminate cleanly without leaks.   Tie: lockstep (L) under harness/vsched.h at gate granularity."""
import dv, ls_common, pipe_common as pc

META = {
    'category': 'proof',
    'technique': 'Coq invariants and three machine-checked counter-examples over a gate-level interleaving model of dispenso::pipeline with throwing stages + lockstep replay of generated schedules (and of the counter-examples) on the real pipeline() with lifetime-tracked payloads + native histories',
    'text': 'The property is FALSE of the code as written, in three ways, each a Coq theorem with a concrete run that is replayed on the real code on every check: C29_refuted (a task '
            'already handed to the task set is skipped by the cancelled packageTask wrapper; the OnceFunction it wraps is never invoked nor cleaned up: the item payload leaks), '
            'C29_hang_refuted (a queued generator instance is skipped the same way, its CompletionGuard never counts the latch down, pipeline() blocks for ever; every state reachable '
            'from the witness state is that state), C29_escape_reachable (with a tight poolLoadFactor_ a generator instance runs inline inside execute(), its exception leaves '
            'pipeline() while other instances still reference the pipes: use after free).  Proved for all schedules: pipeline() rethrows exactly when an exception was captured and '
            'rethrows the first (then only) captured one (C29_first_exception_rethrown), no item twice (C29_no_item_twice), a generator instance that sees the exception produces '
            'nothing more (C29_generator_stops), the pool is empty when pipeline() returns (C29_pool_usable_after), slot accounting stays consistent (C28_slot_invariant), and without '
            'throwing stages nothing is ever skipped or stranded (C29_holds_except).',
    'note': 'Trusted: Coq kernel; harness/vsched.h and harness/life.h; SC interleaving of the gate operations; pool / ConcurrentTaskSet abstracted to a bag + inline decision + cancelled check; the two stores of trySetCurrentException are separate steps, its guard states kSetting/kSet are merged. No axioms.',
}

ASSUMPTIONS = [
    'sequentially consistent interleaving of the hooked gate operations; code between two hooks runs atomically in the lockstep runs (the theorems allow a switch after every frame transition)',
    'thread pool / ConcurrentTaskSet abstracted: a dispatched task is popped at most once (bag), schedule() either runs it inline or queues it, packageTask skips it when cancelled',
    'the model stops where an exception leaves execute() (undefined behaviour in the real code); lockstep cases are generated outside that domain (poolLoadFactor_ >= generator instances - 1) except for the witness',
    'that a captured exception was thrown by some stage is checked on the implementation\'s log only (not proved in Coq); termination is refuted, not proved',
    'native exception runs use one generator instance (outside the domain of the hang finding), because a native hang only ends with the harness alarm',
]


def run(ctx):
    ctx.prove(models=['Model/C27Check.v', 'Model/C28Check.v', 'Model/C29Check.v'])
    exe = pc.harness()
    ctx.phase('build')
    r = ctx.rng
    # 1. deterministic witnesses of the known findings, replayed on the real code
    wk, wt = pc.run_lockstep(ctx, exe, [pc.WIT_LEAK, pc.WIT_HANG])
    out_esc = ls_common.run_cases(exe, [pc.line_of(pc.WIT_ESCAPE)], jobs=1)[0]
    pe = pc.parse_out(out_esc)
    esc_repro = (pe is None) or ('error' in pe) or pe['status'] != 0
    ctx.cov['witness_escape'] = {'case': pc.line_of(pc.WIT_ESCAPE)[:120], 'impl': (out_esc or '')[:200], 'reproduced': esc_repro}
    if esc_repro:
        ctx.violation('exception leaves pipeline() through execute() while generator tasks are queued (crash / undefined behaviour): ' + (out_esc or '')[:200],
                      {'finding_key': pc.KEY_ESCAPE, 'case': pc.line_of(pc.WIT_ESCAPE)})
    # 2. generated cases with exceptions
    n = 100 if ctx.quick else 2500
    cases = [pc.gen_case(r, exceptions=True, small=(i % 10 != 0) or ctx.quick) for i in range(n)]
    kept, terms = pc.run_lockstep(ctx, exe, cases)
    nn = 12 if ctx.quick else 120
    ncases = [pc.gen_native(r, exceptions=True) for _ in range(nn)]
    nkept, nterms = pc.run_native(ctx, exe, ncases, 2)
    ctx.cov['evaluations'] += len(cases) + len(wk) + 1 + len(nkept)
    distinct = set(o.split('| fin')[0] for c, p, o in kept if len(p['steps']) > 20)
    ctx.cov['distinct_nontrivial'] += len(distinct) + len(set(o for _, _, o in nkept))
    ctx.cov['rule'] = ('random pipelines with at least one throw position (stage x item first/middle/last/random, or the generator), 1-4 later stages, limits 1/2/3/unlimited/0,4,7, '
                       '0-6 items (lockstep) / 0-30 (native), 1-3 workers, inline thresholds x random schedules under vsched, payloads lifetime-tracked; non-trivial = more than 20 steps; '
                       'distinct = distinct (trace, log) strings; plus the three finding witnesses; native = real pools of 0-4 threads, one generator instance, 2 repetitions')
    verdicts = ls_common.judge_parallel(ctx, pc.IMPORTS, 'judge_c29', wt + terms, shard_size=25)
    nverd = ls_common.judge_parallel(ctx, pc.IMPORTS, 'judge_c29n', nterms, shard_size=25)
    if verdicts is not None and nverd is not None:
        verdicts = verdicts + nverd
    else:
        verdicts = None
    if verdicts is None:
        ctx.broken.append('correspondence L(C29): the model no longer evaluates')
        return
    hist = {}
    allk = wk + kept + nkept
    nl = len(wk) + len(kept)
    for i, (v, (c, p, o)) in enumerate(zip(verdicts, allk)):
        native = i >= nl
        hist[v] = hist.get(v, 0) + 1
        line = pc.native_line(c, 1) if native else pc.line_of(c)
        if v == 4:
            ctx.violation('payload never destroyed after pipeline() rethrew (live=%d): %s' % (p['live'], o[:300]), {'finding_key': pc.KEY_LEAK, 'case': line})
        elif v == 5:
            ctx.violation('pipeline() never returns: caller asleep in the completion latch, pool idle: ' + o[-200:], {'finding_key': pc.KEY_HANG, 'case': line})
        elif v == 2:
            ctx.violation('exception handling of pipeline() violates C29 outside the known domains: %s -> %s' % (line[:200], o[:400]),
                          {'case': line, 'output': o, 'cmd': 'echo "<case>" | build/harness/h_pipeline-*'})
        elif v == 1:
            ctx.broken.append('correspondence L(C29): real trace differs from the model on ' + line[:200] + ' -> ' + o[:200])
    ctx.cov['verdict_histogram'] = {'agree': hist.get(0, 0), 'differ_property_holds': hist.get(1, 0), 'fails_outside_known_domains': hist.get(2, 0),
                                    'leak_known_domain': hist.get(4, 0), 'hang_known_domain': hist.get(5, 0)}
    ctx.cov['witness_verdicts'] = {'leak': verdicts[0] if len(verdicts) > 0 else None, 'hang': verdicts[1] if len(verdicts) > 1 else None}
    ctx.cov['traces_validated_against_impl'] += hist.get(0, 0) + hist.get(4, 0) + hist.get(5, 0)
    ctx.cov['status_histogram'] = {k: sum(1 for _, p, _ in kept if p['status'] == v) for k, v in (('done', 0), ('deadlock', 1), ('budget', 2))}
    ctx.cov['site_histogram'] = pc.site_hist(kept)
    ctx.cov['native_live_histogram'] = {}
    for _, p, _ in nkept:
        k = str(p['live'])
        ctx.cov['native_live_histogram'][k] = ctx.cov['native_live_histogram'].get(k, 0) + 1
    if not ctx.quick:
        # LeakSanitizer / AddressSanitizer build of the harness on the native leak shape (reported, the verdict stays with the ledger)
        try:
            exa = dv.build_harness('h_pipeline_asan', ['h_pipeline.cpp'], extra_flags=['-fsanitize=address'], lib_flags=['-fsanitize=address'])
            rc, out = dv.sh([exa], inp='N 3 ; P 2 64 0 0 0 ; G 1 20 -1 ; T p 1 D  X 5 ; T s 1 D  X \n', timeout=300)
            ctx.cov['asan'] = {'rc': rc, 'leak_reported': 'LeakSanitizer' in out, 'tail': out[-400:]}
        except Exception as e:
            ctx.cov['asan'] = {'error': str(e)[:300]}
    if wk:
        ctx.sample({'case': pc.line_of(wk[0][0])[:160], 'impl': wk[0][2][-260:]})
    if len(wk) > 1:
        ctx.sample({'case': pc.line_of(wk[1][0])[:160], 'impl': wk[1][2][-260:]})
    if kept:
        ctx.sample({'case': pc.line_of(kept[0][0])[:160], 'impl': kept[0][2][:300]})
    ctx.phase('correspond')
