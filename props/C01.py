"""C01 -- every task handed to a ThreadPool runs exactly once, by ~ThreadPool at the latest.   Tie: event-level lockstep (E)."""
import dv, pool_common as pc

META = {
    'category': 'proof',
    'technique': 'Coq invariants over all accepted event sequences of an event-level model of dispenso::ThreadPool (ledger conservation, ring-overflow '
                 'fallback, destructor drains everything, zero-thread pool runs inline) + event-level lockstep: the real pool runs under a cooperative '
                 'scheduler with its own worker threads enrolled, its event trace is folded through the model\'s `accept` inside Coq',
    'text': 'Kernel-checked for any number of producers / workers / tasks, pool sizes incl. 0, interleaved resizes and any ring capacities: every generated '
            'task id is in exactly one place of the ledger (a tier, pending at its submitter, held, executing) or has completed exactly once; a failed ring push '
            'is followed by the central enqueue of the same id; when the destructor returns under its documented contract, outside the known finding\'s domain late_gen, every tier is empty and every id is '
            'done exactly once (C01_refuted: without that exclusion the statement is false); forceEnqueue on a zero-thread pool runs inline.  The model is tied to the code by hooks at every event (counter add/sub, '
            'enqueue, ring push, pops, drain steps, resize/destructor phases) and by acceptance of the traces of generated programs under generated schedules; '
            'the executable property (per-task invocation counters == 1 after ~ThreadPool) is evaluated on the implementation\'s own output.',
    'note': 'Trusted: Coq kernel; moodycamel::ConcurrentQueue (per-producer FIFO multiset) and MpmcRingBuffer atomicity at event granularity (C34); '
            'harness/vsched_pool.h; worker sleep/wake abstract (C07/C09). No axioms.',
}
ASSUMPTIONS = [
    'event granularity: between two hooks of a thread the ring buffers, moodycamel::ConcurrentQueue and the wake state run atomically (MPMC ring linearizability is C34, moodycamel trusted)',
    'sleeping/waking of workers is abstract (C07/C09); timed futex waits time out only when nothing else can run (the pool\'s backstop / poll period)',
    'task bodies do not throw; wake-mode (epoch waiter) pool only; the numStealRings_ check and the steal-ring push of scheduleImplPlaced are one event (add-only hooks cannot split the && expression)',
    'dtor_drains_all assumes the documented contract of ~ThreadPool as trace predicates (quiet: no submission in progress and no other thread inside the pool when it starts; contract_event: afterwards only the destructor thread and the pool workers act) and excludes exactly the Gallina predicate late_gen (a task generated after the destructor\'s last central-queue drain) -- the same predicate judge_pool uses to classify a never-invoked task as the known finding dtor-drain-task-reschedules; the model additionally requires that resizeLocked / ~ThreadPool steps are not taken by a thread in the middle of one of its own submissions (pend = [])',
]


def describe(c, p, v):
    bad = [i for i, n in enumerate(p['counts']) if n != 1]
    return ('task(s) %s invoked %s times (must be exactly once by the end of ~ThreadPool): %s' % (bad[:6], [p['counts'][i] for i in bad[:6]], pc.line_of(c)[:200]), pc.KEY_C01_LATE)


def run(ctx):
    ctx.prove(models=['Model/PoolCheck.v', 'Model/C01Check.v'])
    rows = pc.run_pool(ctx, 'C01')
    pc.report(ctx, 'C01', rows, describe)
