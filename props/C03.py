"""C03 -- pool resize never loses, duplicates or strands work.   Tie: event-level lockstep (E)."""
import dv, pool_common as pc

META = {
    'category': 'proof',
    'technique': 'Coq invariants over all accepted event sequences of the event-level ThreadPool model (conservation under every resize event; coverage: '
                 'every queued task sits in a tier that will still be polled or drained) + refutation witnesses by vm_compute + event-level lockstep of the real '
                 'pool with forced witness schedules',
    'text': 'resize_conservation: every event of resizeLocked preserves the C01 ledger invariant.  no_strand is FALSE of the code as written (C03_refuted: a '
            'producer inside scheduleBulkToRings that loaded ringCount = 4 before a concurrent resize(2) completes pushes into rings 2,3 that nobody polls; '
            'C03_refuted_central: resize(0) racing a force-queued schedule whose numThreads_ read predates it); both witnesses are traces of the REAL code, '
            'forced deterministically and replayed on every run (known findings).  C03_holds_except: in every trace without a placement into a tier that is '
            'closed at the time of the placement (Gallina predicate stale_place, the same one the check uses to classify violations) nothing is ever stranded; '
            'a resize by itself never strands queued work.',
    'note': 'Trusted: Coq kernel; moodycamel and MpmcRingBuffer atomicity at event granularity; harness/vsched_pool.h. No axioms.',
}
ASSUMPTIONS = [
    'event granularity (see C01); the producer-side loads of numThreads_ (forceEnqueue, scheduleBulkImpl) and numRings_ (scheduleBulkToRings) are events of their own; '
    'the racy reads of TaskSetBase::scheduleBulkImpl (numThreads(), numRings_) happen in the same step as the following workRemaining_ add',
    '"polled" follows the property text: ring j < numRings_ (workers and task-set waiters), steal ring j < numStealRings_, central queue while numThreads_ > 0',
    'a task set whose wait() would spin forever (outstanding tasks in a ring beyond numRings_) is detected at the final quiescent point instead of being waited for',
]


def describe(c, p, v):
    kind = {1: 'ring', 2: 'central', 3: 'steal'}.get(v[8], 'ring')
    key = pc.KEY_C03_CENTRAL if (v[6] == 2 or (v[6] == 0 and v[8] == 2)) else pc.KEY_C03_RING
    snaps = [s for s in p['snaps'] if not s['final']]
    text = ('task stranded at a quiescent point (tier=%s stale_placement_kind=%d wait_would_hang=%d): snapshots %s :: %s' % (
        kind, v[6], p['hang'], [(s['nt'], s['nr'], s['ns'], s['central'], s['rings'], s['steals']) for s in snaps][-2:], pc.line_of(c)[:200]))
    if any(n != 1 for n in p['counts']):
        text = 'task invoked != once: counts %s :: %s' % (p['counts'][:20], pc.line_of(c)[:200])
        key = pc.KEY_C01_LATE
    return text, key


def run(ctx):
    ctx.prove(models=['Model/PoolCheck.v', 'Model/C03Check.v'])
    rows = pc.run_pool(ctx, 'C03')
    pc.report(ctx, 'C03', rows, describe)
    ctx.cov['stale_placement_kind_histogram'] = {str(k): sum(1 for _, _, _, v in rows if v[6] == k) for k in (0, 1, 2, 3)}
