"""C25 -- ResourcePool bounds and exclusivity.   Tie: D (operation sequences over handle slots, blocking acquire exercised with a second thread)."""
import dv, pf_common, re, concurrent.futures

META = {
    'category': 'proof',
    'technique': 'Coq theorems over an executable Gallina model of ResourcePool/Resource parameterised by a blocking-queue specification (Section '
                 'hypotheses, instantiated by a list-based reference queue) + differential run of the real pool: the observed history is replayed '
                 'through the model inside Coq (oracle = the resource the implementation handed out) and the property is evaluated on every snapshot',
    'text': 'Kernel-checked, for every queue meeting the specification (enqueue adds; dequeue returns some queued element, blocks iff empty), every pool size, '
            'every number of handles and every interleaving of acquire / release (~Resource) / move-construct / move-assign (incl. onto a live handle, and '
            'self-move): resources in live handles plus queue are exactly 0..size-1 each once (so at most size are held, no resource is in two handles or in a '
            'handle and the queue), acquire blocks iff all are held, and -- given the documented precondition that all handles were returned -- the pool '
            'destructor dequeues and destroys every resource exactly once (otherwise it blocks).  The model is tied to /repo by running the real '
            'ResourcePool on operation sequences with per-resource construction/destruction counters and comparing every handle snapshot with the model.  '
            'Several pools of one T: a multi-pool model in which handles carry pool_ (Model/ResPoolMultiModel.v) is proved to refine the single-pool model pool by '
            'pool (a cross-pool move assignment = ~Resource in the old pool + move construction in the new one), so the bounds hold for each pool whatever '
            'the other pools do; tied by two-pool operation sequences (every handle\'s resource_ and pool_, both queue sizes).',
    'note': 'Trusted: Coq kernel; harness/h_respool.cpp; the queue specification as a description of moodycamel::BlockingConcurrentQueue '
            '(linearizable enqueue / wait_dequeue). No axioms (Print Assumptions: closed).',
}

ASSUMPTIONS = [
    'moodycamel::BlockingConcurrentQueue is trusted to meet queue_spec: enqueue / wait_dequeue are linearizable, a dequeue returns some element that was '
    'enqueued and not yet dequeued, and wait_dequeue blocks exactly while the queue is empty',
    'every operation is one atomic action at the queue (Resource objects are not shared between threads), so interleavings of acquirers and releasers are '
    'sequences of operations; sequentially consistent',
    'pool destruction is judged under the documented precondition (all resources returned); the model shows it blocks otherwise',
    'blocking is observed natively with a second thread and a 30 ms window (one-sided): a too-early return would also show up as a duplicate holder in the snapshot',
]


def gen_case(r):
    size = r.choice([1, 1, 2, 2, 3, 4])
    nh = r.randint(2, 6)
    st = ['D'] * nh          # D dead, E empty (moved-from), R holds a resource
    toks = []
    nblocked = 0
    for _ in range(r.randint(3, 16)):
        held = sum(1 for x in st if x == 'R')
        dead = [i for i in range(nh) if st[i] == 'D']
        live = [i for i in range(nh) if st[i] != 'D']
        holders = [i for i in range(nh) if st[i] == 'R']
        choices = []
        if dead and held < size:
            choices += ['a'] * 5
        if dead and held == size and holders and nblocked < 1 and r.random() < 0.25:
            choices += ['b'] * 3
        if live:
            choices += ['r'] * 3 + ['m'] * 4
            if dead:
                choices += ['c'] * 3
        if not choices:
            break
        k = r.choice(choices)
        if k == 'a':
            h = r.choice(dead)
            toks += ['a', h]
            st[h] = 'R'
        elif k == 'b':
            h = r.choice(dead)
            x = r.choice(holders)
            toks += ['b', h, x]
            st[x] = 'D'
            st[h] = 'R'
            nblocked += 1
        elif k == 'r':
            h = r.choice(live)
            toks += ['r', h]
            st[h] = 'D'
        elif k == 'c':
            d, s = r.choice(dead), r.choice(live)
            toks += ['c', d, s]
            st[d] = st[s]
            st[s] = 'E'
        elif k == 'm':
            d, s = r.choice(live), r.choice(live)
            if r.random() < 0.6 and holders:
                d = r.choice(holders)            # move onto a LIVE handle that holds a resource
            toks += ['m', d, s]
            if d != s:
                st[d] = st[s]
                st[s] = 'E'
    return 'rp %d %d %s' % (size, nh, ' '.join(str(t) for t in toks))


def gen_case2(r):
    """two pools of one T: acquire from either pool, release, move-construct, move-assign -- biased to moves ACROSS pools (the handle changes its pool_)"""
    sizes = [r.choice([1, 2, 2, 3]), r.choice([1, 1, 2, 3])]
    nh = r.randint(2, 6)
    st = [None] * nh          # None dead, else [pool, holds?]
    free = list(sizes)
    toks = []
    for _ in range(r.randint(3, 14)):
        dead = [i for i in range(nh) if st[i] is None]
        live = [i for i in range(nh) if st[i] is not None]
        ch = []
        for p in (0, 1):
            if dead and free[p] > 0:
                ch += [('a', p)] * 3
        if live:
            ch += [('r', 0)]
        if live and dead:
            ch += [('c', 0)]
        if len(live) >= 2:
            ch += [('m', 0)] * 4
        if not ch:
            break
        k, p = r.choice(ch)
        if k == 'a':
            h = r.choice(dead)
            toks += ['a', p, h]; st[h] = [p, True]; free[p] -= 1
        elif k == 'r':
            h = r.choice(live)
            toks += ['r', h]
            if st[h][1]:
                free[st[h][0]] += 1
            st[h] = None
        elif k == 'c':
            d, s = r.choice(dead), r.choice(live)
            toks += ['c', d, s]; st[d] = list(st[s]); st[s][1] = False
        else:
            cross = [(d, s) for d in live for s in live if d != s and st[d][0] != st[s][0]]
            if cross and r.random() < 0.7:
                d, s = r.choice(cross)
            else:
                d, s = r.choice(live), r.choice(live)
            toks += ['m', d, s]
            if d != s:
                if st[d][1]:
                    free[st[d][0]] += 1
                st[d] = list(st[s]); st[s][1] = False
    return 'rq %d %d %d %s' % (sizes[0], sizes[1], nh, ' '.join(str(t) for t in toks))


def case_term2(case, out):
    t = case.split()
    sizes, nh = [int(t[1]), int(t[2])], int(t[3])
    toks = t[4:]
    ops = []
    i = 0
    while i < len(toks):
        k = toks[i]
        if k == 'a':
            ops.append('MJAcquire %s%%nat %s%%nat' % (toks[i + 1], toks[i + 2])); i += 3
        elif k == 'r':
            ops.append('MJRelease %s%%nat' % toks[i + 1]); i += 2
        elif k == 'c':
            ops.append('MJMoveCtor %s%%nat %s%%nat' % (toks[i + 1], toks[i + 2])); i += 3
        else:
            ops.append('MJMoveAssign %s%%nat %s%%nat' % (toks[i + 1], toks[i + 2])); i += 3
    out = out or ''
    segs = re.findall(r'\|([^|;]*);', out)
    hang = 'HANG' in out
    completed = bool(segs) and segs[-1].strip().startswith('E') and 'CRASH' not in out and not hang
    ctor, dtor = [], []
    if completed:
        m = re.match(r'\s*E([\d\s-]*)D([\d\s-]*)', segs[-1])
        ctor = [int(x) for x in m.group(1).split()]
        dtor = [int(x) for x in m.group(2).split()]
        segs = segs[:-1]
    zl = lambda l: dv.coq_list([dv.zlit(x) for x in l]) if l else '(@nil Z)'
    terms = []
    for o, seg in zip(ops, segs):
        m = re.match(r'([\d\s-]*)P([\d\s-]*)Q([\d\s-]*)', seg)
        if not m:
            break
        terms.append('(%s, %s, %s, %s)' % (o, zl([int(x) for x in m.group(1).split()]), zl([int(x) for x in m.group(2).split()]), zl([int(x) for x in m.group(3).split()])))
    return '([%d%%nat; %d%%nat], %d%%nat, %s, %s, %s, %s, %s)' % (sizes[0], sizes[1], nh, dv.coq_list(terms) if terms else '(@nil (mjop * list Z * list Z * list Z))',
                                                              zl(ctor), zl(dtor), 'true' if hang else 'false', 'true' if completed else 'false'), len(segs)


def case_term(case, out):
    if case.startswith('rq '):
        return case_term2(case, out)
    t = case.split()
    size, nh = int(t[1]), int(t[2])
    toks = t[3:]
    ops = []
    i = 0
    while i < len(toks):
        k = toks[i]
        if k == 'a':
            ops.append(('JAcquire %s%%nat' % toks[i + 1], False)); i += 2
        elif k == 'b':
            ops.append(('JBlocked %s%%nat %s%%nat' % (toks[i + 1], toks[i + 2]), True)); i += 3
        elif k == 'r':
            ops.append(('JRelease %s%%nat' % toks[i + 1], False)); i += 2
        elif k == 'c':
            ops.append(('JMoveCtor %s%%nat %s%%nat' % (toks[i + 1], toks[i + 2]), False)); i += 3
        elif k == 'm':
            ops.append(('JMoveAssign %s%%nat %s%%nat' % (toks[i + 1], toks[i + 2]), False)); i += 3
    out = out or ''
    segs = re.findall(r'\|([^|;]*);', out)
    hang = 'HANG' in out
    completed = bool(segs) and segs[-1].strip().startswith('E') and 'CRASH' not in out and not hang
    ctor, dtor = [], []
    if completed:
        m = re.match(r'\s*E([\d\s-]*)D([\d\s-]*)', segs[-1])
        ctor = [int(x) for x in m.group(1).split()]
        dtor = [int(x) for x in m.group(2).split()]
        segs = segs[:-1]
    terms = []
    for (o, isb), seg in zip(ops, segs):
        v = [int(x) for x in seg.split()]
        if isb:
            snap, q, b = v[:nh], v[nh], v[nh + 1]
            o = '%s %s' % (o, 'true' if b else 'false')
        else:
            snap, q = v[:nh], v[nh]
        terms.append('(%s, %s, %s)' % (o, dv.coq_list([dv.zlit(x) for x in snap]), dv.zlit(q)))
    zl = lambda l: dv.coq_list([dv.zlit(x) for x in l]) if l else '(@nil Z)'
    return '(%d%%nat, %d%%nat, %s, %s, %s, %s, %s)' % (size, nh, dv.coq_list(terms) if terms else '(@nil (jop * list Z * Z))', zl(ctor), zl(dtor),
                                                       'true' if hang else 'false', 'true' if completed else 'false'), len(segs)


def run(ctx):
    ctx.prove(models=['Model/C25Check.v', 'Base/Corr.v'])
    exe = dv.build_harness('h_respool', ['h_respool.cpp'], need_lib=False)
    ctx.phase('build')
    r = ctx.rng
    n = 160 if ctx.quick else 6000
    fixed = ['rp 2 3 a 0 a 1 c 2 0 m 1 2 r 1 r 0 r 2',       # move onto a live handle: its resource goes back to the pool
             'rp 1 3 a 0 b 1 0 m 1 1 c 2 1 r 2',              # blocking acquire, self-move, move-construct
             'rp 3 4 a 0 a 1 a 2 b 3 1 m 0 3 m 2 2',
             'rp 4 6 a 0 a 1 a 2 a 3 m 0 1 m 0 2 m 0 3 a 4 a 5 m 1 0 r 1']
    fixed2 = ['rq 2 1 3 a 0 0 a 1 1 m 0 1 r 0 r 1',             # move assignment ACROSS pools: the destination's resource returns to ITS pool, the slot changes pool
              'rq 1 1 4 a 0 0 a 1 1 c 2 1 m 0 1 m 0 2 a 0 3',      # from a moved-from handle of the other pool, then from a holder
              'rq 2 2 4 a 0 0 a 0 1 a 1 2 m 2 0 m 1 2 a 1 3 r 3']
    cases = fixed + [gen_case(r) for _ in range(n)]
    cases2 = fixed2 + [gen_case2(r) for _ in range(n // 2)]
    n1 = len(cases)
    cases = cases + cases2
    outs = pf_common.run_harness(exe, cases, timeout=900)
    ctx.phase('run')
    terms, ndone = [], []
    for c, o in zip(cases, outs):
        t, k = case_term(c, o)
        terms.append(t)
        ndone.append(k)
    imports = 'From DV Require Import Base.Corr Model.ResPoolModel Model.ResPoolMultiModel Model.C25Check.'
    jobs = [('cases%d' % k, 'judge_rp', sh) for k, sh in enumerate(pf_common.shard(terms[:n1], 3 if ctx.quick else 16))]
    jobs += [('mcases%d' % k, 'judge_rq', sh) for k, sh in enumerate(pf_common.shard(terms[n1:], 2 if ctx.quick else 8))]
    with concurrent.futures.ThreadPoolExecutor(max_workers=4) as ex:
        results = list(ex.map(lambda j: pf_common.coq_judge(ctx, j[0], imports, [(j[1], j[2])]), jobs))
    ctx.phase('judge')
    if any(x is None for x in results):
        ctx.broken.append('correspondence D(C25): the model no longer evaluates (see coq_eval_errors)')
        return
    verd = [v for x in results for v in x[0]]
    hist = {0: 0, 1: 0, 2: 0}
    distinct = set()
    nblocking = 0
    ncross = 0
    for c, o, vv in zip(cases, outs, verd):
        v, k = vv % 10, vv // 10
        hist[v] = hist.get(v, 0) + 1
        if ' m ' in c or ' c ' in c or ' b ' in c:
            distinct.add(c)
        if ' b ' in c:
            nblocking += 1
        cmd = 'echo "%s" | build/harness/h_respool-*' % c
        if c.startswith('rq ') and re.search(r' m \d+ \d+', c):
            ncross += 1
        if v == 2:
            ctx.violation('ResourcePool: operation #%d (0-based; = number of operations means teardown/hang) of "%s": a resource is held twice / more than size held / '
                          'queue+held != size / acquire blocked although a resource was free / construction-destruction counts are not 1: %s'
                          % (k, c, (o or '')[-300:]), {'case': c, 'output': o, 'cmd': cmd, 'failed_at_op': k})
        elif v == 1:
            ctx.broken.append('correspondence D(C25): implementation history differs from the model on "%s": %s' % (c, (o or '')[:300]))
    ctx.cov['evaluations'] += len(cases)
    ctx.cov['distinct_nontrivial'] += len(distinct)
    ctx.cov['rule'] = ('operation sequences (3..16 ops) over 2..6 handle slots and pools of 1..4 resources: acquire, release, move-construct, move-assign (biased '
                       'to targets that hold a resource; self-move), blocking acquire with a second thread when all are held; non-trivial = contains a move or a '
                       'blocking acquire; distinct = distinct case lines.  Plus TWO pools of one T side by side (kind rq): acquire from either, release, moves biased to '
                       'move assignments across pools (the handle changes pool_), per-pool queue sizes and every handle\'s pool_ compared with the multi-pool model')
    ctx.cov['verdict_histogram'] = {'agree_and_property_holds': hist[0], 'differs_but_property_holds': hist[1], 'property_fails': hist[2]}
    ctx.cov['cases_with_blocking_acquire'] = nblocking
    ctx.cov['two_pool_cases'] = len(cases) - n1
    ctx.cov['two_pool_cases_with_move_assignment'] = ncross
    ctx.cov['traces_validated_against_impl'] += hist[0]
    ctx.sample({'case': cases[0], 'impl': outs[0]})
    ctx.sample({'case': cases[1], 'impl': outs[1]})
    ctx.sample({'case': cases[len(fixed) + 2], 'impl': outs[len(fixed) + 2]})
    ctx.phase('correspond')
