"""C21 -- CompletionEvent and Latch waits never miss a wake-up.   Tie: lockstep (L) under harness/vsched.h."""
import dv, ls_common, pf_common

META = {
    'category': 'proof',
    'technique': 'Coq invariant over all interleavings of a step-level model (one step per atomic access / futex call) + lockstep replay of the same schedules on the real hooked code under a cooperative scheduler',
    'text': 'Kernel-checked invariant for any number of threads, any program over notify/wait/waitFor/count_down(n)/try_wait/arrive_and_wait/completed/reset and '
            'any schedule (futex = compare-and-block, wake-all): a waiter asleep while the word holds its target implies a committed wake-all; corollary: no quiescent '
            'state with a lost wake-up, including count_down(n) for any n (the defect Latch::count_down(n>1) found by this check was repaired in /repo by a fix: commit; its witness is '
            'replayed on every run as a regression case).  The model is tied to the code by running generated programs under generated schedules on the real classes '
            '(hooks at every atomic access, futex served by the harness) and comparing step trace, results, final word and status with the model evaluated in Coq.',
    'note': 'Trusted: Coq kernel; futex semantics (compare-and-block, wake wakes waiters of that address, no spurious wake modelled); harness/vsched.h; SC interleaving of atomics (weak-memory reorderings not modelled); Linux variant of CompletionEventImpl only. No axioms.',
}

ASSUMPTIONS = [
    'sequentially consistent interleaving of the atomic accesses; futex = compare-and-block / wake-all; spurious futex returns not modelled (they only cause a re-load)',
    'Linux implementation of CompletionEventImpl (the macOS / Windows / fallback variants are not modelled)',
]

SITES = ['start', 'ce.notify.store', 'futex.wake', 'ce.wait.load', 'futex.wait', 'futex.woken', 'futex.timeout',
         'latch.count_down.fetch_sub', 'latch.try_wait.load', 'latch.arrive.fetch_sub', 'ce.completed.load', 'ce.reset.store',
         'ce.waitFor.load0', 'ce.waitFor.load']
TAGS = {'wait': 1, 'waitFor': 2, 'try_wait': 3, 'completed': 4, 'wft': 5, 'wfw': 6}   # 5/6: target and word after a successful waitFor (judged, not part of the model's result log)
KEY = 'latch-count_down-n-gt-1'


def op_coq(o):
    k = o[0]
    if k == 'N': return '(ONotify %s)' % dv.zlit(o[1])
    if k == 'W': return '(OWait %s)' % dv.zlit(o[1])
    if k == 'F': return '(OWaitFor %s %s)' % (dv.zlit(o[1]), 'true' if o[2] else 'false')
    if k == 'C': return '(OCountDown %s)' % dv.zlit(o[1])
    return {'T': 'OTryWait', 'A': 'OArrive', 'P': 'OCompleted', 'R': 'OReset'}[k]


def op_txt(o):
    k = o[0]
    if k in 'NWC': return '%s%d' % (k, o[1])
    if k == 'F': return 'F%d:%d' % (o[1], 1 if o[2] else 0)
    return k


def gen_case(r, want_known=False):
    mode = r.choice(['la', 'la', 'ev'])
    nt = r.choice([2, 2, 3, 3, 4])
    tmo = 0
    progs = []
    if mode == 'ev':
        w0 = 0
        tmo = r.choice([0, 1])
        for t in range(nt):
            p = []
            for _ in range(r.randint(1, 3)):
                x = r.random()
                if x < 0.35: p.append(('W', 1))
                elif x < 0.55: p.append(('N', 1))
                elif x < 0.75: p.append(('F', 1, r.random() < 0.7))
                elif x < 0.95: p.append(('P',))
                else: p.append(('R',))
            progs.append(p)
        if not any(o[0] == 'N' for p in progs for o in p) and r.random() < 0.8:
            progs[r.randrange(nt)].append(('N', 1))
    else:
        w0 = r.choice([1, 2, 2, 3, 3, 4])
        for t in range(nt):
            p = []
            for _ in range(r.randint(1, 3)):
                x = r.random()
                if x < 0.3: p.append(('W', 0))
                elif x < 0.65: p.append(('C', 1))
                elif x < 0.8: p.append(('T',))
                else: p.append(('A',))
            progs.append(p)
        if want_known:
            progs[-1] = [('C', r.choice([2, 3, w0 if w0 > 1 else 2]))]
            progs[0] = [('W', 0)]
            w0 = progs[-1][0][1] if r.random() < 0.7 else w0
    budget = 60
    sched = [r.randrange(0, 100) for _ in range(budget + 12)]
    return {'mode': mode, 'w0': w0, 'tmo': tmo, 'budget': budget, 'progs': progs, 'sched': sched}


def line_of(c):
    return '%s %d %d %d ; %s ; S %s' % (c['mode'], c['w0'], c['tmo'], c['budget'], ' ; '.join(' '.join(op_txt(o) for o in p) for p in c['progs']),
                                        ' '.join(map(str, c['sched'])))


def term_of(c, p):
    nthr = len(c['progs'])
    import re
    m = re.search(r'word (-?\d+) cur(.*)', p['extra'])
    word = int(m.group(1))
    cur = [int(x.split(':')[1]) for x in m.group(2).split()]
    res = dv.coq_list([ls_common.zpairs([x for x in p['results'].get(t, []) if x[0] < 5]) for t in range(nthr)])
    wf = []
    for t in range(nthr):
        ex = [x for x in p['results'].get(t, []) if x[0] >= 5]
        wf += [(ex[i][1], ex[i + 1][1]) for i in range(0, len(ex) - 1, 2)]
    return '(EC %s %s %d%%nat %s %s %s %s %s %d %s %s %s)' % (
        dv.zlit(c['w0']), 'true' if c['tmo'] else 'false', ls_common.fuel_of(c['budget'], p['status']),   # vsched reports 'done' when the last step is exactly the budget-th

        dv.coq_list([dv.coq_list([op_coq(o) for o in pr]) for pr in c['progs']]),
        dv.coq_list([str(x) for x in c['sched']]),
        ls_common.zpairs(p['steps']), res, dv.zlit(word), p['status'],
        dv.coq_list([str(b) for b in p['blocked']]), dv.coq_list([str(x) for x in cur]), ls_common.zpairs(wf))


def run(ctx):
    ctx.prove(models=['Model/C21Check.v'])
    exe = dv.build_harness('h_event', ['h_event.cpp'], need_lib=False)
    ctx.phase('build')
    r = ctx.rng
    # 1. deterministic witness of the former defect (fixed in /repo), replayed on the real code as a regression case
    wit = {'mode': 'la', 'w0': 3, 'tmo': 0, 'budget': 10, 'progs': [[('W', 0)], [('C', 3)]], 'sched': [0, 0, 0, 1, 1] + [0] * 20}
    n = 600 if ctx.quick else 8000
    cases = [wit] + [gen_case(r, want_known=(i % 25 == 0)) for i in range(n)]
    outs = ls_common.run_cases(exe, [line_of(c) for c in cases])
    terms, kept = [], []
    distinct = set()
    for c, o in zip(cases, outs):
        p = ls_common.parse_vsched(o, SITES, TAGS)
        if p is None or 'error' in p:
            ctx.broken.append('lockstep harness output unreadable for %s: %s' % (line_of(c)[:200], (o or '')[:200]))
            continue
        terms.append(term_of(c, p))
        kept.append((c, p, o))
        if len(p['steps']) > len(c['progs']) + 2:
            distinct.add(o.split('| status')[0])
    ctx.cov['evaluations'] += len(cases)
    ctx.cov['distinct_nontrivial'] += len(distinct)
    ctx.cov['rule'] = ('random programs (2-4 threads, 1-3 ops each, CompletionEvent or Latch mode) x random schedules (decision list), one fork per case under vsched; '
                       'non-trivial = more steps than thread starts + 2; distinct = distinct (trace, results) strings')
    verdicts = ls_common.judge_parallel(ctx, 'From DV Require Import Base.Sched Model.EventModel Model.C21Check.', 'judge_event', terms)
    if verdicts is None:
        ctx.broken.append('correspondence L(C21): the model no longer evaluates')
        return
    hist = {}
    for v, (c, p, o) in zip(verdicts, kept):
        hist[v] = hist.get(v, 0) + 1
        if v == 2:
            ctx.violation('lost wake-up (a waiter sleeps while the word holds its target and nothing is runnable) or wait() returned before completion: %s -> %s' % (line_of(c)[:200], o[:300]),
                          {'case': line_of(c), 'output': o, 'cmd': 'echo "<case>" | build/harness/h_event-*'})
        elif v == 1:
            ctx.broken.append('correspondence L(C21): real trace differs from the model on ' + line_of(c)[:160] + ' -> ' + o[:200])
    ctx.cov['verdict_histogram'] = {'agree': hist.get(0, 0), 'differ_property_holds': hist.get(1, 0), 'lost_wakeup': hist.get(2, 0)}
    ctx.cov['traces_validated_against_impl'] += hist.get(0, 0)
    ctx.cov['status_histogram'] = {k: sum(1 for _, p, _ in kept if p['status'] == v) for k, v in (('done', 0), ('deadlock', 1), ('budget', 2))}
    ctx.sample({'case': line_of(cases[1])[:200], 'impl': outs[1][:300]})
    ctx.sample({'case': line_of(cases[0])[:80], 'impl': outs[0][:300]})
    ctx.phase('correspond')
