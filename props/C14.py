"""C14 -- parallel_for never uses one state object concurrently.   Tie: T (regenerated leaves under the Plan model) + D."""
import dv, pf_common, plan_common

META = {
    'category': 'proof',
    'technique': 'Coq theorems over an executable Plan model of parallel_for (who runs each body invocation, with which states element, and the '
                 'happens-before order between invocations) built on leaves regenerated from the C++ source + correspondence: the real parallel_for '
                 'template driven by an instrumented task set (exact observed plan vs. model plan, compared inside Coq) and by the real ThreadPool '
                 '(per-state in-use counters); deterministic overlap replay for the refutation witness',
    'text': 'C14_refuted: for static chunking with wait=false and a granularity tail the faithful model contains two unordered invocations on '
            'states[0] (scheduled chunk 0 and runTail() on the calling thread); reproduced on the real code by a latch-forced overlap. '
            'C14_holds_except: outside that domain (Gallina predicate c14_dom) any two invocations not ordered by seqb use different states '
            'elements, for all 8 index kinds, chunking modes, granularities, wait modes, pool sizes, ring indices of the caller and all claim '
            'schedules of the dynamic/adaptive workers.  C14_domain_exact: inside the domain the collision always exists.  '
            'C14_states_nonempty_in_bounds: the container is non-empty after a non-empty range and every index used is inside it (all configs).',
    'note': 'Trusted: Coq kernel; tools/translate.py + clang AST for the leaves; the hand-written plan glue of Model/PlanModel.v (scheduler index -> '
            'chunk index -> states index, runTail placement) is tied by the correspondence only; harness/h_loops.cpp, harness/h_parfor.cpp. '
            'Print Assumptions: closed.',
}

ASSUMPTIONS = [
    'seqb (happens-before between body invocations) assumes the task set contract: closures handed to scheduleBulk run exactly once, not before '
    'scheduleBulk and not after taskSet.wait() returns (C01/C02); a closure run inline inside scheduleBulk only adds order',
    'dynamic no-wait: "every claim precedes the exit action of the last worker" is the modification order of the shared atomic cursor; the '
    'single-group path uses memory_order_relaxed for it, so this is an ordering in time, not a C++ happens-before edge (noted, not part of C14)',
    'not nested: the calling thread is not inside another parallel_for body of the same pool (that case takes the serial path, covered as PSerial); '
    'no cancellation, bodies do not throw',
    'empty range: parallel_for returns before initStates, so an initially empty container stays empty (states_nonempty is stated for non-empty ranges)',
    'C14_states_nonempty_in_bounds assumes pool size >= 0 and start/end representable in the index type',
]

RULE = ('plan: real parallel_for template + instrumented task set over 8 index kinds x {static, adaptive, explicit chunk} x wait x granularity x '
        'maxThreads around the pool size x pool sizes 0..20 x ring index of the caller x 4 execution disciplines of the scheduled closures '
        '(sequential in order / reversed / own thread started in scheduleBulk / own threads started at wait) x reuseExistingState x pre-filled '
        'container; pf: the real TaskSet/ThreadPool with rendezvous bodies.  Non-trivial = at least two body invocations; distinct = distinct inputs')


def run(ctx):
    rep = dv.gen(['chunk'])
    if any(rep.values()):
        ctx.broken.append('translator: ' + str(rep)[:500])
    ctx.cov['translator_report'] = rep
    ctx.phase('translate')
    ctx.prove(models=['Model/C14Check.v', 'Base/Corr.v'])

    # ---- deterministic witness of the known finding (real TaskSet + ThreadPool), replayed first
    w = plan_common.ovl(ctx, '4 2 8 1003 s 0')
    ctx.cov['witness_static_nowait_tail'] = w
    if w and w['stateconc'] >= 2:
        ctx.violation('parallel_for static, wait=false, granularity 8, maxThreads 2, int64 [0,1003), 4-thread pool: the body of chunk [0,504) and the '
                      'tail invocation [1000,1003) were inside the body at the same time with the same states element (in-use counter %d)' % w['stateconc'],
                      {'finding_key': plan_common.KEY_TAIL, 'cmd': 'echo "ovl 4 2 8 1003 s 0" | build/harness/h_loops-*', 'observed': w})
    ctl = plan_common.ovl(ctx, '4 2 8 1003 s 1', tries=1)
    ctx.cov['control_static_wait'] = ctl
    if ctl and ctl['stateconc'] >= 2:
        ctx.violation('parallel_for static, wait=TRUE, granularity 8: a states element was used by two invocations at once',
                      {'cmd': 'echo "ovl 4 2 8 1003 s 1" | build/harness/h_loops-*', 'observed': ctl})
    ctx.phase('witness')

    nplan = 220 if ctx.quick else 6000
    npf = 140 if ctx.quick else 4000
    plan = plan_common.run_plan_cases(ctx, plan_common.gen_cases(ctx, nplan, True))
    pf = plan_common.run_pf_cases(ctx, plan_common.gen_cases(ctx, npf, False))
    ctx.phase('run')
    res = plan_common.judge(ctx, 'c14', plan_common.IMPORTS14,
                            [('judge_plan14', [plan_common.plan_term(c, p) for c, p in plan]),
                             ('judge_pf14', [plan_common.pf_term(c, p) for c, p in pf])])
    ctx.cov['rule'] = RULE
    ctx.cov['evaluations'] += len(plan) + len(pf) + 2
    if res is None:
        ctx.broken.append('correspondence D(C14): the model no longer evaluates (see coq_eval_errors)')
        return
    hist = {'agree_and_property_holds': 0, 'differs_but_property_holds': 0, 'property_fails_in_known_domain': 0, 'property_fails': 0,
            'in_domain_cases': 0}
    distinct = set()
    for kind, items, vals, line in (('plan', plan, res[0], plan_common.plan_line), ('pf', pf, res[1], pf_common.pf_line)):
        for (c, p), v in zip(items, vals):
            verdict, dom = v // 10, v % 10
            hist['in_domain_cases'] += dom
            ncalls = len(p['obs']) if kind == 'plan' else len(p['chunks'])
            if ncalls >= 2:
                distinct.add((kind,) + tuple(sorted((k, str(x)) for k, x in c.items())))
            if verdict == 0:
                hist['agree_and_property_holds'] += 1
            elif verdict == 1:
                hist['differs_but_property_holds'] += 1
                ctx.broken.append('correspondence D(C14): implementation differs from the Plan model on "%s": %s' % (line(c), str(p)[:300]))
            else:
                text = ('two body invocations used the same states element at the same time (or an index outside the container): %s -> %s'
                        % (line(c), str(p)[:400]))
                rep = {'case': c, 'cmd': line(c), 'harness': 'h_loops' if kind == 'plan' else 'h_parfor', 'observed': p}
                if dom == 1:
                    hist['property_fails_in_known_domain'] += 1
                    rep['finding_key'] = plan_common.KEY_TAIL
                else:
                    hist['property_fails'] += 1
                ctx.violation(text, rep)
    ctx.cov['distinct_nontrivial'] += len(distinct)
    ctx.cov['verdict_histogram'] = hist
    ctx.cov['traces_validated_against_impl'] += hist['agree_and_property_holds']
    if plan:
        c, p = plan[len(plan) // 3]
        ctx.sample({'plan': plan_common.plan_line(c), 'observed(w j lo hi st en ex)': p['obs'][:6], 'nstates': p['nstates']})
    if pf:
        c, p = pf[len(pf) // 3]
        ctx.sample({'pf': pf_common.pf_line(c), 'chunks(a b state)': p['chunks'][:6], 'stateconc': p['stateconc'], 'nstates': p['nstates']})
    ctx.phase('correspond')
