"""C06 -- nested waits never deadlock through pool starvation.   Tie: E (grammar of nesting programs on the real code, watchdog)."""
import dv, ls_common

META = {
    'category': 'proof',
    'technique': 'Coq invariant over ALL interleavings and all load-test outcomes of a task-level model (agents = stacks of activations: a set-waiter polls '
                 'central queue + locality rings and runs what it finds on top of its stack, a future-waiter runs a not-started functor inline or sleeps, '
                 'workers poll everything incl. the steal ring and park; timeout-free) + a strictly decreasing measure (fair termination) + a refutation '
                 'witness; correspondence: programs generated from a grammar (task sets / futures / waiting parallel_for nested to depth 4, fan-out <= 4, '
                 'TaskSet and ConcurrentTaskSet light/heavy/force-queued, heavy and lightweight bodies) run on the real code on pools of 0..4 threads under a '
                 'watchdog; the judge (inside Coq) compares completion and leaf-execution counts with the model and re-runs the model on every program',
    'text': 'For programs whose tasks wait only for joins they created themselves (task sets, futures, waiting parallel loops; any nesting): '
            'C06_no_stuck_with_work (in no reachable state is every agent blocked/parked/spinning while the program is unfinished: some agent has a measure-decreasing step '
            'for every oracle choice), C06_waiters_cover (every queued task sits in a tier polled by an agent that can run: central/rings by every set-waiter on top '
            'of a stack; a non-empty steal ring has an awake worker holding only activations younger than the submitters), C06_step_measure + C06_holds_except '
            '(fair termination: the lexicographic measure closes; every fair schedule completes within mu(init) rounds), any pool size. '
            'C06_refuted / C06_refuted_under_fair_schedules: the full statement is FALSE -- a task that waits for a future of an enclosing body (acyclic: rank '
            'function exhibited) can be taken, inside a wait() of that future\'s own functor, by the very thread that runs the functor; Future::wait then sleeps on '
            'top of the frame it waits for, forever. Reproduced on the real code (2-thread pool, watchdog, the harness reports the buried runner).',
    'note': 'Trusted: Coq kernel; the hand-written task-level model (what each wait loop polls: read from task_set.cpp, future_impl.h, thread_pool.h/.cpp; outstanding '
            'count and future status computed from the task table: C02/C18); claim+wake of a sleeper is atomic with the steal-ring push (the wake protocol is '
            'C05/C07/C09 -- the registered finding placed-wakes-before-push makes the real pool rely on its 100 ms backstop there); harness/h_nested.cpp. '
            'Print Assumptions: closed.',
}

ASSUMPTIONS = [
    'timeout-free semantics: a parked worker stays parked until claimed; claim + wake + steal-ring push are one atomic step of the model (the real code wakes first and '
    'pushes afterwards: see the C07 finding placed-wakes-before-push; the 100 ms sleep backstop hides it at run time)',
    'programs are structured: a body waits for every join it spawned into before it returns; tasks block only in TaskSet/ConcurrentTaskSet::wait, Future::wait and '
    'waiting parallel_for; bodies do not throw; sets are not cancelled',
    'native runs cannot force interleavings: a run that completes says nothing about other schedules (those are covered by the theorems); a run that does not complete '
    'within the watchdog (20 s) is a violation unless the program lies in the finding\'s domain (foreign_wait)',
    'lockstep under harness/vsched_pool.h was not used: a starvation shows there as step-budget exhaustion (set-waiters spin), which the rules classify as inconclusive',
]

IMPORTS = 'From DV Require Import Base.Sched Model.NestedWaitModel Model.C06Check.'
KEY = 'future-wait-buried-under-its-runner'
WITNESS = 's1a[ s2q[w200] w20 j2 ] w50 s3q[ u1 ] w100 j3 j1'


# ------------------------------------------------------------------------------------------------ programs
# op = ('w', ms) | ('s', name, kind, body) | ('j', name) | ('g', name) | ('u', name) | ('p', n, body)
FUT_DEFERRED = 'fadD'      # deferredPolicy = std::launch::deferred
FUT_NOTDEFERRED = 'nN'     # dispenso::kNotDeferred
FUT = FUT_DEFERRED + FUT_NOTDEFERRED

def text(ops):
    out = []
    for o in ops:
        if o[0] == 'w':
            out.append('w%d' % o[1])
        elif o[0] == 's':
            out.append('s%d%s[%s]' % (o[1], o[2], text(o[3])))
        elif o[0] in 'jug':
            out.append('%s%d' % (o[0], o[1]))
        elif o[0] == 'p':
            out.append('p%d[%s]' % (o[1], text(o[2])))
    return ' '.join(out)


def rename(ops, off):
    """own join names of one body shifted by off (nested bodies have their own tables and keep theirs)"""
    res = []
    for o in ops:
        if o[0] == 's':
            res.append(('s', o[1] + off, o[2], o[3]))
        elif o[0] in 'jg':
            res.append((o[0], o[1] + off))
        elif o[0] == 'p':
            res.append(('p', o[1], o[2]))
        else:
            res.append(o)
    return res


def own_names(ops):
    return [o[1] for o in ops if o[0] == 's']


_fresh = [1000]


def coq_items(ops):
    """Gallina op terms; parallel_for(n, body) = n-1 submissions into a fresh set + the body on the caller + wait; the harness waits for every
    own join at the end of a body: made explicit"""
    out, pend = [], []
    for o in ops:
        if o[0] == 'w':
            out.append('OWork')
        elif o[0] == 's':
            k = '(JFut true)' if o[2] in FUT_DEFERRED else '(JFut false)' if o[2] in FUT_NOTDEFERRED else 'JSet'
            out.append('(OSpawn %d %s %s)' % (o[1], k, coq(o[3])))
            if o[1] not in pend:
                pend.append(o[1])
        elif o[0] in 'jg':                    # Future::wait() and get(): the same untimed wait
            out.append('(OWait %d)' % o[1])
            if o[1] in pend:
                pend.remove(o[1])
        elif o[0] == 'u':
            out.append('(OWaitUp %d)' % o[1])
        elif o[0] == 'p':
            n, body = o[1], o[2]
            if n <= 0:
                continue
            _fresh[0] += 1
            J = _fresh[0]
            for _ in range(n - 1):
                out.append('(OSpawn %d JSet %s)' % (J, coq(body)))
            _fresh[0] += 100
            out += coq_items(rename(body, _fresh[0]))      # the caller's share runs in the caller's own table
            out.append('(OWait %d)' % J)
    for j in pend:
        out.append('(OWait %d)' % j)
    return out


def coq(ops):
    return '[' + '; '.join(coq_items(ops)) + ']'


def gen_body(r, depth, names, heavy):
    ops = []
    for _ in range(r.randint(1, 3)):
        x = r.random()
        if depth == 0 or x < 0.25:
            ops.append(('w', r.choice([1, 2, 3]) if heavy and r.random() < 0.5 else 0))
        elif x < 0.7:
            names[0] += 1
            j = names[0]
            kind = r.choice('tlhqrlh')
            for _ in range(r.randint(1, 4)):
                ops.append(('s', j, kind, gen_body(r, depth - 1, names, heavy)))
                if r.random() < 0.3:
                    ops.append(('w', 0))
            if r.random() < 0.7:
                ops.append(('j', j))
        elif x < 0.88:
            names[0] += 1
            j = names[0]
            ops.append(('s', j, r.choice(FUT + 'nN'), gen_body(r, depth - 1, names, heavy)))
            if r.random() < 0.5:
                ops.append(('w', 0))
            if r.random() < 0.7:
                ops.append((r.choice('jg'), j))
        else:
            ops.append(('p', r.randint(1, 4), gen_body(r, depth - 1, names, heavy)))
    return ops


def count_nodes(ops):
    return sum(1 + (count_nodes(o[3]) if o[0] == 's' else count_nodes(o[2]) * o[1] if o[0] == 'p' else 0) for o in ops)


def gen_cases(ctx):
    r = ctx.rng
    cases = []
    n = 70 if ctx.quick else 1500
    while len(cases) < n:
        names = [0]
        p = gen_body(r, r.randint(1, 4), names, r.random() < 0.5)
        if count_nodes(p) > 120:
            continue
        cases.append((p, r.choice([0, 1, 1, 2, 2, 3, 4])))
    # fixed shapes: every worker inside a wait while the needed tasks are queued / in the steal ring
    deep = [('s', 1, 'h', [('s', 2, 'h', [('s', 3, 'h', [('s', 4, 'h', [('w', 1)]), ('j', 4)]), ('j', 3)]), ('j', 2)]), ('j', 1)]
    wide = [('s', 1, 'r', [('s', 2, 'r', [('w', 1)]), ('s', 2, 'r', [('w', 1)]), ('j', 2)])] * 4 + [('j', 1)]
    futs = [('s', 1, 'a', [('s', 2, 'a', [('s', 3, 'a', [('w', 1)]), ('j', 3)]), ('j', 2)]), ('s', 4, 'f', [('p', 3, [('s', 5, 'l', [('w', 0)])])]), ('j', 1), ('j', 4)]
    for p in (deep, wide, futs):
        for N in (0, 1, 2, 4):
            cases.append((p, N))
    cases += probe_cases()
    return cases


def probe_cases():
    """every pool worker inside a task that created a future on the same pool and waits for it while it is still queued; the root
    blocks in get() too (a task-set wait of the root would drain the queue).  The untimed wait must run the queued functor inline
    whatever its deferred policy is."""
    out = []

    def fam(N, outer, inner, w):
        ops = []
        for i in range(N):
            ops.append(('s', 10 + i, outer, [('w', 20), ('s', 1, inner, [('w', 1)]), (w, 1)]))
        for i in range(N):
            ops.append((w, 10 + i))
        return ops
    for N in (1, 2, 3, 4):
        for outer, inner, w in (('N', 'N', 'g'), ('N', 'n', 'j'), ('a', 'N', 'g'), ('N', 'N', 'j')):
            out.append((fam(N, outer, inner, w), N))
        out.append((fam(N, 'D', 'D', 'g'), N))                    # control: deferred policy
        out.append((fam(N, 'N', 'N', 'g'), N + 1))                # control: a spare worker
    out.append((fam(2, 'N', 'N', 'g'), 0))                        # control: no threads, everything inline
    # workers reached through a task set (the root's set wait helps): kNotDeferred futures two levels deep
    for N in (1, 2, 4):
        out.append(([('s', 1, 'q', [('w', 10), ('s', 2, 'N', [('s', 3, 'N', [('w', 1)]), ('g', 3)]), ('g', 2)])] * N + [('j', 1)], N))
    return out


def parse(o):
    if o is None or not o.startswith('nested '):
        return None
    parts = [x.strip() for x in o.split('|')]
    d = {'N': int(parts[0].split()[1])}
    for x in parts[1:]:
        k, v = x.split()
        d[k] = v if k == 'status' else int(v)
    return d


def run(ctx):
    ctx.prove(models=['Model/C06Check.v'])
    exe = dv.build_harness('h_nested', ['h_nested.cpp'])
    ctx.phase('build')
    # 1. the deterministic-by-timing witness of the known finding, replayed first
    wl = 'run 2 4000 2 ; ' + WITNESS
    cases = gen_cases(ctx)
    lines = ['run %d 20000 %d ; %s' % (N, 2 if ctx.quick else 3, text(p)) for p, N in cases]
    outs = ls_common.run_cases(exe, [wl] + lines, jobs=8, timeout=900)
    ctx.phase('run')
    w = parse(outs[0])
    wit_prog = [('s', 1, 'a', [('s', 2, 'q', [('w', 200)]), ('w', 20), ('j', 2)]), ('w', 50), ('s', 3, 'q', [('u', 1)]), ('w', 100), ('j', 3), ('j', 1)]
    kept = [(wl, wit_prog, 2, w, outs[0])]
    for line, (p, N), o in zip(lines, cases, outs[1:]):
        d = parse(o)
        if d is None:
            ctx.broken.append('harness output unreadable for "%s": %s' % (line[:200], str(o)[:200]))
            continue
        kept.append((line, p, N, d, o))
    terms = []
    for line, p, N, d, o in kept:
        st = {'done': 0, 'hang': 1, 'crash': 2}.get(d['status'], 2) if d else 2
        _fresh[0] = 1000
        terms.append('(%s, %d, %d, %d)' % (coq(p), N, st, d['work'] if d else 0))
    verdicts = ls_common.judge_parallel(ctx, IMPORTS, 'judge06', terms, shard_size=12, jobs=10)
    if verdicts is None:
        ctx.broken.append('correspondence E(C06): the model no longer evaluates (see coq_eval_errors)')
        return
    hist = {'completed_and_model_agrees': 0, 'model_differs': 0, 'hang_in_known_domain': 0, 'hang_outside_domain': 0}
    distinct = set()
    for (line, p, N, d, o), v in zip(kept, verdicts):
        if count_nodes(p) >= 4:
            distinct.add(line)
        if v == 0:
            hist['completed_and_model_agrees'] += 1
        elif v == 1:
            hist['model_differs'] += 1
            ctx.broken.append('correspondence E(C06): leaf executions differ from the program / the model does not complete: %s -> %s' % (line[:300], o[:200]))
        elif v == 4:
            hist['hang_in_known_domain'] += 1
            ctx.violation('a task waiting for a future of an enclosing body was run on top of that future\'s own functor (Future::wait sleeps forever): %s -> %s'
                          % (line[:300], o[:200]), {'finding_key': KEY, 'case': line, 'output': o, 'cmd': 'echo "%s" | build/harness/h_nested-*' % line})
        else:
            hist['hang_outside_domain'] += 1
            ctx.violation('nesting program did not complete within the watchdog although the model proves that it must: %s -> %s' % (line[:400], o[:200]),
                          {'case': line, 'output': o, 'cmd': 'echo "%s" | build/harness/h_nested-*' % line})
    ctx.cov['evaluations'] += len(kept)
    ctx.cov['distinct_nontrivial'] += len(distinct)
    ctx.cov['rule'] = ('programs from the grammar body := (work | spawn-into-set{TaskSet, ConcurrentTaskSet light/heavy, with/without ForceQueuingTag} x 1..4 children + wait | '
                       'future{dispenso::async, forced async, Future(f, pool, kNotAsync|async, deferred|kNotDeferred)} + wait()/get() | parallel_for(1..4, body))*, depth <= 4, heavy (1-3 ms) and lightweight bodies, pools of 0..4 threads, 2-3 '
                       'repetitions each, watchdog 20 s; plus fixed deep / wide / future-chain shapes on every pool size and the probe family: N tasks on an N-thread pool (N = 1..4) each creating an inner future (kNotDeferred / deferred, async / not) and calling get()/wait() while it is still queued, the root blocked in get() as well, with controls.  Non-trivial = at least 4 program nodes')
    ctx.cov['verdict_histogram'] = hist
    ctx.cov['max_ms'] = max([d['ms'] for _, _, _, d, _ in kept[1:] if d] or [0])
    ctx.cov['witness_of_known_finding'] = {'case': wl, 'output': outs[0]}
    ctx.cov['traces_validated_against_impl'] += hist['completed_and_model_agrees']
    if len(kept) > 2:
        ctx.sample({'case': kept[1][0][:300], 'impl': kept[1][4], 'model_term': coq(kept[1][1])[:300]})
        ctx.sample({'case': kept[-1][0][:300], 'impl': kept[-1][4]})
    ctx.phase('correspond')
