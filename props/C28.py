"""C28 -- Pipeline stages never exceed their concurrency limit.   Tie: lockstep (L) under harness/vsched.h at gate granularity."""
import dv, ls_common, pipe_common as pc

META = {
    'category': 'proof',
    'technique': 'Coq slot-accounting invariant over all interleavings of a gate-level model of LimitGatedScheduler / pipeline (any number of stages, items, threads; any queue and inline policy) + lockstep replay of generated schedules on the real dispenso::pipeline under a cooperative scheduler + native histories',
    'text': 'Kernel-checked for every reachable state: resources_ + slot holders (+ slots lost to tasks skipped by the cancelled wrapper) = limit, hard holders <= limit, hence '
            'invocations in progress of a limited stage <= its limit (C28_stage_inflight_le_limit); a new holder appears only in a step that found resources_ > 0 '
            '(C28_dispatch_needs_slot); generator instances <= min(pool threads, limit) (C28_generator_instances_le_limit).  Holds with throwing stages too.  The model is tied to '
            'the code by running generated pipelines (1-5 stages, limits 1..7 / unlimited / plain functors, filters, 0-6 items, 1-3 workers, inline thresholds) under generated '
            'schedules on the real pipeline() (hooks before every gate operation) and comparing step trace, event log and outcome with the model evaluated in Coq; the '
            'per-stage in-flight maxima are also checked on the implementation\'s own log, lockstep and native (real pools of 0-4 threads).',
    'note': 'Trusted: Coq kernel; harness/vsched.h; SC interleaving of the gate operations (the atomics are acq_rel / the queue is a moodycamel queue: each pool task is popped at most once); the pool and ConcurrentTaskSet are abstracted to a bag + the inline decision + the cancelled check. No axioms.',
}

ASSUMPTIONS = [
    'sequentially consistent interleaving of the hooked gate operations; code between two hooks runs atomically in the lockstep runs (finer interleavings are covered by the theorems, which allow a switch after every frame transition)',
    'thread pool / ConcurrentTaskSet abstracted: a dispatched task is popped at most once (bag), schedule() either runs it inline or queues it (threshold policy of task_set.h or an oracle), packageTask skips it when cancelled',
    'lockstep runs use a ThreadPool(0) whose numThreads_ / poolLoadFactor_ are overwritten so that tasks are queued; enrolled harness threads play the workers with pool.tryExecuteNext()',
    'the queue order of moodycamel::ConcurrentQueue on a quiescent queue (first three non-empty producers, largest first) is modelled for the lockstep comparison only; the theorems hold for every dequeue choice including misses',
]


def run(ctx):
    ctx.prove(models=['Model/C27Check.v', 'Model/C28Check.v', 'Model/C29Check.v'])
    exe = pc.harness()
    ctx.phase('build')
    r = ctx.rng
    n = 100 if ctx.quick else 2500
    cases = [pc.gen_case(r, exceptions=(i % 3 == 0), small=(i % 10 != 0) or ctx.quick) for i in range(n)]
    kept, terms = pc.run_lockstep(ctx, exe, cases)
    nn = 12 if ctx.quick else 150
    ncases = [pc.gen_native(r, exceptions=False) for _ in range(nn)]
    # saturation probes: a fast serial stage feeding a slow stage whose limit equals the pool size (the calling thread helps once the
    # generator is done, so numT + 1 threads meet numT slots)
    for numT in (2, 3, 4):
        for extra in (0, 1):
            c = pc.gen_native(r, exceptions=False)
            proto = dict(c['stages'][0])
            proto.update({'drops': [], 'throws': []})
            st = [dict(proto, kind='p', limit=1), dict(proto, kind='p', limit=numT)]
            if extra:
                st.append(dict(proto, kind='p', limit=1))
            st[-1]['kind'] = 's'
            c.update({'numT': numT, 'plf': 32 * numT, 'glimit': 1, 'n': 30, 'gthrow': -1, 'bare': 0, 'stages': st})
            ncases.append(c)
    nkept, nterms = pc.run_native(ctx, exe, ncases, 2)
    ctx.cov['evaluations'] += len(cases) + len(nkept)
    distinct = set(o.split('| fin')[0] for c, p, o in kept if len(p['steps']) > 20)
    ctx.cov['distinct_nontrivial'] += len(distinct) + len(set(o for _, _, o in nkept))
    ctx.cov['rule'] = ('random pipelines (1-4 later stages, limits 1/2/3/unlimited/0,4,7 or plain functors, filters, 0-6 items (lockstep) / 0-30 (native), 1-3 workers, '
                       'poolLoadFactor large or tight) x random schedules under vsched, one fork per case; non-trivial = more than 20 steps; distinct = distinct (trace, log) strings; '
                       'native = real pools of 0-4 threads, 2 repetitions')
    verdicts = ls_common.judge_parallel(ctx, pc.IMPORTS, 'judge_c28', terms, shard_size=25)
    nverd = ls_common.judge_parallel(ctx, pc.IMPORTS, 'judge_c28n', nterms, shard_size=25)
    if verdicts is not None and nverd is not None:
        verdicts = verdicts + nverd
    else:
        verdicts = None
    if verdicts is None:
        ctx.broken.append('correspondence L(C28): the model no longer evaluates')
        return
    hist = {}
    allk = kept + nkept
    for i, (v, (c, p, o)) in enumerate(zip(verdicts, allk)):
        native = i >= len(kept)
        hist[v] = hist.get(v, 0) + 1
        line = pc.native_line(c, 1) if native else pc.line_of(c)
        if v == 2:
            ctx.violation('a stage ran more concurrent invocations than its limit (or the generator more instances): %s -> %s' % (line[:200], o[:400]),
                          {'case': line, 'output': o, 'cmd': 'echo "<case>" | build/harness/h_pipeline-*'})
        elif v == 1:
            ctx.broken.append('correspondence L(C28): real trace differs from the model on ' + line + ' -> ' + o[:300])
    ctx.cov['verdict_histogram'] = {'agree': hist.get(0, 0), 'differ_property_holds': hist.get(1, 0), 'limit_exceeded': hist.get(2, 0)}
    ctx.cov['traces_validated_against_impl'] += hist.get(0, 0)
    ctx.cov['status_histogram'] = {k: sum(1 for _, p, _ in kept if p['status'] == v) for k, v in (('done', 0), ('deadlock', 1), ('budget', 2))}
    ctx.cov['site_histogram'] = pc.site_hist(kept)
    if kept:
        ctx.sample({'case': pc.line_of(kept[0][0])[:160], 'impl': kept[0][2][:300]})
    if nkept:
        ctx.sample({'case': pc.native_line(nkept[0][0], 1)[:160], 'impl': nkept[0][2][:300]})
    ctx.phase('correspond')
