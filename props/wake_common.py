"""Shared by C07 / C09: lockstep of the REAL detail::PoolWakeState / detail::EpochWaiter (harness/h_wake.cpp under harness/vsched.h)
against coq/Model/WakeModel.v, and the end-to-end replays on a real ThreadPool (harness/h_wakepool.cpp)."""
import re
import dv, ls_common

SITES = ['start',
         'ws.enterSleep.fetch_or', 'ws.enterSleep.total_add', 'ws.exitSleep.fetch_and', 'ws.exitSleep.total_sub',
         'ws.tryClaim.fetch_and', 'ws.totalSleeping.load', 'ws.cascadeWake.mask_load', 'ws.wakeRange.mask_load',
         'ws.claim.total_load', 'ws.claim.next_load', 'ws.claim.mask_load', 'ws.claim.next_store',
         'ws.seed.total_load', 'ws.seed.mask_load', 'ws.wakeAll.mask_load',
         'ew.bumpAndWake.fetch_add', 'ew.bump.fetch_add', 'ew.bumpAndWakeAll.fetch_add', 'ew.bumpAndWakeN.fetch_add',
         'ew.current.load', 'ew.waitFor.load0', 'ew.waitFor.load1', 'ew.waitFor.load2',
         'futex.wait', 'futex.wake', 'futex.woken', 'futex.timeout',
         'h.running.load', 'h.stop.store', 'h.push', 'h.poll', 'h.join.load', 'h.fin.store']
TAGS = {'claim': 1, 'tryclaim': 2, 'seed': 3, 'total': 4, 'running': 5, 'waitFor': 6, 'current': 7, 'poll': 8, 'park': 9}

KEY_C07 = 'ring-fastpath-wakes-arbitrary-group-waiters'
KEY_C07_CLAIM = 'claim-bit-differs-from-woken-waiter'
KEY_C09 = 'wakeall-skips-hidden-sleeper'

# op = (letter, arg or None)
COQ_OP = {'E': 'OEnter', 'X': 'OExit', 'R': 'ORunLoad', 'W': 'OWaitFor', 'U': 'OCurrent', 'K': 'OPark', 'T': 'OStop', 'C': 'OClaim',
          'Y': 'OTryClaim', 'D': 'OSeed', 'G': 'ORange', 'A': 'OWakeAll', 'Q': 'OCascade', 'N': 'OTotal', 'r': 'OPushRing',
          'c': 'OPushCentral', 's': 'OPushSteal', 'p': 'OPoll'}
NOARG = set('CANc')


def op_txt(o):
    return o[0] if o[0] in NOARG else '%s%d' % (o[0], o[1])


def op_coq(o):
    return COQ_OP[o[0]] if o[0] in NOARG else '(%s %d%%nat)' % (COQ_OP[o[0]], o[1])


def line_of(c):
    return '%d %d %d %d ; %s ; S %s' % (c['n'], c['gs'], c['tmo'], c['budget'],
                                        ' ; '.join(' '.join(op_txt(o) for o in p) for p in c['progs']), ' '.join(map(str, c['sched'])))


def cfg_coq(c):
    return '(CFG %d%%nat %d%%nat 4%%nat true 1%%nat %s)' % (c['n'], c['gs'], 'true' if c['tmo'] else 'false')


def parse_extra(extra):
    m = re.match(r'masks(.*) epochs(.*) total (-?\d+) next (-?\d+) cur(.*) rings(.*) central (-?\d+) steals(.*)', extra)
    if not m:
        return None
    ints = lambda s: [int(x) for x in s.split()]
    return {'masks': ints(m.group(1)), 'epochs': ints(m.group(2)), 'total': int(m.group(3)), 'next': int(m.group(4)),
            'cur': [int(x.split(':')[1]) for x in m.group(5).split()], 'rings': ints(m.group(6)), 'central': int(m.group(7)),
            'steals': ints(m.group(8))}


def zl(l):
    return dv.coq_list([dv.zlit(x) for x in l])


def term_of(c, p, e):
    nthr = len(c['progs'])
    res = dv.coq_list([ls_common.zpairs(p['results'].get(t, [])) for t in range(nthr)])
    return '(WC %s %d%%nat %s %s %s %s %s %s %s %s %d %s %s %s %s %s)' % (
        cfg_coq(c), c['budget'], dv.coq_list([dv.coq_list([op_coq(o) for o in pr]) for pr in c['progs']]),
        dv.coq_list([str(x) for x in c['sched']]), ls_common.zpairs(p['steps']), res,
        zl(e['masks']), zl(e['epochs']), dv.zlit(e['total']), dv.zlit(e['next']), p['status'],
        zl(p['blocked']), zl(e['cur']), zl(e['rings']), dv.zlit(e['central']), zl(e['steals']))


# ------------------------------------------------------------------------------------------------ case generation

SIZES = [(1, 8), (2, 8), (3, 8), (8, 8), (9, 8), (16, 8), (3, 2), (4, 2), (5, 2), (7, 3), (9, 3)]


def sched_of(r, budget, bias=None):
    """decision list; bias='low' keeps most decisions 0 (run one thread for a while), a good way to reach deep states"""
    out = []
    for _ in range(budget + 80):     # spare decisions: a FUTEX_WAKE of n < #waiters consumes one per woken waiter
        if bias == 'low' and r.random() < 0.75:
            out.append(0)
        else:
            out.append(r.randrange(0, 50))
    return out


def gen_raw(r):
    """arbitrary scripts over the raw operations (agreement only)"""
    n, gs = r.choice(SIZES)
    nthr = r.choice([2, 3, 3, 4, 5])
    ng = (n + gs - 1) // gs
    progs = []
    for t in range(nthr):
        p = []
        i = r.randrange(n)
        for _ in range(r.randint(1, 4)):
            x = r.random()
            if x < 0.22: p.append(('K', i))
            elif x < 0.30: p += [('E', i), ('W', i), ('X', i)]
            elif x < 0.36: p.append(('W', i))
            elif x < 0.40: p.append(('U', i))
            elif x < 0.52: p.append(('C', None))
            elif x < 0.62: p.append(('D', r.randint(1, n + 2)))
            elif x < 0.70: p.append(('G', r.randint(1, n + 2)))
            elif x < 0.77: p.append(('A', None))
            elif x < 0.83: p.append(('Q', r.randrange(ng)))
            elif x < 0.87: p.append(('N', None))
            elif x < 0.91: p.append(('Y', r.randrange(n)))
            elif x < 0.94: p.append(('T', r.randrange(n)))
            elif x < 0.96: p.append(('R', r.randrange(n)))
            elif x < 0.98: p.append(('E', i))
            else: p.append(('X', i))
        progs.append(p)
    tmo = 1 if r.random() < 0.25 else 0
    budget = 70
    return {'n': n, 'gs': gs, 'tmo': tmo, 'budget': budget, 'progs': progs, 'sched': sched_of(r, budget, r.choice([None, 'low'])), 'kind': 'raw'}


def gen_proto(r, flavour):
    """protocol-conformant cases: worker threads (park cycle + poll of one index) and producers.
    flavour: 'ring' (push to rings 0..c-1 then cascadeWakeSeed(c) / wakeRange(c)), 'central' (push central, claimAndWakeOne),
             'stop' (stop all, wakeAll), 'stopclaim' (a claim before the stop), 'mixed'"""
    n, gs = r.choice(SIZES)
    nw = min(n, r.choice([1, 2, 3, 4, 6, 8]))
    widx = sorted(r.sample(range(n), nw))
    if flavour == 'ring' and r.random() < 0.7:
        widx = list(range(nw))          # workers 0..nw-1: the ones the ring path addresses
    progs = []
    for i in widx:
        p = []
        for _ in range(r.randint(1, 2)):
            p += [('K', i), ('p', i)]
        progs.append(p)
    prod = []
    if flavour == 'ring':
        c = r.randint(1, max(1, min(n, nw + 1)))
        prod = [('r', j) for j in range(c)] + [(r.choice(['D', 'D', 'G']), c)]
        progs.append(prod)
    elif flavour == 'central':
        k = r.randint(1, 2)
        progs.append([('c', None)] * k + [('C', None)] * k)
    elif flavour == 'stop':
        if r.random() < 0.5:
            progs.append([('r', widx[0]), ('D', widx[0] + 1)])
        progs.append([('T', i) for i in widx] + [('A', None)])
    elif flavour == 'stopclaim':
        progs.append([('c', None), ('C', None)])
        progs.append([('T', i) for i in widx] + [('A', None)])
    else:
        prod = []
        for _ in range(r.randint(1, 3)):
            x = r.random()
            if x < 0.3:
                c = r.randint(1, n); prod += [('r', j) for j in range(min(c, 3))] + [('D', c)]
            elif x < 0.5: prod += [('c', None), ('C', None)]
            elif x < 0.65: prod.append(('Q', r.randrange((n + gs - 1) // gs)))
            elif x < 0.8: prod.append(('G', r.randint(1, n)))
            else: prod.append(('N', None))
        progs.append(prod)
        if r.random() < 0.4:
            progs.append([('T', i) for i in widx] + [('A', None)])
    budget = 40 + 16 * nw
    sched = sched_of(r, budget, r.choice(['low', 'low', None]))
    if flavour in ('ring', 'central', 'mixed') and r.random() < 0.6:
        # the premise of C07: every worker is parked before the producer starts (decision 0 = lowest runnable tid: worker t runs
        # start + the 7 steps of its park cycle and blocks, then worker t+1, ...; the producers are the last tids)
        sched = [0] * (8 * nw) + sched[8 * nw:]
    return {'n': n, 'gs': gs, 'tmo': 0, 'budget': budget, 'progs': progs, 'sched': sched, 'kind': flavour}


# deterministic witnesses on the real PoolWakeState (decision lists pick the futex waiters)
def witness_c07_ring():
    """8 workers parked; tasks pushed into rings 0 and 1; cascadeWakeSeed(2) = FUTEX_WAKE(2) on the shared group futex;
    the futex shim wakes waiters 5 and 6: they poll, find nothing, re-park; tasks 0 and 1 are stranded"""
    progs = [[('K', i), ('p', i), ('K', i)] for i in range(8)] + [[('r', 0), ('r', 1), ('D', 2)]]
    # 8 workers park (7 steps each, lowest tid first), producer: start, push, push, total_load, mask_load, fetch_add, futex.wake(+2 picks)
    sched = [0] * (8 * 7) + [0] * 7 + [5, 5] + [0] * 60
    return {'n': 8, 'gs': 8, 'tmo': 0, 'budget': 140, 'progs': progs, 'sched': sched, 'kind': 'witness-ring'}


def witness_c09():
    """2 workers parked; central push + claimAndWakeOne: bit 0 is claimed, the futex shim wakes waiter 1; worker 1 leaves the sleep
    section (mask = 0 although worker 0 still sleeps); stop all; wakeAll sees mask 0 -> bump without futex wake; worker 0 is left parked"""
    progs = [[('K', 0), ('p', 0)], [('K', 1), ('p', 1)], [('c', None), ('C', None)], [('T', 0), ('T', 1), ('A', None)]]
    # t0 parks (7), t1 parks (7); producer t2: start push total next mask tryclaim fetch_add wake(+1 pick: waiter index 1) store = 9 steps
    sched = [0] * 14 + [0] * 8 + [1] + [0]          # ... futex.wake picks waiters[1] = tid 1, then next_store (t1 is lowest runnable: use idx 1)
    # after the wake cands = [1,2,3]: finish the producer (index 1), then worker 1 (index 0) x5: woken, load2, exit_and, exit_sub, poll
    sched = [0] * 14 + [0] * 7 + [0, 1] + [1] + [0] * 5 + [0] * 40
    return {'n': 2, 'gs': 8, 'tmo': 0, 'budget': 80, 'progs': progs, 'sched': sched, 'kind': 'witness-c09'}


def run_lockstep(ctx, exe, cases, judge, imports):
    """returns list of (case, parsed, raw output, verdict)"""
    outs = ls_common.run_cases(exe, [line_of(c) for c in cases])
    terms, kept = [], []
    for c, o in zip(cases, outs):
        p = ls_common.parse_vsched(o, SITES, TAGS)
        e = parse_extra(p['extra']) if p and 'error' not in p else None
        if p is None or 'error' in p or e is None:
            ctx.broken.append('lockstep harness output unreadable for %s: %s' % (line_of(c), (o or '')[:300]))
            continue
        terms.append(term_of(c, p, e))
        kept.append((c, p, o))
    verdicts = ls_common.judge_parallel(ctx, imports, judge, terms, shard_size=36)
    if verdicts is None:
        return None
    return [(c, p, o, v) for (c, p, o), v in zip(kept, verdicts)]
