"""C17 -- static chunking arithmetic partitions ranges exactly.   Tie: T (regenerated leaves) + D."""
import dv, pf_common

META = {
    'category': 'proof',
    'technique': 'Coq theorems over definitions regenerated from the C++ source (translator) + differential run of real parallel_for/staticChunkSize against the Gallina model evaluated by vm_compute',
    'text': 'Kernel-checked theorems, for all items/chunks/granularity in the stated domain and all 8 index types, about staticChunkSize, staticChunkSizeGranular and '
            'StaticChunkMapper as REGENERATED from /repo by tools/gen.py on every run: sizes sum to items, differ by at most one unit, larger first, boundaries form a '
            'contiguous partition of [start,end).  The glue the translator cannot render (parallel_for_staticImpl configuration) is tied by running the real '
            'parallel_for against the model on boundary-biased cases; the executable property (check_sc / check_static_chunks) is evaluated on the implementation output.',
    'note': 'Trusted: Coq kernel; tools/translate.py + clang AST; harness/h_parfor.cpp; hand-written static_mapper_cfg/static_numThreads (differentially tied). No axioms (Print Assumptions: closed).',
}

ASSUMPTIONS = [
    'domain as in the property: items >= 0, chunks >= 1, granularity >= 1 dividing items, no ssize_t overflow; for int32/int64 index types the products stay in the type',
    'static_mapper_cfg / static_numThreads (the glue inside parallel_for_staticImpl that the translator cannot render) are hand-written and tied by the differential run only',
]


def run(ctx):
    rep = dv.gen(['chunk'])
    if any(rep.values()):
        ctx.broken.append('translator: ' + str(rep)[:500])
    ctx.cov['translator_report'] = rep
    ctx.phase('translate')
    ctx.prove(tie_files=['GenTie/ChunkGenTie.v'], models=['Model/C17Check.v', 'Base/Corr.v'])
    pf_common.correspond_static(ctx, 'C17')
    ctx.phase('correspond')
