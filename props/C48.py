"""C48 -- maxThreads bounds the concurrency of parallel loops.   Tie: T (regenerated leaves under the Plan model) + D."""
import dv, pf_common, plan_common

META = {
    'category': 'proof',
    'technique': 'Coq theorems over the executable Plan model of parallel_for / for_each (body invocations, who runs them, happens-before order; '
                 'concurrency = antichains of that order) built on leaves regenerated from the C++ source + correspondence: the real templates '
                 'driven by an instrumented task set (exact plan, compared inside Coq) and by the real ThreadPool with rendezvous bodies '
                 '(high-water mark of concurrent bodies); deterministic replays for the refutation witness and the regression witness',
    'text': 'C48_refuted: the faithful model has an antichain larger than max(1,maxThreads) for the static no-wait granularity tail (reproduced on the '
            'real code).  C48_holds_except: outside c48_dom every set of pairwise unordered invocations has at most max(1,maxThreads) elements, for '
            'all index kinds, modes, granularities, wait modes, pool sizes, ring indices and claim schedules.  C48_serial: maxThreads in {0,1} gives one '
            'invocation on the caller.  C48_limit_respected: adjustChunkSizing never raises the thread count above the limit (the repaired finding '
            'explicit-chunk-small-range-ignores-maxThreads; its witness is the Example C48_override_regression and is replayed on every run). '
            'C48_foreach: for_each_n uses at most max(1,maxThreads) chunks.',
    'note': 'Trusted: Coq kernel; tools/translate.py + clang AST for the leaves; the plan glue of Model/PlanModel.v / ForEachModel.v is tied by the '
            'correspondence only; harness/h_loops.cpp, harness/h_parfor.cpp.  Print Assumptions: closed.',
}

ASSUMPTIONS = [
    'task set contract as for C14: scheduled closures run once, between scheduleBulk and the return of taskSet.wait(); closures are assumed mutually '
    'unordered (over-approximation of concurrency: safe for the upper bound)',
    'the limit is max(1, (int32_t)options.maxThreads): values >= 2^31 are read as negative by std::max<int32_t> and mean serial',
    'not nested inside another parallel_for body of the same pool (serial path), no cancellation, bodies do not throw',
    'measured concurrency is one-sided: an observed excess is a violation, its absence proves nothing (the theorem carries the universal claim)',
]

RULE = ('as C14 (instrumented task set + real pool, all modes), judged for the high-water mark of simultaneously active bodies; plus for_each_n on the '
        'real pool over iterator categories x n x pool size x maxThreads x wait; plus the model cross-check "plan width exceeds the limit iff the '
        'configuration is in c48_dom" on every generated configuration.  Non-trivial = at least two body invocations')


def run(ctx):
    rep = dv.gen(['chunk'])
    if any(rep.values()):
        ctx.broken.append('translator: ' + str(rep)[:500])
    ctx.cov['translator_report'] = rep
    ctx.phase('translate')
    ctx.prove(models=['Model/C48Check.v', 'Base/Corr.v'])

    # ---- deterministic witness of the known finding, replayed first (real TaskSet + ThreadPool)
    w = plan_common.ovl(ctx, '4 2 8 1003 s 0')
    ctx.cov['witness_static_nowait_tail'] = w
    if w and w['maxconc'] > 2:
        ctx.violation('parallel_for static, wait=false, granularity 8, maxThreads 2, int64 [0,1003), 4-thread pool: %d body invocations were active at '
                      'the same time (2 scheduled chunks + the tail on the calling thread)' % w['maxconc'],
                      {'finding_key': plan_common.KEY_TAIL, 'cmd': 'echo "ovl 4 2 8 1003 s 0" | build/harness/h_loops-*', 'observed': w})
    # ---- regression: the witness of the repaired finding explicit-chunk-small-range-ignores-maxThreads
    exe = pf_common.harness()
    wline = 'pf 4 0 5 c 1 7 2 1 1 1 4 0'
    worst = None
    for _ in range(2):
        p = pf_common.parse_pf(plan_common.run_lines(exe, [wline])[0])
        if p and (worst is None or p['maxconc'] > worst['maxconc']):
            worst = p
    ctx.cov['regression_override'] = worst
    if worst is None or worst['maxconc'] > 2 or worst['nstates'] != 2:
        ctx.violation('parallel_for explicit chunk 1, int32 [0,5), 7-thread pool, maxThreads 2, wait=true: %s (expected at most 2 concurrent bodies on 2 states)'
                      % (worst,), {'cmd': 'echo "%s" | build/harness/h_parfor-*' % wline, 'observed': worst})
    ctx.phase('witness')

    nplan = 180 if ctx.quick else 6000
    npf = 130 if ctx.quick else 4000
    nfe = 120 if ctx.quick else 3000
    cfgs_plan = plan_common.gen_cases(ctx, nplan, True)
    cfgs_pf = plan_common.gen_cases(ctx, npf, False)
    plan = plan_common.run_plan_cases(ctx, cfgs_plan)
    pf = plan_common.run_pf_cases(ctx, cfgs_pf)
    r = ctx.rng
    fe = []
    for _ in range(nfe):
        N = r.choice([0, 1, 2, 3, 4, 7])
        wait = r.choice([0, 1])
        maxT = r.choice([0, 1, 2, 3, N, N + 1, (1 << 31) - 1, 1 << 31])
        n = r.choice([0, 1, 2, 3, N, N + 1, r.randint(0, 60)])
        fe.append({'cat': r.choice(['ra', 'bi']), 'n': n, 'N': N, 'maxT': maxT, 'wait': wait})
    fe_out = plan_common.run_lines(exe, ['fe %s %d %d %d %d' % (c['cat'], c['n'], c['N'], c['maxT'], c['wait']) for c in fe])
    fe_terms, fe_kept = [], []
    for c, o in zip(fe, fe_out):
        if o is None or not o.startswith('fe'):
            ctx.violation('for_each_n failed on %r: %s' % (c, o), {'case': c})
            continue
        mc = int(o.split('maxconc')[1])
        fe_terms.append('(FE %d %d %s %s, %d)' % (c['n'], c['N'], dv.zlit(c['maxT']), 'true' if c['wait'] else 'false', mc))
        fe_kept.append((c, mc))
    ctx.phase('run')
    all_cfgs = sorted(set(pf_common.coq_cfg(c) for c in cfgs_plan + cfgs_pf))
    res = plan_common.judge(ctx, 'c48', plan_common.IMPORTS48,
                            [('judge_plan48', [plan_common.plan_term(c, p) for c, p in plan]),
                             ('judge_pf48', [plan_common.pf_term(c, p) for c, p in pf]),
                             ('judge_fe48', fe_terms),
                             ('(fun c => if width_vs_domain_ok c then c48_domcode c else 9)', all_cfgs)])
    ctx.cov['rule'] = RULE
    ctx.cov['evaluations'] += len(plan) + len(pf) + len(fe_kept) + 2
    if res is None:
        ctx.broken.append('correspondence D(C48): the model no longer evaluates (see coq_eval_errors)')
        return
    hist = {'agree_and_property_holds': 0, 'differs_but_property_holds': 0, 'property_fails_in_known_domain': 0, 'property_fails': 0,
            'configs_in_dom_tail': sum(1 for v in res[3] if v == 1)}
    if any(v == 9 for v in res[3]):
        i = [k for k, v in enumerate(res[3]) if v == 9][0]
        ctx.broken.append('model cross-check: plan width exceeds the limit but the configuration is outside c48_dom (or vice versa): %s' % all_cfgs[i])
    distinct = set()
    for kind, items, vals, line in (('plan', plan, res[0], plan_common.plan_line), ('pf', pf, res[1], pf_common.pf_line)):
        for (c, p), v in zip(items, vals):
            verdict, dom = v // 10, v % 10
            ncalls = len(p['obs']) if kind == 'plan' else len(p['chunks'])
            if ncalls >= 2:
                distinct.add((kind,) + tuple(sorted((k, str(x)) for k, x in c.items())))
            if verdict == 0:
                hist['agree_and_property_holds'] += 1
            elif verdict == 1:
                hist['differs_but_property_holds'] += 1
                ctx.broken.append('correspondence D(C48): implementation differs from the Plan model on "%s": %s' % (line(c), str(p)[:300]))
            else:
                text = 'more than max(1,maxThreads) body invocations were active at the same time: %s -> %s' % (line(c), str(p)[:400])
                rep = {'case': c, 'cmd': line(c), 'harness': 'h_loops' if kind == 'plan' else 'h_parfor', 'observed': p}
                if dom == 1:
                    hist['property_fails_in_known_domain'] += 1
                    rep['finding_key'] = plan_common.KEY_TAIL
                else:
                    hist['property_fails'] += 1
                ctx.violation(text, rep)
    for (c, mc), v in zip(fe_kept, res[2]):
        if v // 10 == 0:
            hist['agree_and_property_holds'] += 1
            if c['n'] > 1:
                distinct.add(('fe',) + tuple(sorted(c.items())))
        elif v // 10 == 1:
            hist['differs_but_property_holds'] += 1
            ctx.broken.append('correspondence D(C48): for_each_n measured %d concurrent applications, more than the model has chunks: %r' % (mc, c))
        else:
            hist['property_fails'] += 1
            ctx.violation('for_each_n ran %d applications at the same time with maxThreads=%d: %r' % (mc, c['maxT'], c),
                          {'case': c, 'cmd': 'fe %s %d %d %d %d' % (c['cat'], c['n'], c['N'], c['maxT'], c['wait']), 'harness': 'h_parfor'})
    ctx.cov['distinct_nontrivial'] += len(distinct)
    ctx.cov['verdict_histogram'] = hist
    ctx.cov['traces_validated_against_impl'] += hist['agree_and_property_holds']
    if pf:
        c, p = pf[len(pf) // 3]
        ctx.sample({'pf': pf_common.pf_line(c), 'maxconc': p['maxconc'], 'nstates': p['nstates']})
    if plan:
        c, p = plan[len(plan) // 2]
        ctx.sample({'plan': plan_common.plan_line(c), 'observed(w j lo hi st en ex)': p['obs'][:6]})
    ctx.phase('correspond')
