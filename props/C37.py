"""C37 -- ConcurrentObjectArena growth and copies are exact.   Tie: D (sequential op sequences, ASan build) + native stress of concurrent grow_by."""
import dv, pf_common, re, concurrent.futures

META = {
    'category': 'proof',
    'technique': 'Coq theorems over an executable Gallina model of ConcurrentObjectArena (sequential operations + small-step interleaving semantics of '
                 'concurrent grow_by, invariants proved for all schedules) + differential run of the real arena (ASan build) against the model evaluated by vm_compute',
    'text': 'Kernel-checked: for every schedule of any number of concurrent grow_by calls (CAS loop on pos_, mutex-protected buffer-table growth, '
            'constructObjects) the returned index ranges are pairwise disjoint and tile [size before, size after), no uninitialised table entry is read, every '
            'element of a returned range is default-constructed, and existing elements keep their address and value; index -> (buffer, offset) is a bijection; '
            'copy construction and copy assignment are defined for every arena (any number of internal buffers, full buffer table or not) and produce the same '
            'size and contents in fresh buffers (C37_copy_equal; the former refutation witness -- 3 buffers in a table of 4 -- is a regression example since the '
            'fix commit in /repo); move construction, move assignment and swap exchange size and contents exactly.  The model is tied to /repo by running the real arena on boundary-biased '
            'operation sequences and comparing every observable with the model inside Coq; the executable property is evaluated on the implementation output.',
    'note': 'Trusted: Coq kernel; harness/h_arena.cpp; g++ -fsanitize=address (fresh allocations filled with 0xbe make a read of a never-written table entry a deterministic crash). '
            'No axioms (Print Assumptions: closed).',
}

ASSUMPTIONS = [
    'Index = size_t and no Index overflow: size + sum of deltas < 2^64 (the model uses unbounded integers; wrap 64 is the identity there)',
    'sequentially consistent interleaving of the shared accesses of grow_by (pos_, allocatedSize_, resizeMutex_, buffers_ table); the acquire/release pairs '
    'that justify this on weaker hardware are not modelled; compare_exchange_weak may fail spuriously (oracle)',
    'one grow_by call per model thread (a thread issuing several calls behaves as several threads whose calls do not overlap: a subset of the schedules)',
    'the interleaving model is tied to the code only through the sequential operations (grow = the same step function run by one thread) and the native '
    'multi-threaded stress run whose returned ranges are checked for disjoint cover; the schedule-controlled lockstep tie (harness/vsched.h) is not in place yet',
    'T is trivially copyable with T() == 7 in the harness; element reads/writes by users are outside the model except a[i] = v between operations',
    'allocation never fails (alignedMalloc / new return storage)',
]

WITNESS = 'seq 2 N 0 2 0 G 0 5 C 1 0'


def parse_ops(tokens):
    """tokens of a seq case -> list of (coq term)"""
    ops = []
    i = 0
    ar = {'N': 3, 'G': 2, 'W': 3, 'R': 1, 'C': 2, 'A': 2, 'M': 2, 'V': 2, 'S': 2, 'D': 1}
    nm = {'N': 'ONew', 'G': 'OGrow', 'W': 'OWrite', 'R': 'ORead', 'C': 'OCopy', 'A': 'OAssign', 'M': 'OMove', 'V': 'OMoveAssign', 'S': 'OSwap', 'D': 'ODestroy'}
    nat_args = {'N': 1, 'G': 1, 'W': 1, 'R': 1, 'C': 2, 'A': 2, 'M': 2, 'V': 2, 'S': 2, 'D': 1}
    while i < len(tokens):
        k = tokens[i]
        args = tokens[i + 1:i + 1 + ar[k]]
        i += 1 + ar[k]
        parts = []
        for j, a in enumerate(args):
            parts.append(('%s%%nat' % a) if j < nat_args[k] else dv.zlit(int(a)))
        ops.append('(%s %s)' % (nm[k], ' '.join(parts)))
    return ops


def seq_term(case, out):
    """case: 'seq nslots tokens...'; out: harness line -> Coq term for judge_seq"""
    t = case.split()
    nslots = int(t[1])
    ops = parse_ops(t[2:])
    crashed = out is None or 'CRASH' in out or not out.startswith('seq')
    done = re.findall(r'\|([^|;]*);', out or '')
    outs = [dv.coq_list([dv.zlit(int(x)) for x in seg.split()]) for seg in done]
    return '(%d%%nat, %s, %s, %s)' % (nslots, dv.coq_list(ops), dv.coq_list(outs) if outs else '(@nil (list Z))', 'true' if crashed else 'false'), len(done), crashed


def mt_term(case, out):
    t = case.split()
    m, init = int(t[1]), int(t[2])
    crashed = out is None or 'CRASH' in out or not out.startswith('mt') or '|' not in out
    ranges, fin = [], []
    if not crashed:
        left, right = out.split('|')
        v = left.split()
        n = int(v[2])
        ranges = [(int(v[3 + 2 * i]), int(v[4 + 2 * i])) for i in range(n)]
        fin = [int(x) for x in right.split()]
    return '(%d, %d, %s, %s, %s)' % (m, init, dv.coq_list(['(%d,%d)' % r for r in ranges]) if ranges else '(@nil (Z*Z))',
                                     dv.coq_list([str(x) for x in fin]) if fin else '(@nil Z)', 'true' if crashed else 'false'), ranges


def pow2_table(nbuf):
    t = 2
    while t < nbuf:
        t *= 2
    return t


def gen_seq_case(r, safe_copies):
    """one operation sequence over 3 slots.  python-side bookkeeping mirrors only what is needed to emit valid operations"""
    nslots = 3
    st = [None] * nslots          # None or dict(size, B, nbuf, tcap, moved)
    toks = []
    nops = r.randint(3, 11)
    tag = [100]

    def emit(*a):
        toks.extend(str(x) for x in a)

    def boundary_delta(a):
        B = a['B']
        to_next = B - a['size'] % B
        return max(0, r.choice([to_next - 1, to_next, to_next + 1, to_next + B, 2 * B + 1, 0, 1, r.randint(0, 2 * B + 2)]))

    def do_grow(s, d):
        a = st[s]
        emit('G', s, d)
        a['size'] += d
        a['nbuf'] = max(a['nbuf'], a['size'] // a['B'] + 1)
        a['tcap'] = max(a['tcap'], pow2_table(a['nbuf']))

    for _ in range(nops):
        live = [i for i in range(nslots) if st[i] is not None]
        usable = [i for i in live if not st[i]['moved']]
        empty = [i for i in range(nslots) if st[i] is None]
        choices = []
        if empty:
            choices += ['N'] * 3
        if usable:
            choices += ['G'] * 6 + ['W'] * 2 + ['R']
            if empty:
                choices += ['C'] * 4 + ['M']
            choices += ['A'] * 3
        if len(live) >= 1:
            choices += ['V', 'S', 'D']
        k = r.choice(choices) if choices else 'N'
        if k == 'N':
            s = r.choice(empty)
            m = r.choice([0, 1, 1, 2, 2, 2, 3, 4, 4, 5])
            B = 1
            while B < m:
                B *= 2
            if m == 0:
                B = 2
            init = r.choice([0, 0, 0, 1, B - 1, B, B + 1, 2 * B, 3 * B - 1])
            emit('N', s, m, init)
            nb = init // B + 1
            st[s] = {'size': init, 'B': B, 'nbuf': nb, 'tcap': pow2_table(nb), 'moved': False}
        elif k == 'G':
            s = r.choice(usable)
            if st[s]['size'] < 22:
                do_grow(s, boundary_delta(st[s]))
        elif k == 'W':
            s = r.choice(usable)
            if st[s]['size'] > 0:
                tag[0] += 1
                emit('W', s, r.randrange(st[s]['size']), tag[0])
        elif k == 'R':
            emit('R', r.choice(usable))
        elif k in ('C', 'A'):
            s = r.choice(usable)
            a = st[s]
            if r.random() < safe_copies and a['nbuf'] < a['tcap'] and a['tcap'] <= 8:
                # sometimes grow until the table is full (buffersPos_ == buffersSize_): both table shapes are copied
                need = (a['tcap'] - 1) * a['B'] + r.randrange(a['B']) - a['size']
                if a['size'] + need < 40:
                    do_grow(s, need)
            if k == 'C':
                d = r.choice(empty)
                emit('C', d, s)
                st[d] = dict(a)
            else:
                d = r.choice(live)
                emit('A', d, s)
                st[d] = dict(a)
        elif k == 'M':
            s = r.choice(usable)
            d = r.choice(empty)
            emit('M', d, s)
            st[d] = dict(st[s])
            st[s] = {'size': 0, 'B': 0, 'nbuf': 0, 'tcap': 0, 'moved': True}
        elif k in ('V', 'S'):
            d = r.choice(live)
            s = r.choice(live)
            emit(k, d, s)
            st[d], st[s] = st[s], st[d]
        elif k == 'D':
            s = r.choice(live)
            emit('D', s)
            st[s] = None
    for i in range(nslots):
        if st[i] is not None and not st[i]['moved'] and r.random() < 0.4:
            emit('R', i)
    return 'seq %d %s' % (nslots, ' '.join(toks))


def run(ctx):
    ctx.prove(models=['Model/C37Check.v', 'Base/Corr.v'])
    exe = dv.build_harness('h_arena', ['h_arena.cpp'], need_lib=False, extra_flags=['-fsanitize=address'])
    ctx.phase('build')
    r = ctx.rng
    nseq = 200 if ctx.quick else 5000
    nmt = 16 if ctx.quick else 300
    fixed = [WITNESS + ' G 1 3 W 1 0 9 R 1 R 0',                   # regression: 3 buffers in a table of 4 (crashed before the fix commit)
             'seq 2 N 0 2 0 C 1 0 G 1 4 R 1 R 0',                  # a fresh arena has 1 buffer in a table of 2
             'seq 2 N 0 2 0 G 0 2 C 1 0 G 1 1 R 1 R 0',            # 2 buffers of 2: full table
             'seq 2 N 0 2 0 G 0 6 W 0 5 42 C 1 0 W 1 0 9 R 0 R 1',  # 4 buffers: full table; deep copy
             'seq 3 N 0 4 5 N 1 1 3 S 0 1 R 0 R 1 V 0 1 R 0 M 2 0 R 2 A 1 1 R 1',
             'seq 2 N 0 1 0 G 0 1 G 0 1 G 0 1 G 0 1 G 0 1 R 0 N 1 3 7 A 1 0 R 1 G 1 2 R 1',   # copy assignment from 6 buffers in a table of 8
             ]
    seq_cases = fixed + [gen_seq_case(r, 0.35) for i in range(nseq)]
    mt_cases = []
    for i in range(nmt):
        m = r.choice([1, 2, 2, 4, 8, 16, 64])
        init = r.choice([0, 0, 1, m, 3 * m + 1])
        nth = r.choice([2, 3, 4, 8])
        calls = r.choice([3, 10, 25])
        maxd = r.choice([1, 2, m, 2 * m + 1, 3])
        mt_cases.append('mt %d %d %d %d %d %d' % (m, init, nth, calls, maxd, r.randrange(1 << 30)))
    outs = pf_common.run_harness(exe, seq_cases + mt_cases, timeout=900)
    ctx.phase('run')
    seq_terms, mt_terms = [], []
    for c, o in zip(seq_cases, outs[:len(seq_cases)]):
        t, ndone, crashed = seq_term(c, o)
        seq_terms.append(t)
    mt_ranges = []
    for c, o in zip(mt_cases, outs[len(seq_cases):]):
        t, ranges = mt_term(c, o)
        mt_terms.append(t)
        mt_ranges.append(ranges)
    imports = 'From DV Require Import Base.Corr Model.ArenaModel Model.C37Check.'
    # Coq spends its time reading the numerals, not evaluating: shard and read the shards in parallel
    nsh = 3 if ctx.quick else 24
    jobs = [('cases_seq%d' % k, 'judge_seq', sh) for k, sh in enumerate(pf_common.shard(seq_terms, nsh))]
    jobs += [('cases_mt%d' % k, 'judge_mt', sh) for k, sh in enumerate(pf_common.shard(mt_terms, 1 if ctx.quick else 12))]
    with concurrent.futures.ThreadPoolExecutor(max_workers=4) as ex:
        results = list(ex.map(lambda j: pf_common.coq_judge(ctx, j[0], imports, [(j[1], j[2])]), jobs))
    verd_seq, verd_mt = [], []
    ok = all(x is not None for x in results)
    if ok:
        for j, x in zip(jobs, results):
            if j[1] == 'judge_seq':
                verd_seq += x[0]
            else:
                verd_mt += x[0]
    ctx.phase('judge')
    if not ok:
        ctx.broken.append('correspondence D(C37): the model no longer evaluates (see coq_eval_errors)')
        return
    hist = {0: 0, 1: 0, 2: 0}
    distinct = set()
    for i, (c, o, vv) in enumerate(zip(seq_cases, outs, verd_seq)):
        v, ndone = vv % 10, vv // 10          # ndone = index of the failing operation (verdicts 2 and 4)
        hist[v] = hist.get(v, 0) + 1
        if ' G ' in c and (' C ' in c or ' A ' in c or ' S ' in c or ' V ' in c or ' M ' in c):
            distinct.add(c)
        cmd = 'echo "%s" | H_VERBOSE=1 build/harness/h_arena-*' % c
        if v == 2:
            ctx.violation('ConcurrentObjectArena: operation #%d (0-based) of "%s" violates the property (size/contents/default-construction/stability) or crashed: %s'
                          % (ndone, c, (o or '')[-300:]), {'case': c, 'output': o, 'cmd': cmd, 'failed_at_op': ndone})
        elif v == 1:
            ctx.broken.append('correspondence D(C37): implementation differs from the model on "%s": %s' % (c, (o or '')[:300]))
    for c, o, v, rg in zip(mt_cases, outs[len(seq_cases):], verd_mt, mt_ranges):
        hist[v] = hist.get(v, 0) + 1
        if len(rg) > 1:
            distinct.add(c)
        cmd = 'echo "%s" | H_VERBOSE=1 build/harness/h_arena-*' % c
        if v == 2:
            ctx.violation('concurrent grow_by: returned ranges are not a disjoint cover of [0,size) / elements not default-constructed / references moved: %s -> %s'
                          % (c, (o or '')[-200:]), {'case': c, 'output': o, 'cmd': cmd})
        elif v == 1:
            ctx.broken.append('correspondence D(C37): final arena shape of the stress run differs from the model on "%s": %s' % (c, (o or '')[-120:]))
    ctx.cov['evaluations'] += len(seq_cases) + len(mt_cases)
    ctx.cov['distinct_nontrivial'] += len(distinct)
    ctx.cov['rule'] = ('seq: operation sequences over 3 arena slots (minBuffSize 0..8, grow_by deltas aimed at buffer boundaries -1/0/+1, copies at full and at '
                       'non-full buffer tables, self-assignment, moves, swaps); non-trivial = has a grow and a copy/assign/move/swap.  mt: 2..8 threads x 5..40 '
                       'grow_by calls with random deltas; non-trivial = more than one range.  distinct = distinct case lines')
    ctx.cov['verdict_histogram'] = {'agree_and_property_holds': hist[0], 'differs_but_property_holds': hist[1], 'property_fails': hist[2]}
    ctx.cov['traces_validated_against_impl'] += hist[0]
    ctx.cov['stress_ranges_checked'] = sum(len(x) for x in mt_ranges)
    ctx.sample({'case': seq_cases[3], 'impl': outs[3]})
    ctx.sample({'case': seq_cases[len(fixed) + 1], 'impl': outs[len(fixed) + 1]})
    ctx.sample({'case': mt_cases[0], 'impl': (outs[len(seq_cases)] or '')[:200]})
    ctx.phase('correspond')
