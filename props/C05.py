"""C05 -- task exceptions are captured and rethrown exactly once.   Tie: lockstep L under harness/vsched.h (+ T for the decisions that route bodies)."""
import dv, taskset_common as T

SIDE_OBSERVATION = ('outside the property (concurrent wait() calls on ONE set are excluded by the OneWaiter hypothesis; the documentation only forbids wait concurrent with schedule): two threads in '
                    'ConcurrentTaskSet::wait() on the same set race in testAndResetException -- both load guard == Set, the second moves an empty exception_ptr and calls std::rethrow_exception(nullptr): SIGSEGV. '
                    'Deterministic lockstep replay: echo "L 60 ; P 1 32 0 3 ; S 1 0 4 -1 0 ; T 0 0 : s 0 1 0 [ t ] k w 0 ; T 0 0 : w 0 ; X 0 0 0 0 0 0 0 0 0 0 0 0 1 1 1 0 0 1 1 1 1 1 1" | build/harness/h_taskset-*  ->  CRASH status 11')


META = {
    'category': 'proof',
    'technique': 'Coq invariants over all interleavings of the step model of trySetCurrentException / testAndResetException (CAS, slot write, guard stores, move, reset as separate steps) '
                 '+ lockstep replay on the real code with throwing bodies',
    'text': 'Kernel-checked: C05_delivered_at_most_once (no (set, capture ticket) is rethrown twice; all interleavings), C05_throw_preserves_accounting (the counter equation with throwing '
            'bodies; zero at quiescence), and -- for interleavings with at most one thread inside the critical section of testAndResetException per set -- C05_first_exception_wins (unique CAS '
            'winner, the slot holds its exception) and C05_next_wait_rethrows (a zero counter implies the guard is not Setting, so a capture is complete; a load of Set leads to move, reset, rethrow). '
            'On the implementation\'s log: no (exception, set) rethrown twice; every guard load that follows a completed capture goes on to rethrow; no wait() / tryWait(k), k = 0 included, returns normally / true '
            'after observing completion while a completed capture of the set is still pending (probe family: throw, finish everything, poll with tryWait(0) / tryWait(1) / tryWait(large) / wait() in every order). '
            'Observation outside the property: two concurrent wait() calls on one ConcurrentTaskSet race on exception_ (real code: rethrow of a null exception_ptr, SIGSEGV).',
    'note': T.NOTE,
}
ASSUMPTIONS = T.ASSUME + ['at most one thread at a time between the guard load and the guard reset of testAndResetException of one set (no concurrent wait()/tryWait() on the same set); needed by first_exception_wins / next_wait_rethrows only',
                          'compare_exchange_strong does not fail spuriously',
                          'side observation (not a violation of C05 as quantified): ' + SIDE_OBSERVATION]


def run(ctx):
    exe = T.prove_and_build(ctx, 'C05')

    def on_verdict(v, c, p, o):
        ctx.violation('an (exception, set) pair was rethrown twice, or the exception of a queued task was lost (the next wait returned normally and nobody was ever handed one), or a wait()/tryWait(k) returned normally / true having observed completion while a captured exception of the set was still pending (not rethrown by the call that had to deliver it): %s -> %s' % (T.case_line(c)[:300], o[:400]),
                      {'case': T.case_line(c), 'output': o, 'cmd': 'echo "<case>" | build/harness/h_taskset-*'})
    # deterministic probe family first: tasks throw, everything finishes, then tryWait(0) / tryWait(1) / tryWait(large) / wait() in each order, TaskSet and both ConcurrentTaskSet kinds
    probes = T.exc_probes() + T.exc_after_cancel_probes() + T.exc_barrier_probes()
    ctx.cov['probe_cases'] = len(probes)
    res = T.lockstep_phase(ctx, exe, 'judge_C05', ['exc', 'exc', 'exc', 'mixed'], 80 if ctx.quick else 3000, witnesses=probes, on_verdict=on_verdict)
    ctx.cov['side_observations'] = [SIDE_OBSERVATION]
    ctx.cov['rethrows_observed'] = sum(1 for _, p, _, _ in res for evs in p['results'].values() for e in evs if e[0] == T.TAGS['rt'])
    ctx.cov['captures_observed'] = sum(1 for _, p, _, _ in res for (t, code) in p['steps'] if code // 64 == 15)
    ctx.cov['lost_cas_observed'] = sum(1 for _, p, _, _ in res for (t, code) in p['steps'] if code // 64 == 14) - ctx.cov['captures_observed']
