"""C36 -- ChaseLevDeque delivers each element exactly once.   Tie: lockstep (L) under harness/vsched.h."""
import dv, ls_common, re

META = {
    'category': 'proof',
    'technique': 'Coq invariant over all interleavings of a step-level model of try_push/try_pop/try_steal (one step per atomic access of top_/bottom_ and per slot access) '
                 '+ lockstep replay of generated schedules on the real hooked ChaseLevDeque under a cooperative scheduler',
    'text': 'Kernel-checked for one owner, any number of thieves, any schedule, any power-of-two capacity and start index, under SEQUENTIALLY CONSISTENT memory: '
            'in every reachable state pushed = returned + content as multisets (C36_cl_exactly_once; with distinct elements nothing is returned twice), '
            'the content stays in push order, a successful pop removes its newest and a successful steal its oldest element (incl. the last-element CAS race, both outcomes), '
            'content <= Capacity and bottom-top <= Capacity, and in a quiescent state pop/steal run to completion succeed iff the deque is non-empty. '
            'The model is tied to the code by replaying generated owner/thief programs under generated schedules on the real class (hooks before every atomic access and '
            'slot access) and comparing step trace, per-thread results, final top/bottom/remaining slots with the model evaluated in Coq; the executable property '
            '(returned is a sub-multiset of pushed; at completion pushed = returned + remaining) is evaluated on the implementation output.',
    'note': 'Trusted: Coq kernel; harness/vsched.h; SC interleaving of atomics -- the two seq_cst fences are no-ops in the model; correctness under the C++ weak memory model '
            'hinges on them and is NOT shown.  int64 counters modelled as unbounded integers.  try_pop_into / try_steal_into not modelled.  No axioms.',
}

ASSUMPTIONS = [
    'sequentially consistent interleaving of the atomic accesses and slot accesses; the two std::atomic_thread_fence(seq_cst) are no-ops in the model, so nothing is shown about weak-memory executions (where the algorithm depends on them)',
    'top_/bottom_ (int64) are modelled as unbounded integers (no 2^63 wrap); exactly one thread (thread 0) pushes/pops, as the class requires',
    'try_pop_into / try_steal_into (memcpy variants) and the observers empty()/size() are not modelled',
    'compare_exchange_strong is used (no spurious failure)',
    'the model has one element representation; the harness instantiates the real class for element sizes 8/24/72/136 bytes (all must behave like the model) with a tracked element type '
    '(std::is_trivially_copyable specialised for it in the harness); a slot access that bypasses the element\'s copy operations (e.g. memcpy) is invisible to the stray counter and is '
    'searched for only by outcome (lockstep results, native stress: torn / duplicated / lost ids)',
]

SITES = ['start', 'cl.push.load_bottom', 'cl.push.load_top', 'cl.push.slot_write', 'cl.push.store_bottom',
         'cl.pop.load_bottom', 'cl.pop.store_bottom', 'cl.pop.load_top', 'cl.pop.restore_bottom', 'cl.pop.slot_read',
         'cl.pop.store_bottom2', 'cl.pop.cas_top', 'cl.steal.load_top', 'cl.steal.load_bottom', 'cl.steal.slot_read', 'cl.steal.cas_top']
TAGS = {'pushok': 1, 'pushfull': 2, 'popok': 3, 'popfail': 4, 'stealok': 5, 'stealfail': 6}


def op_coq(o):
    if o[0] == 'U': return '(OPush %s)' % dv.zlit(o[1])
    return {'O': 'OPop', 'T': 'OSteal'}[o[0]]


def op_txt(o):
    return 'U%d' % o[1] if o[0] == 'U' else o[0]


def gen_sched(r, nthr, n):
    """bursty schedules: runs of the same decision (so that an operation is cut at a chosen point), mixed with uniform noise"""
    out = []
    mode = r.random()
    while len(out) < n:
        if mode < 0.6:
            c = r.randrange(nthr)
            out += [c] * r.choice([1, 1, 2, 3, 4, 5, 6, 9])
        else:
            out.append(r.randrange(0, 60))
    return out[:n]


WORDS = [1, 3, 9, 17]    # element sizes 8, 24, 72 (> one cache line), 136 (> two cache lines) bytes


def gen_case(r, kind=None):
    cap = r.choice([1, 2, 2, 4, 4, 8])
    i0 = r.choice([0, 0, 0, -1, -2, 1, 3, 7, 5])
    nth = r.choice([1, 1, 2, 2, 3])
    tag = [0]

    def push():
        tag[0] += 1
        return ('U', tag[0])
    oprog = []
    kind = kind or r.choice(['race', 'race', 'mixed', 'full', 'mixed', 'fullsteal'])
    if kind == 'fullsteal':   # full deque, thieves steal while the owner keeps pushing (wraps onto the slot just stolen)
        cap = r.choice([1, 1, 2, 2, 4])
        for _ in range(cap):
            oprog.append(push())
        for _ in range(r.randint(2, 4)):
            oprog.append(push())
        nth = r.choice([1, 1, 2])
    if kind == 'fullsteal':
        pass
    elif kind == 'race':      # few elements, pops and steals collide on the last one
        for _ in range(r.randint(1, 2)):
            oprog.append(push())
        for _ in range(r.randint(1, 3)):
            oprog.append(r.choice([('O',), ('O',), push()]))
    elif kind == 'full':    # run into the capacity
        for _ in range(min(cap + r.randint(0, 2), 5)):
            oprog.append(push())
        for _ in range(r.randint(0, 2)):
            oprog.append(r.choice([('O',), push()]))
    else:
        for _ in range(r.randint(2, 6)):
            x = r.random()
            oprog.append(push() if x < 0.5 else (('O',) if x < 0.9 else ('T',)))
    oprog = oprog[:8 if kind == 'fullsteal' else 6]
    tprogs = [[('T',)] * r.randint(1, 3) for _ in range(nth)]
    budget = 8 + 7 * len(oprog) + sum(4 * len(p) + 1 for p in tprogs)
    if kind == 'fullsteal' and r.random() < 0.7:
        # owner fills the deque alone, then: a few thief steps, an owner burst (one or two push attempts), and so on
        sched = [0] * (1 + 4 * cap)
        while len(sched) < budget + 4:
            sched += [r.randrange(1, nth + 1)] * r.choice([1, 1, 2, 3, 4]) + [0] * r.choice([2, 4, 4, 6, 8])
        sched = sched[:budget + 4]
    else:
        sched = gen_sched(r, nth + 1, budget + 4)
    return {'cap': cap, 'i0': i0, 'budget': budget, 'w': r.choice(WORDS), 'oprog': oprog, 'tprogs': tprogs, 'sched': sched}


def probe_cases():
    """deterministic family: the deque is full, one thief steals, the owner starts push attempts right after the thief's j-th step
    (j = 1..4: after load_top / load_bottom / slot_read / cas_top) and keeps pushing; every capacity 1/2/4 x every element size"""
    out = []
    for cap in (1, 2, 4):
        for w in WORDS:
            for j in (1, 2, 3, 4):
                oprog = [('U', k + 1) for k in range(cap + 3)]
                fill = [0] * (1 + 4 * cap)               # start + cap pushes
                sched = fill + [1] + [1] * j + [0] * 8 + [1] * 4 + [0] * 8 + [1] * 4 + [0] * 40
                budget = 8 + 7 * len(oprog) + 9
                out.append({'cap': cap, 'i0': 0, 'budget': budget, 'w': w, 'oprog': oprog, 'tprogs': [[('T',), ('T',)]], 'sched': sched[:budget + 4]})
    return out


def line_of(c):
    return '%d %d %d %d ; %s ; S %s' % (c['cap'], c['i0'], c['budget'], c.get('w', 1),
                                    ' ; '.join(' '.join(op_txt(o) for o in p) for p in [c['oprog']] + c['tprogs']),
                                    ' '.join(map(str, c['sched'])))


def term_of(c, p):
    nthr = 1 + len(c['tprogs'])
    m = re.search(r'top (-?\d+) bot (-?\d+) stray (\d+) rem(.*)', p['extra'])
    top, bot, stray = int(m.group(1)), int(m.group(2)), int(m.group(3))
    rem = [int(x) for x in m.group(4).split()]
    res = dv.coq_list([ls_common.zpairs(p['results'].get(t, [])) for t in range(nthr)])
    return '(CC %s %s %d%%nat %s %s %s %s %s %s %s %s %d %d)' % (
        dv.zlit(c['cap']), dv.zlit(c['i0']), ls_common.fuel_of(c['budget'], p['status']),
        dv.coq_list([op_coq(o) for o in c['oprog']]),
        dv.coq_list([dv.coq_list([op_coq(o) for o in pr]) for pr in c['tprogs']]),
        dv.coq_list([str(x) for x in c['sched']]),
        ls_common.zpairs(p['steps']), res, dv.zlit(top), dv.zlit(bot), dv.coq_list([dv.zlit(x) for x in rem]), stray, p['status'])


# the two outcomes of the last-element race (Properties_C36.v C36_last_element_race_*), replayed on the real code on every run
RACE_A = {'cap': 4, 'i0': 0, 'budget': 40, 'w': 1, 'oprog': [('U', 7), ('O',)], 'tprogs': [[('T',)]], 'sched': [0] * 10 + [1] * 5 + [0] * 30}
RACE_B = {'cap': 4, 'i0': 0, 'budget': 40, 'w': 17, 'oprog': [('U', 7), ('O',)], 'tprogs': [[('T',)]], 'sched': [0] * 5 + [1] * 4 + [0] * 6 + [0] * 30}


def run(ctx):
    ctx.prove(models=['Model/C36Check.v'])
    exe = dv.build_harness('h_chaselev', ['h_chaselev.cpp'], need_lib=False)
    ctx.phase('build')
    r = ctx.rng
    # native (unscheduled) stress: one-sided search for a concrete witness of a lost / duplicated / torn element, per element size
    ms = 250 if ctx.quick else 2500
    stress = ['stress %d %d %d %d' % (cap, w, nthv, ms) for (cap, w, nthv) in
              [(1, 17, 2), (2, 17, 3), (4, 17, 2), (1, 9, 3), (2, 9, 2), (4, 9, 3), (1, 3, 2), (2, 1, 3), (4, 1, 2)]]
    souts = ls_common.run_cases(exe, stress, jobs=3)
    st_tot = {'pushed': 0, 'torn': 0, 'dup': 0, 'lost': 0, 'unknown': 0}
    for l, o in zip(stress, souts):
        m = re.match(r'stress cap (\d+) w (\d+) thieves (\d+) pushed (\d+) returned (\d+) torn (\d+) dup (\d+) lost (\d+) unknown (\d+) firstdup (\d+) firstlost (\d+)', o or '')
        if not m:
            ctx.broken.append('native stress output unreadable for %s: %s' % (l, (o or '')[:200]))
            continue
        g = [int(x) for x in m.groups()]
        for k, v in zip(('pushed', 'torn', 'dup', 'lost', 'unknown'), (g[3], g[5], g[6], g[7], g[8])):
            st_tot[k] += v
        if g[5] or g[6] or g[7] or g[8]:
            ctx.violation('ChaseLevDeque native stress (unique ids, owner keeps the deque full, %d thieves, capacity %d, %d-byte elements): of %d pushed ids %d were returned twice '
                          '(e.g. id %d), %d never (e.g. id %d), %d payloads torn, %d unknown ids' % (g[2], g[0], 8 * g[1], g[3], g[6], g[9], g[7], g[10], g[5], g[8]),
                          {'case': l, 'output': o, 'cmd': 'echo "%s" | build/harness/h_chaselev-*   (unscheduled threads: repeat a few times)' % l})
    ctx.cov['native_stress'] = dict(st_tot, configs=len(stress), ms_each=ms)
    ctx.cov['evaluations'] += len(stress)
    ctx.phase('stress')
    n = 240 if ctx.quick else 12000
    probes = probe_cases()
    cases = [RACE_A, RACE_B] + probes + [gen_case(r) for _ in range(n)]
    outs = ls_common.run_cases(exe, [line_of(c) for c in cases])
    terms, kept = [], []
    distinct = set()
    races = {'pop_cas_lost': 0, 'steal_cas_lost_or_empty': 0, 'pop_cas_path': 0, 'push_full': 0}
    for c, o in zip(cases, outs):
        p = ls_common.parse_vsched(o, SITES, TAGS)
        if p is None or 'error' in p:
            ctx.broken.append('lockstep harness output unreadable for %s: %s' % (line_of(c)[:200], (o or '')[:200]))
            continue
        terms.append(term_of(c, p))
        kept.append((c, p, o))
        ntake = sum(1 for t in p['results'] for (g, v) in p['results'][t] if g in (3, 5))
        if ntake >= 1 and len(p['steps']) > len(c['tprogs']) + 6:
            distinct.add(o.split('| status')[0])
        cas_pop = sum(1 for (t, s) in p['steps'] if s == SITES.index('cl.pop.cas_top'))
        races['pop_cas_path'] += cas_pop
        # a pop that reached the CAS and failed = the thief won the last-element race
        own = p['results'].get(0, [])
        races['push_full'] += sum(1 for (g, v) in own if g == 2)
        races['steal_cas_lost_or_empty'] += sum(1 for t in p['results'] for (g, v) in p['results'][t] if g == 6)
    ctx.cov['evaluations'] += len(cases)
    ctx.cov['distinct_nontrivial'] += len(distinct)
    ctx.cov['rule'] = ('generated owner programs (<= 8 push/pop/steal ops, distinct tags; families: last-element race, run-into-capacity, mixed, full deque with steals while the owner keeps pushing) '
                       'x 1-3 thieves (1-3 steals each) x capacity in {1,2,4,8} x element size in {8,24,72,136} bytes (tracked payload: id in every word) x start index in {-2..7} x bursty/uniform '
                       'schedules, plus the deterministic probe family (full deque, thief steals, owner pushes after the thief\'s j-th step; caps 1/2/4 x 4 sizes x j=1..4), one fork per case under vsched; '
                       'plus 9 native stress runs (not counted as distinct); '
                       'non-trivial = at least one element was delivered by pop/steal and the trace has more than (#thieves + 6) steps; distinct = distinct (trace, results, final state) strings')
    verdicts = ls_common.judge_parallel(ctx, 'From DV Require Import Base.Sched Model.ChaseLevModel Model.C36Check.', 'judge_cl', terms)
    if verdicts is None:
        ctx.broken.append('correspondence L(C36): the model no longer evaluates')
        return
    hist = {}
    for v, (c, p, o) in zip(verdicts, kept):
        hist[v] = hist.get(v, 0) + 1
        if v == 2:
            msx = re.search(r'stray (\d+)', p['extra'])
            nstray = int(msx.group(1)) if msx else 0
            what = ('%d payload access(es) of a slot not immediately preceded by the matching hook point (a slot read/write that is not its own scheduled step, e.g. a copy after the CAS)' % nstray
                    if nstray else 'an element returned twice / lost / torn / more than capacity')
            ctx.violation('ChaseLevDeque delivery violated on the real code (%s): %s -> %s' % (what, line_of(c)[:200], o[:400]),
                          {'case': line_of(c), 'output': o, 'cmd': 'echo "<case>" | build/harness/h_chaselev-*'})
        elif v == 1:
            ctx.broken.append('correspondence L(C36): real trace/results differ from the model on ' + line_of(c)[:200] + ' -> ' + o[:300])
    # count lost pop CASes from the agreed traces: popfail right after a pop.cas_top step
    for c, p, o in kept:
        own = p['results'].get(0, [])
        ncas = sum(1 for (t, s) in p['steps'] if t == 0 and s == SITES.index('cl.pop.cas_top'))
        nrestore = sum(1 for (t, s) in p['steps'] if t == 0 and s == SITES.index('cl.pop.restore_bottom'))
        nfail = sum(1 for (g, v) in own if g == 4)
        races['pop_cas_lost'] += max(0, nfail - nrestore) if p['status'] == 0 else 0
    ctx.cov['verdict_histogram'] = {'agree': hist.get(0, 0), 'differ_property_holds': hist.get(1, 0), 'delivery_violated': hist.get(2, 0)}
    ctx.cov['traces_validated_against_impl'] += hist.get(0, 0)
    ctx.cov['race_histogram'] = races
    ctx.cov['probe_cases'] = len(probes)
    ctx.cov['element_words_histogram'] = {str(w): sum(1 for c, _, _ in kept if c.get('w', 1) == w) for w in WORDS}
    ctx.cov['status_histogram'] = {k: sum(1 for _, p, _ in kept if p['status'] == v) for k, v in (('done', 0), ('deadlock', 1), ('budget', 2))}
    ctx.sample({'case': line_of(cases[0])[:120], 'impl': outs[0][:400]})
    ctx.sample({'case': line_of(cases[1])[:120], 'impl': outs[1][:400]})
    if len(cases) > 2:
        ctx.sample({'case': line_of(cases[2])[:200], 'impl': outs[2][:400]})
    ctx.phase('correspond')
