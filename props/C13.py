"""C13 -- parallel_for honours the granularity contract.   Tie: T (regenerated leaves) + D (all chunking modes, start mod g swept)."""
import dv, pf_common

META = {
    'category': 'proof',
    'technique': 'Coq theorems over the executable Gallina models of the static, dynamic and adaptive (stripe) paths of parallel_for built on leaves '
                 'regenerated from the C++ source; differential run of the real parallel_for against the model with start mod g swept, the '
                 'granularity contract evaluated in Coq on the implementation output',
    'text': 'Kernel-checked: with granularity g > 1 and no explicit chunk size, at most one body invocation has a size that is not a multiple of g '
            'and it ends at the range end -- for the static path (C17 size theorems), the dynamic path (all claim orders) and the adaptive path '
            '(all claim/steal schedules, no cursor wrap, every start mod g): C13_holds.  The former finding adaptive-absolute-alignment (stripe ends '
            'aligned to absolute multiples of g; witness start=3, size=1000, g=8, 4-thread pool: invocation [195,200)) is fixed in /repo (initStripeState '
            'aligns the offset from start); its witness is a regression Example in Coq and the first case of the differential run.',
    'note': 'Trusted: Coq kernel; tools/translate.py + clang AST for the leaves; harness/h_parfor.cpp; hand-written glue tied by the differential run only.',
}

ASSUMPTIONS = [
    'domain: as C12 (start,end in the index type, size + 64*(N+1) + granularity < 2^63, size <= kmax for signed index types)',
    'adaptive path: complete schedules without cursor wrap (the wrap is C12\'s finding adaptive-cursor-wrap-64bit)',
]

# witness of the former finding adaptive-absolute-alignment, kept as the first (regression) case
WITNESS = {'kn': 4, 's': 3, 'e': 1003, 'mode': 'a', 'chunk': 0, 'N': 4, 'maxT': (1 << 31) - 1, 'minItems': 1, 'g': 8, 'wait': 1, 'rdv': 0, 'reuse': 0}


def report(ctx, c, res, v, hist, tag=''):
    overrun, ch, raw = res
    line = pf_common.pf_line(c)
    if ch is None:
        ctx.violation('harness failed on %s: %s' % (line, raw), {'case': c, 'output': raw, 'cmd': line})
        return
    hist[v] = hist.get(v, 0) + 1
    bad = [(a, b) for a, b in ch if (b - a) % max(1, c['g']) != 0]
    if v == 2:
        ctx.violation('granularity contract broken: %s -> invocations with a size that is not a multiple of g=%d: %s' % (line, c['g'], bad[:8]),
                      {'case': c, 'impl_chunks': ch[:200], 'bad': bad[:50], 'cmd': 'echo "%s" | build/harness/h_parfor-*' % line})
    elif v == 1:
        ctx.broken.append('correspondence D(C13)%s: implementation invocations differ from the model plan on %s: %s' % (tag, line, ch[:40]))


def run(ctx):
    rep = dv.gen(['chunk'])
    if any(rep.values()):
        ctx.broken.append('translator: ' + str(rep)[:500])
    ctx.cov['translator_report'] = rep
    ctx.phase('translate')
    ctx.prove(tie_files=['GenTie/ChunkGenTie.v', 'GenTie/DynGenTie.v'], models=['Model/C12Check.v', 'Model/C13Check.v', 'Base/Corr.v'])
    exe = pf_common.harness_copy(ctx)
    l3 = pf_common.machine_l3(exe)
    ctx.cov['machine_l3_groups'] = l3
    hist = {}
    n = 600 if ctx.quick else 20000
    cases = [WITNESS]
    # start mod g swept systematically on the adaptive and static paths, g in 2..64
    for g in ([2, 3, 8, 64] if ctx.quick else range(2, 65)):
        for r in sorted(set([0, 1, g // 2, g - 1])):
            for mode in ('a', 's'):
                for kn, base in ((4, -1024), (1, 0), (7, 1 << 40)):
                    s = base - base % g + r
                    size = ctx.rng.choice([1000, 200, 37 * g + 5])
                    if s + size <= pf_common.kmax(kn):
                        cases.append({'kn': kn, 's': s, 'e': s + size, 'mode': mode, 'chunk': 0, 'N': ctx.rng.choice([1, 3, 4, 7]),
                                      'maxT': (1 << 31) - 1, 'minItems': 1, 'g': g, 'wait': 1 if mode == 'a' else ctx.rng.choice([0, 1]), 'rdv': 0, 'reuse': 0})
    # 64-bit ranges whose stripe offsets lie beyond 2^32, granularities that are no power of two (an offset aligned through a narrower type
    # stays exact for powers of two and for small ranges): adaptive with wait, where the stripes are laid out
    big64 = [kn for kn in range(8) if pf_common.KINDS[kn][0] == 64]
    for g in ([3, 6, 48] if ctx.quick else [3, 5, 6, 7, 12, 24, 48, 63]):
        for size in ([(1 << 33), (1 << 34) + 12345] if ctx.quick else [(1 << 32) + 5, (1 << 33), (1 << 33) + 12345, 3 * (1 << 32) + 5, (1 << 34) + 1, (1 << 40) + 7, (1 << 52) + 3]):
            for kn in big64:
                for N in ([3, 4] if ctx.quick else [1, 2, 3, 4, 7]):
                    s0 = ctx.rng.choice([0, 1, g - 1] if not pf_common.KINDS[kn][1] else [0, -(1 << 35) + 1, 5])
                    cases.append({'kn': kn, 's': s0, 'e': s0 + size, 'mode': 'a', 'chunk': 0, 'N': N, 'maxT': (1 << 31) - 1, 'minItems': 1, 'g': g,
                                  'wait': 1, 'rdv': 0, 'reuse': 0})
    ctx.cov['big64_stripe_cases'] = len(cases)
    cases += pf_common.gen_pf_cases(ctx, max(0, n - len(cases)), gmin=2, big_pool_every=0 if ctx.quick else 50)
    cases += pf_common.gen_pf_inpool_cases(ctx, 200 if ctx.quick else 3000, gmin=2, modes=('s', 'a'))
    results = pf_common.run_pf_cases(exe, cases)
    verd = pf_common.judge_pf(ctx, 'cases', 'judge_c13', cases, results, l3)
    if verd is None:
        ctx.broken.append('correspondence D(C13): the model no longer evaluates (see coq_eval_errors)')
        return
    distinct = set()
    for i, (c, r, v) in enumerate(zip(cases, results, verd)):
        report(ctx, c, r, v, hist, ' regression witness' if i == 0 else '')
        if r[1] is not None and len(r[1]) > 1 and c['mode'] != 'c':
            distinct.add((c['kn'], c['s'], c['e'], c['mode'], c['N'], c['g'], c['maxT'], c['minItems'], c['wait']))
    ctx.cov['witness_verdict'] = verd[0]
    ctx.cov['evaluations'] += len(cases)
    ctx.cov['distinct_nontrivial'] += len(distinct)
    ctx.cov['rule'] = ('real parallel_for (recording body), granularity 2..64 with start mod g swept (0, 1, g/2, g-1 systematically + random) x static / '
                       'adaptive / explicit chunk x wait 0/1 x 8 index kinds x pool sizes 0..7 x maxThreads x minItemsPerChunk.  Non-trivial = more than '
                       'one invocation and no explicit chunk size (the contract is vacuous with one); distinct = distinct input tuples')
    ctx.cov['verdict_histogram'] = {'agree_and_contract_holds': hist.get(0, 0), 'contract_holds_but_differs_from_model': hist.get(1, 0),
                                    'contract_broken': hist.get(2, 0),
                                    'body_overran(not judged here, see C12)': hist.get(3, 0)}
    ctx.cov['traces_validated_against_impl'] += hist.get(0, 0)
    for i in (0, len(cases) // 2):
        if results[i][1] is not None:
            ctx.sample({'pf': pf_common.pf_line(cases[i]), 'impl_chunks': results[i][1][:12], 'verdict': verd[i]})
    ctx.phase('correspond')
