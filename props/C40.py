"""C40 -- OpResult has optional semantics with balanced lifetimes.   Tie: D (real OpResult<L> + real std::optional<L> vs model, judged in Coq)."""
import dv, pf_common

NV = 4

META = {
    'category': 'proof',
    'technique': 'Coq theorems over an executable Gallina model of OpResult (ptr : option, lifetime ledger Base/Life.v) for all operation sequences '
                 '+ differential run of the real OpResult<L> and the real std::optional<L> with lifetime-tracked payloads against model and specification, judged by vm_compute',
    'text': 'Kernel-checked: for ALL valid operation sequences over any number of OpResult variables (default/value/copy/move construction, copy/move assignment incl. self, '
            'emplace, write through value(), destruction) the variables refine std::optional (identical, except that a moved-from source reads disengaged where std::optional '
            'stays engaged with an unspecified value; exactly equal when no engaged value is moved) [C40_refines_optional, C40_exact_without_engaged_move] and lifetimes are '
            'balanced: no misuse ever, live objects are exactly the contents of engaged variables, and at the end constructions = destructions [C40_opresult_balanced]; together '
            'C40_holds : C40_full_statement.  The model is the code after the fix "destroy the moved-from object before nulling" (the model of the original code refuted the '
            'property; its witnesses are kept as regression facts C40_regression and are replayed first on every run).  The correspondence runs the real class on generated '
            'sequences, compares every intermediate state and counter with the model inside Coq and evaluates the executable property on the implementation output.',
    'note': 'Trusted: Coq kernel; harness/h_opresult.cpp + harness/life.h (address-keyed lifetime registry); hand-written model Model/OpResultModel.v tied differentially only. '
            'No axioms (Print Assumptions: closed).',
}

ASSUMPTIONS = [
    'operation sequences are valid C++ programs: only variables without an object are constructed, only variables with an object are used, value() only on engaged ones',
    'payload type: life::L (int tag; moved-from tag = -1); its special members only report to the ledger, so the order and number of constructor/destructor calls are those of OpResult',
    'std::optional comparison uses libstdc++ (g++ 12, -std=c++17 for this harness only); a moved-from std::optional stays engaged (standard) -- that difference is treated as unspecified, not as a violation',
]

WITNESSES = [
    ['V0:5', 'e0:6', 'X0'],                                # emplace whose constructor throws: the old value is destroyed once, the variable reads disengaged
    ['V0:5', 'F1:0', 'G1:0', 'D1', 'f1:0', 'g1:0', 'X1', 'X0'],   # throwing constructions / assignments leave the source engaged with its value
    ['V0:5', 'V1:6', 'e1:7', 'm1:0', 'e0:8', 'X0', 'X1'],
    ['D0', 'E0:7', 'M1:0', 'X0', 'X1'],                    # regression: former witness of the repaired leak (now 2 constructed, 2 destroyed)
    ['V0:5', 'D1', 'm1:0', 'X0', 'X1'],                    # move assignment
    ['D0', 'E0:7', 'M1:0', 'E0:8', 'X0', 'X1'],            # re-use of the moved-from OpResult
]


# ------------------------------------------------------------------------------------------------ case generation
class Sim:
    """python-side bookkeeping only to generate VALID sequences (scope and engagement as OpResult reports them)"""

    def __init__(self):
        self.v = [None] * NV      # None = no object, 'n' = disengaged, int = engaged
        self.mv = [False] * NV    # reads disengaged only because it was moved from: std::optional still holds a (moved-from) value there

    def options(self, allow_engaged_move, tagsrc):
        out = []
        for i in range(NV):
            if self.v[i] is None:
                out += [('D', i, None), ('V', i, tagsrc()), ('W', i, tagsrc())]
                for j in range(NV):
                    if self.v[j] is not None:
                        out.append(('C', i, j))
                        if allow_engaged_move or self.v[j] == 'n':
                            out.append(('M', i, j))
                        if self.v[j] != 'n':          # the payload constructor throws: nothing is constructed, the source keeps its value
                            out += [('F', i, j), ('G', i, j)]
            else:
                out += [('E', i, tagsrc()), ('X', i, None), ('e', i, tagsrc())]
                if self.v[i] == 'n' and not self.mv[i]:      # disengaged in std::optional too, so that its assignment constructs as well
                    for j in range(NV):
                        if j != i and self.v[j] not in (None, 'n'):
                            out += [('f', i, j), ('g', i, j)]
                if self.v[i] != 'n':
                    out.append(('P', i, tagsrc()))
                for j in range(NV):
                    if self.v[j] is not None:
                        out.append(('c', i, j))
                        if allow_engaged_move or self.v[j] == 'n' or i == j:
                            out.append(('m', i, j))
        return out

    def apply(self, o):
        k, i, a = o
        if k in 'CcMm':
            if i != a:
                src_mv = self.v[a] == 'n' and self.mv[a]
                if k in 'Mm' and self.v[a] != 'n':
                    self.mv[a] = True
                self.mv[i] = src_mv
        elif k in 'DVWEPXe':
            self.mv[i] = False
        if k == 'D':
            self.v[i] = 'n'
        elif k in 'VWEP':
            self.v[i] = a
        elif k in 'Cc':
            self.v[i] = self.v[a]
        elif k in 'Mm':
            if i != a:
                self.v[i] = self.v[a]
                self.v[a] = 'n'
        elif k == 'X':
            self.v[i] = None
        elif k == 'e':          # throwing emplace: the old value is gone, the variable is disengaged
            self.v[i] = 'n'
        # F G f g: the constructor threw before anything changed

    def closing(self):
        return [('X', i, None) for i in range(NV) if self.v[i] is not None]


def tok(o):
    k, i, a = o
    return '%s%d' % (k, i) if a is None else '%s%d:%d' % (k, i, a)


def untok(t):
    k = t[0]
    if ':' in t:
        i, a = t[1:].split(':')
        return (k, int(i), int(a))
    return (k, int(t[1:]), None)


def gen_cases(ctx, n):
    r = ctx.rng
    cases = [[untok(t) for t in w] for w in WITNESSES]
    # exhaustive: every valid sequence of length <= 3 over the first two variables (tags fresh), then destroy all
    def rec(sim_ops, depth):
        sim = Sim()
        cnt = [0]
        for o in sim_ops:
            sim.apply(o)
        if sim_ops:
            cases.append(list(sim_ops) + sim.closing())
        if depth == 0:
            return
        nxt = [10 * (len(sim_ops) + 1)]
        for o in sim.options(True, lambda: nxt[0]):
            if o[1] >= 2 or (o[0] in 'CMcmFGfg' and o[2] >= 2):
                continue
            if o[0] == 'W' and len(sim_ops) > 0:      # lvalue construction differs from V only in the counters: keep the tree small
                continue
            rec(sim_ops + [o], depth - 1)
    rec([], 2 if ctx.quick else 3)
    base = len(cases)
    while len(cases) < base + n:
        sim = Sim()
        allow = r.random() < 0.5
        faults = r.random() < 0.5      # half of the random programs contain throwing payload constructors
        tag = [0]

        def tagsrc():
            tag[0] += 1
            return tag[0] if r.random() < 0.97 else r.choice([0, 2 ** 31 - 1])
        ops = []
        ln = r.choice([3, 5, 8, 12, 20] if ctx.quick else [3, 5, 8, 12, 20, 30, 60])
        for _ in range(ln):
            opts = sim.options(allow, tagsrc)
            # bias towards the interesting operations (copies, moves, assignments on engaged values)
            w = [3 if o[0] in 'CMcm' else 2 if o[0] in 'VWE' else 1 for o in opts]
            if not faults:
                w = [0 if o[0] in 'FGfge' else x for o, x in zip(opts, w)]
            o = r.choices(opts, w)[0]
            ops.append(o)
            sim.apply(o)
        if r.random() < 0.9:
            ops += sim.closing()
        cases.append(ops)
    return cases


# ------------------------------------------------------------------------------------------------ Coq terms
OPCODE = {'D': 0, 'V': 1, 'W': 2, 'C': 3, 'M': 4, 'c': 5, 'm': 6, 'E': 7, 'P': 8, 'X': 9}


def zl(nums):
    return dv.coq_list([dv.zlit(x) for x in nums])


def enc_var(s):
    return -3 if s == 'x' else -2 if s == 'n' else int(s)


def parse_side(txt):
    """'s1|s2|... # nums' -> ([(vars, quad)], [nums], flag)"""
    tr, nums = txt.split('#')
    obs = []
    flag = False
    for st in tr.strip().split('|'):
        vs, q = st.split('/')
        if '!' in vs:
            flag = True
            vs = vs.replace('!', '')
        obs.append((vs.split(','), [int(x) for x in q.split(',')]))
    return obs, [int(x) for x in nums.split()], flag


def coq_case(ops, line):
    """flat encoding, decoded in Coq by judge_c40_flat (Model/C40Check.v)"""
    if line is None or not line.startswith('R '):
        return None
    left, right = line[2:].split(' ; O ')
    ro, rn, rflag = parse_side(left)
    oo, on, _ = parse_side(right)
    fops, fimpl, fopt = [], [], []
    if len(ro) != len(ops) or len(oo) != len(ops):
        return None
    # throwing payload constructors, expressed in the model's own operations (Props/Properties_C40.v, C40_faults_*): a construction /
    # assignment-to-disengaged whose constructor throws changes nothing (model: the no-op self copy-assignment of the source, which only
    # carries the observation); a throwing emplace is ~OpResult followed by OpResult() (old value destroyed, disengaged)
    for (k, i, a), (vs, q), (ovs, _) in zip(ops, ro, oo):
        if k in 'FGfg':
            fops += [OPCODE['c'], a, a]
        elif k == 'e':
            fops += [OPCODE['X'], i, 0, OPCODE['D'], i, 0]
            mid, omid = list(vs), list(ovs)
            mid[i] = 'x'
            omid[i] = 'x'
            fimpl += [enc_var(v) for v in mid] + [q[0], q[3]]
            fopt += [enc_var(v) for v in omid]
        else:
            fops += [OPCODE[k], i, 0 if a is None else a]
        fimpl += [enc_var(v) for v in vs] + [q[0], q[3]]
        fopt += [enc_var(v) for v in ovs]
    return '(%d, %s, %s, %s, %d, %s, %s)' % (NV, zl(fops), zl(fimpl), zl(rn[:14]), 1 if rflag else 0, zl(fopt), zl(on[:14]))


def run(ctx):
    ctx.prove(models=['Model/C40Check.v', 'Base/Corr.v'])
    exe = dv.build_harness('h_opresult', ['h_opresult.cpp'], need_lib=False, extra_flags=['-std=c++17'])
    ctx.phase('build')
    cases = gen_cases(ctx, 350 if ctx.quick else 2500)
    lines = [' '.join(tok(o) for o in ops) for ops in cases]
    outs = pf_common.run_harness(exe, lines)
    terms, kept = [], []
    for ops, ln, o in zip(cases, lines, outs):
        t = coq_case(ops, o)
        if t is None:
            ctx.violation('harness failed on "%s": %s' % (ln, o), {'case': ln, 'output': o, 'cmd': "echo '%s' | %s" % (ln, exe)})
            continue
        terms.append(t)
        kept.append((ops, ln, o))
    ctx.phase('run')
    imports = 'From DV Require Import Base.Corr Base.Life Model.OpResultModel Model.C40Check.'
    hist = {0: 0, 1: 0, 2: 0, 3: 0}
    verdicts = []
    for k, (sh_t, sh_k) in enumerate(zip(pf_common.shard(terms, max(1, (len(terms) + 1499) // 1500)), pf_common.shard(kept, max(1, (len(kept) + 1499) // 1500)))):
        res = pf_common.coq_judge(ctx, 'cases%d' % k, imports, [('judge_c40_flat', sh_t)])
        if res is None:
            ctx.broken.append('correspondence D(C40): the model no longer evaluates (see coq_eval_errors)')
            return
        verdicts += list(zip(res[0], sh_k))
    distinct = set()
    nwit = len(WITNESSES)
    for idx, (v, (ops, ln, o)) in enumerate(verdicts):
        hist[v] += 1
        cmd = "echo '%s' | %s" % (ln, exe)
        if any(x[0] in 'VWEP' for x in ops) and len(ops) >= 3:
            distinct.add(ln)
        if v == 2:
            ctx.violation('OpResult violates C40 (optional semantics broken, or lifetimes unbalanced: live objects != contents of engaged variables / misuse / '
                          'constructions != destructions at the end)%s: "%s" -> %s' % (' [regression witness of the repaired move leak]' if idx < nwit else '', ln, o.split(' ; O ')[0]),
                          {'case': ln, 'output': o, 'cmd': cmd})
        elif v == 1:
            ctx.broken.append('correspondence D(C40): implementation / std::optional differ from model / specification on "%s": %s' % (ln, o))
        elif v == 3:
            ctx.broken.append('driver generated an invalid sequence: ' + ln)
    ctx.cov['evaluations'] += len(verdicts)
    ctx.cov['distinct_nontrivial'] += len(distinct)
    ctx.cov['traces_validated_against_impl'] += hist[0]
    ctx.cov['rule'] = ('3 regression witnesses of the repaired move leak first; every valid sequence of length <= 3 over 2 variables (then destroy all); random sequences of length 3..30 over 4 '
                       'variables, half of them without moves of engaged values (where OpResult = std::optional exactly).  Every intermediate state (engaged?, tag) and the payload ledger '
                       '(live objects, misuses) after every operation and all counters at the end are compared with the model; std::optional<L> is run on the same sequence and '
                       'compared with the specification.  Non-trivial = >= 3 operations with at least one value; distinct = distinct sequences')
    ctx.cov['verdict_histogram'] = {'agree_and_property_holds': hist[0], 'differs_but_property_holds': hist[1], 'property_fails': hist[2], 'invalid_case': hist[3]}
    ctx.cov['ops_total'] = sum(len(ops) for ops, _, _ in kept)
    for ops, ln, o in kept[:1] + kept[len(kept) // 2: len(kept) // 2 + 2]:
        ctx.sample({'ops': ln, 'impl': o[:300]})
    ctx.phase('correspond')
