"""C02 -- task-set wait is a completion barrier.   Tie: T (decision trees) + lockstep L under harness/vsched.h."""
import dv, taskset_common as T

META = {
    'category': 'proof',
    'technique': 'Coq invariants over all interleavings of a step-level model of the task-set layer (one step per atomic access of TaskSetBase; abstract pool = bag) '
                 '+ lockstep replay of generated programs and schedules on the real hooked code under a cooperative scheduler + regenerated decision trees',
    'text': 'Kernel-checked for any number of threads, sets and tasks, all programs over schedule / scheduleBulk (plain, ForceQueuingTag), wait, tryWait, cancel, workers, '
            'throwing and nested bodies, and all interleavings: outstanding(T) = #queued + in-flight contributions (C02_outstanding_counts); every counted task is queued or held by a '
            'contributing frame (C02_ledger_held); hence when a waiter\'s loop-head load / tryWait\'s final load reads 0, nothing of T is queued or in flight and every counted task is Done or '
            'Skipped (C02_wait_is_barrier_partial, C02_trywait_true_sound_partial); destructors = wait. The executable property is also evaluated on the implementation\'s own log '
            '(body start/end stamps vs. wait call/return stamps; no body twice). Partial: futures bound to a set are not operations of the model.',
    'note': T.NOTE,
}
ASSUMPTIONS = T.ASSUME


def run(ctx):
    ctx.level = 'proof'   # partial in one respect: future-bound submissions are not operations of the model (see META)
    exe = T.prove_and_build(ctx, 'C02')

    def on_verdict(v, c, p, o):
        ctx.violation('a completed wait / true tryWait returned while a task of the set scheduled before the call had not finished (or a body ran twice): %s -> %s' % (T.case_line(c)[:300], o[:400]),
                      {'case': T.case_line(c), 'output': o, 'cmd': 'echo "<case>" | build/harness/h_taskset-*'})
    def on_d(v, d, vals, o):
        ctx.violation('a functor submitted to a non-cancelled set was dropped or ran more than once (it must be run by the caller now or exactly once before wait() returns): %s -> %s' % (T.d_line(d), o),
                      {'case': T.d_line(d), 'output': o, 'cmd': 'echo "<case>" | build/harness/h_taskset-*'})
    # probe families first: force-queued bulk children scheduled from a task of the set while another thread polls / waits; callers at the inline-depth cap on overloaded sets
    probes = T.c02_probes() + T.depthcap_probes() + T.exc_barrier_probes()
    ctx.cov['probe_cases'] = len(probes)
    T.lockstep_phase(ctx, exe, 'judge_C02', ['barrier', 'barrier', 'mixed', 'exc', 'cancel'], 70 if ctx.quick else 3000, witnesses=probes, on_verdict=on_verdict)
    T.decision_phase(ctx, exe, 'judge_C02_d', 40 if ctx.quick else 1500, on_verdict=on_d)
