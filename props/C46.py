"""C46 -- inline task execution never grows the stack without bound.   Tie: T (regenerated decision functions) + D (measured nesting on the real code)."""
import dv, ls_common, re

META = {
    'category': 'proof',
    'technique': 'Coq theorems over an executable model of every place where dispenso runs scheduled work inline on the submitting / completing thread '
                 '(programs = trees of tasks with a site per edge; per schedule call an arbitrary load oracle; the inline-vs-queue decisions are the decision '
                 'functions regenerated from thread_pool.h / task_set.h / task_set_impl.h by the translator, the depth guards hand-modelled) + correspondence: '
                 'chains of 10..10^4 links at every site on the real code, on a thread with a small known stack, under forced load (blocker tasks parked on a '
                 'latch) and on an idle pool; the harness counts nested body entries per thread (exact), reads inlineDepth and the stack depth '
                 '(__builtin_frame_address) in every body; the judge (inside Coq) replays the observed decisions through the model, compares nesting count and '
                 'guard counter at both ends of every run-length segment, re-takes the decisions of the deterministic prefix with the regenerated decision '
                 'functions on the sampled loads, and evaluates nesting <= kMaxInlineDepth on the implementation\'s numbers',
    'text': 'C46_depth_bound: for all programs, pools and loads the nesting of inline execution on one thread is at most kMaxInlineDepth (32) + the number of enclosing '
            'inline entries made at sites that never consult canInlineSchedule(). C46_holds_except: programs that use only guarded sites (TaskSet/ConcurrentTaskSet '
            'scheduleBulk standard path, ConcurrentTaskSet::schedule, pipeline serial continuation, graph continuation, on a pool with threads) never nest deeper '
            'than 32, for every load. C46_refuted (+ one witness theorem per site): the bound asked for does not exist -- a chain of n links nests n deep at '
            'ThreadPool::schedule / schedulePlaced / scheduleBulk, TaskSet::schedule, then-chains (ImmediateInvoker, pool), kHeavy ConcurrentTaskSet::scheduleBulk '
            'above the cap (falls through to ThreadPool::scheduleBulkPlaced), and every ForceQueuingTag path on a pool without threads; all reproduced on the real code.',
    'note': 'Trusted: Coq kernel; translator T for the decision functions (group taskset); the hand-modelled guard increments and the sites the translator does not cover '
            '(pool bulk, set bulk with count 1, pipeline, graph, then-chain) are tied by the measurements only; harness/h_inlinedepth.cpp. Print Assumptions: closed.',
}

ASSUMPTIONS = [
    'a queued functor is started from a worker loop or from a top-level wait at inline nesting 0 (nesting THROUGH wait() -- a waiter runs whatever the pool hands it, '
    'which may wait in turn -- is a separate dimension, not a scheduling or completion path: modelled as wait_nest, measured by the harness (site waitnest: linear in the '
    'number of independent waiting tasks for ConcurrentTaskSet::wait) and reported, not judged)',
    'the load oracle is arbitrary per schedule call (no relation between successive loads is assumed); functors do not throw; sets are not cancelled in the measured runs',
    'measured decisions are compared with the decision functions only on the deterministic prefix of a forced-load run (every worker parked in a blocker, one running thread)',
]

IMPORTS = 'From DV Require Import Base.MachInt Gen.GenTaskSet Model.InlineDepthModel Model.C46Check.'
SITES = {'pool': 'SPool', 'poolplaced': 'SPoolPlaced', 'poolbulk': 'SPoolBulk', 'tsk': 'STsk', 'tskbulk': 'STskBulk', 'cts': '(SCts false)', 'ctsh': '(SCts true)',
         'ctsbulk': '(SCtsBulk false)', 'ctshbulk': '(SCtsBulk true)', 'thenimm': 'SThenImm', 'thenpool': 'SThenPool', 'pipe': 'SPipe', 'graph': 'SGraph'}
KEY_POOL = 'pool-schedule-inline-unguarded-depth'
KEY_TSK = 'taskset-schedule-inline-unguarded-depth'
KEY_THEN = 'then-chain-immediate-unbounded-depth'
KEY_BULK = 'cts-heavy-bulk-depth-cap-bypassed'
KEY_ZERO = 'zero-thread-pool-force-inline-unbounded-depth'


def finding_key(site, nt):
    """mirror of site_unguarded (Model/InlineDepthModel.v): which registered finding a case in the domain belongs to"""
    if site in ('pool', 'poolplaced', 'poolbulk', 'thenpool'):
        return KEY_POOL
    if site == 'tsk':
        return KEY_TSK
    if site == 'thenimm':
        return KEY_THEN
    if site == 'ctshbulk':
        return KEY_BULK
    if nt == 0 and site in ('cts', 'ctsh', 'pipe', 'graph'):
        return KEY_ZERO
    return None


def parse(line):
    """harness line -> dict (None if malformed)"""
    if line is None or not line.startswith('chain '):
        return None
    parts = [p.strip() for p in line.split('|')]
    if len(parts) < 5:
        return None
    h = parts[0].split()
    d = {'site': h[1], 'len': int(h[2]), 'N': int(h[3]), 'load': int(h[4])}
    kv = parts[1].split()
    d.update({kv[i]: int(kv[i + 1]) for i in range(0, len(kv), 2)})
    kv = parts[2].split()
    d.update({kv[i]: int(kv[i + 1]) for i in range(0, len(kv), 2)})
    segs = []
    for tok in parts[3].split()[1:]:
        f = [int(x) for x in tok.split(':')]
        if len(f) != 15:
            return None
        segs.append(f)
    d['segs'] = segs
    d['status'] = parts[4].split()[-1]
    return d


def term(d):
    st = {'ok': 0, 'overflow': 1, 'timeout': 2, 'crash': 3}.get(d['status'], 3)
    z = dv.zlit
    b = lambda x: 'true' if x else 'false'
    segs = ['(SG %s %s %s %s %s %s %s %s %s %s %s %s)' % (z(f[0]), z(f[1]), z(f[2]), z(f[3]), z(f[4]), z(f[5]), b(f[6]), z(f[7]), z(f[8]), z(f[9]), z(f[10]), b(f[11]))
            for f in d['segs'][:60]]
    prlf2 = 6 if d['site'] == 'graph' else 3
    return '(K46 (CFG %d %d %d %d %d) %s %d %s %d %d %d %s)' % (d['nt'], d['plf'], d['tlf'], prlf2, d['nt'], SITES[d['site']], d['len'], z(d['det']), st, d['ran'],
                                                              d['maxS'], dv.coq_list(segs))


def gen_cases(ctx):
    q = ctx.quick
    r = ctx.rng
    cases = []
    # deterministic witnesses of the findings first (forced load, 1-thread pool, 1 MB stack)
    for s in ('pool', 'tsk', 'thenimm', 'ctshbulk', 'poolplaced', 'poolbulk', 'thenpool'):
        cases.append((s, 1000, 1, 1, 4096 if s.startswith('then') else 1024))
    cases.append(('cts', 600, 0, 0, 1024))
    cases.append(('ctsh', 600, 0, 0, 1024))
    cases.append(('pool', 10000, 1, 1, 16384))        # the full 10^4 nesting fits a 16 MB stack
    cases.append(('pool', 10000, 1, 1, 1024))         # ... and is stopped by the bodies on a 1 MB stack
    sched = ['pool', 'poolplaced', 'poolbulk', 'tsk', 'tskbulk', 'cts', 'ctsh', 'ctsbulk', 'ctshbulk']
    for s in sched + ['thenimm', 'thenpool', 'graph']:
        big = 4096 if s.startswith('then') else 1024
        for ln in (10, 100, 1000) + (() if q else (3000,)):
            cases.append((s, ln, r.choice([1, 2, 4]), 1, big))
        cases.append((s, 10000, r.choice([1, 2]), 1, big))
        for N in (0, 1, 2) if q else (0, 1, 2, 4):
            if s.startswith('then') and N == 0:
                continue
            cases.append((s, r.choice([10, 33, 100, 400]), N, 0, big))
    for ln, N in ((64, 1), (200, 1), (1000, 2)) + (() if q else ((5000, 1), (10000, 2), (3000, 4))):
        cases.append(('pipe', ln, N, 0, 1024))
    reps = 10 if q else 400
    for _ in range(reps):
        s = r.choice(sched + ['thenimm', 'thenpool', 'graph', 'graph'])
        N = r.choice([0, 1, 1, 2, 3, 4])
        load = r.choice([0, 1, 1])
        if s.startswith('then') and N == 0:
            N = 1
        ln = r.choice([r.randint(1, 40), r.randint(30, 70), r.randint(100, 2000)])
        cases.append((s, ln, N, load if N > 0 else 0, 4096 if s.startswith('then') else 1024))
    return cases


def run(ctx):
    rep = dv.gen(['taskset'])
    errs = rep.get('taskset', rep.get('_crash', ['translator crashed']))
    if errs:
        ctx.broken.append('translator T(taskset): ' + '; '.join(errs)[:400])
    ctx.prove(models=['Model/C46Check.v'])
    exe = dv.build_harness('h_inlinedepth', ['h_inlinedepth.cpp'])
    ctx.phase('build')
    cases = gen_cases(ctx)
    lines = ['chain %s %d %d %d %d' % c for c in cases]
    wn = ['chain waitnest %d %d 0 1024' % (n, N) for n, N in ((50, 1), (300, 1), (300, 2))]
    outs = ls_common.run_cases(exe, lines + wn, jobs=6)
    ctx.phase('run')
    wouts = outs[len(lines):]
    outs = outs[:len(lines)]
    kept, terms = [], []
    for line, o in zip(lines, outs):
        d = parse(o)
        if d is None:
            ctx.broken.append('harness output unreadable for "%s": %s' % (line, str(o)[:200]))
            continue
        kept.append((line, d, o))
        terms.append(term(d))
    verdicts = ls_common.judge_parallel(ctx, IMPORTS, 'judge46', terms, shard_size=30, jobs=8)
    if verdicts is None:
        ctx.broken.append('correspondence D(C46): the model no longer evaluates (see coq_eval_errors)')
        return
    hist = {'agree_and_bounded': 0, 'agree_and_unbounded_in_known_domain': 0, 'model_differs': 0, 'property_fails_outside_domain': 0}
    bysite, perlink, distinct = {}, {}, set()
    for (line, d, o), v in zip(kept, verdicts):
        p, m = v % 10, v // 10
        s = bysite.setdefault(d['site'], {'cases': 0, 'max_nesting': 0, 'max_inlineDepth': 0})
        s['cases'] += 1
        s['max_nesting'] = max(s['max_nesting'], d['maxS'])
        s['max_inlineDepth'] = max(s['max_inlineDepth'], d['maxG'])
        for f in d['segs']:
            if f[0] in (1, 3) and f[1] > 1 and f[12] > 0:
                perlink[d['site']] = f[12]
        if d['len'] >= 3:
            distinct.add(line)
        short = '%s -> maxS %d maxG %d ran %d status %s segs %s' % (line, d['maxS'], d['maxG'], d['ran'], d['status'], d['segs'][:3])
        if m:
            hist['model_differs'] += 1
            ctx.broken.append('correspondence D(C46): nesting / guard counter / decision predicted by the model differs from the implementation: ' + short[:400])
        if p == 2:
            hist['property_fails_outside_domain'] += 1
            ctx.violation('inline nesting above kMaxInlineDepth at a guarded site (or the run did not survive): ' + short[:400],
                          {'case': line, 'output': o[:2000], 'cmd': 'echo "%s" | build/harness/h_inlinedepth-*' % line})
        elif p == 4:
            key = finding_key(d['site'], d['nt'])
            if not m:
                hist['agree_and_unbounded_in_known_domain'] += 1
            ctx.violation('inline nesting grows with the chain length (no depth test at this site): ' + short[:400],
                          {'finding_key': key, 'case': line, 'output': o[:2000], 'cmd': 'echo "%s" | build/harness/h_inlinedepth-*' % line})
        elif not m:
            hist['agree_and_bounded'] += 1
    ctx.cov['evaluations'] += len(kept)
    ctx.cov['distinct_nontrivial'] += len(distinct)
    ctx.cov['rule'] = ('chain programs of 1..10^4 links at 13 sites (ThreadPool schedule/schedulePlaced/scheduleBulk, TaskSet schedule/scheduleBulk, ConcurrentTaskSet '
                       'schedule/scheduleBulk light and heavy, then-chains through ImmediateInvoker and through the pool, pipeline serial stage, graph comb), pools of 0..4 '
                       'threads, forced load (poolLoadFactor+8 blockers parked on a latch) and idle; driver thread stack 1-16 MB.  Non-trivial = at least 3 links; '
                       'distinct = distinct (site, length, pool, load, stack)')
    ctx.cov['verdict_histogram'] = hist
    ctx.cov['by_site'] = bysite
    ctx.cov['stack_bytes_per_nested_link'] = perlink
    ctx.cov['traces_validated_against_impl'] += hist['agree_and_bounded'] + hist['agree_and_unbounded_in_known_domain']
    wobs = []
    for o in wouts:
        d = parse(o)
        if d:
            wobs.append({'independent_waiting_tasks': d['len'], 'pool': d['N'], 'max_nesting_through_wait': d['maxW'], 'maxbytes': d['maxbytes']})
    ctx.cov['wait_nesting_observed(not C46)'] = wobs
    if kept:
        ctx.sample({'case': kept[0][0], 'impl': kept[0][2][:300], 'verdict': verdicts[0]})
        mid = len(kept) // 2
        ctx.sample({'case': kept[mid][0], 'impl': kept[mid][2][:300], 'verdict': verdicts[mid]})
    ctx.phase('correspond')
