"""C19 -- Future continuations and combinators respect readiness.   Tie: lockstep (L) under harness/vsched.h + history-level runs of when_all / when_any."""
import dv, ls_common, fut_common as fc, C18

META = {
    'category': 'proof',
    'technique': 'Coq inductive invariants over all interleavings of (1) the step-level FutureImplBase model shared with C18 (then-chain push CAS / drain CAS-to-null / '
                 'post-push Ready re-check, task-set counter; spurious CAS failures as oracle) and (2) a protocol-level model of when_all / when_any; '
                 'lockstep replay of then() registrations before/during/after completion on the real hooked code + history-level runs of the real combinators under the cooperative scheduler',
    'text': 'Kernel-checked (Props/Properties_C19.v): C19_then_runs_once_after_ready (no dispatch with status<>Ready; per-link conservation dispatches+chain+pending = registrations; '
            'Ready & chain non-empty => some thread is committed to drain it; at quiescence Ready => chain empty and every registered link dispatched exactly as often as registered; '
            'not Ready => nothing dispatched), C19_taskset_wait_implies_ready (counter 0 => status Ready), C19_when_all_ready_after_all_partial, C19_when_any_index_ready_partial '
            '(protocol model with the then-interface of part 1 as guard; C19_combinators_by_refinement states the remaining composition obligation). '
            'Tie part 1: same lockstep as C18 with then() ops (recording schedulable), compared step by step with the model in Coq, and the executable property '
            '(each continuation dispatched <= 1, never early, ran exactly as often as dispatched and saw its antecedent ready, dispatched iff the functor ran; task-set waits saw ready). '
            'Tie part 2: real when_all/when_any (iterator and tuple variants, empty inputs, task-set interception variant) with inputs completed / combinator created / result fetched by '
            'enrolled threads under random schedules; acceptance on results (no unready input at get() return, size, input order, index < n and ready, SIZE_MAX iff empty).',
    'note': 'Trusted: Coq kernel; futex semantics; harness/vsched.h; SC interleaving of atomics; Linux CompletionEventImpl. No axioms. '
            'Side observation (recorded, not alarmed): ThenChain::scheduleDestroyAndGetNext frees its 32-byte link with deallocSmallBuffer<nextPow2(sizeof(this))> = the 8-byte class '
            '(sizeof(this) is the size of a pointer; the link was allocated with nextPow2(sizeof(ThenChain)) = 32): a size-class mismatch that does not affect C19 (the block stays exclusive) and belongs to C41/C11.',
}
ASSUMPTIONS = list(C18.ASSUMPTIONS) + [
    'when_all / when_any: protocol-level model; inputs are abstracted to "becomes Ready" + "continuation enabled once, after Ready" (the interface proved in C19_then_runs_once_after_ready); '
    'the product of n step-level futures with the combinator is not built (theorems named _partial; C19_combinators_by_refinement is the missing obligation)',
    'when_all_order (result holds the inputs in input order) is by construction (result = std::move(shared->vec / tuple)) and checked at history level only',
    'combinator runs are history-level (results only, traces not compared); runs that end by budget are inconclusive, not violations',
    'TaskSet / ConcurrentTaskSet variants are exercised through detail::TaskSetInterceptionInvoker<FakeTS> (the same code path minus the pool); real pools are out of scope here',
]


def side_observation(ctx):
    """record (never alarm on) the sizeof(this) size-class mismatch in ThenChain::scheduleDestroyAndGetNext"""
    import os, re
    try:
        src = open(os.path.join(dv.REPO, 'dispenso/detail/future_impl.h')).read()
        m = re.search(r'scheduleDestroyAndGetNext\(\) \{(.*?)\n    \}', src, flags=re.S)
        body = m.group(1) if m else ''
        present = 'nextPow2(sizeof(this))' in body and 'nextPow2(sizeof(ThenChain))' in src
        ctx.cov['side_observations'] = [{
            'what': 'ThenChain::scheduleDestroyAndGetNext: deallocSmallBuffer<nextPow2(sizeof(this))> (8-byte class) frees a link allocated with '
                    'allocSmallBuffer<nextPow2(sizeof(ThenChain))> (32-byte class)',
            'present_in_tree': bool(present), 'affects_C19': False, 'belongs_to': 'C41/C11'}]
    except Exception as e:
        ctx.cov['side_observations'] = [{'what': 'sizeof(this) probe failed: %r' % (e,)}]


CTAGS = {'wall': 11, 'wsize': 12, 'worder': 13, 'wany': 14, 'wanyr': 15, 'tswait': 9}


def gen_comb(r):
    kind = r.choice(['wa', 'wy'])
    tup = 1 if r.random() < 0.3 else 0
    n = 3 if tup else r.choice([0, 1, 2, 2, 3, 3, 4])
    ts = 1 if r.random() < 0.3 else 0
    pre = 1 if r.random() < 0.4 else 0
    nt = r.choice([2, 3, 3, 4])
    progs = [[] for _ in range(nt)]
    for i in range(n):
        if r.random() < (0.9 if kind == 'wa' else 0.7):
            progs[r.randrange(nt)].append('K%d' % i)
    for p in progs:
        r.shuffle(p)
    for _ in range(r.choice([1, 1, 2])):
        p = progs[r.randrange(nt)]; p.insert(r.randint(0, len(p)), 'G')
    if ts:
        p = progs[r.randrange(nt)]; p.insert(r.randint(0, len(p)), 'S')
    if not pre:
        # the creating thread must not wait for its own creation
        t = r.randrange(nt); p = progs[t]
        k = min([j for j, o in enumerate(p) if o in ('G', 'S')] + [len(p)])
        p.insert(r.randint(0, k), 'A')
    sched = [r.randrange(0, 100) for _ in range(60)]
    return {'kind': kind, 'tup': tup, 'ts': ts, 'pre': pre, 'n': n, 'progs': progs, 'sched': sched}


def comb_line(c):
    return '%s %d %d %d %d 0 400 ; %s ; S %s' % (c['kind'], c['tup'], c['ts'], c['pre'], c['n'], ' ; '.join(' '.join(p) if p else 'N' for p in c['progs']),
                                                 ' '.join(map(str, c['sched'])))


def run_comb(ctx, exe):
    """when_all / when_any on the real code under random schedules: history-level acceptance (results only)"""
    r = ctx.rng
    n = 80 if ctx.quick else 2500
    cases = [gen_comb(r) for _ in range(n)]
    outs = ls_common.run_cases(exe, [comb_line(c) for c in cases])
    terms, kept = [], []
    for c, o in zip(cases, outs):
        parts = [x.strip() for x in (o or '').split('|')]
        if len(parts) < 5 or not parts[0].startswith('steps'):
            ctx.broken.append('harness output unreadable for %s: %s' % (comb_line(c)[:200], (o or '')[:200]))
            continue
        res = []
        for tok in parts[1].split()[1:]:
            t, kv = tok.split(':', 1); k, v = kv.split('=')
            res.append((CTAGS[k], int(v)))
        infc = [int(x) for x in parts[3].split()[1:]]
        status = {'done': 0, 'deadlock': 1, 'budget': 2}.get(parts[-1].split()[-1], 9)
        terms.append('(CC %s %d %s %s %d)' % (fc.b(c['kind'] == 'wy'), c['n'], ls_common.zpairs(res), dv.coq_list([str(x) for x in infc]), status))
        kept.append((c, o, status, len(res)))
    ctx.cov['evaluations'] += len(cases)
    verdicts = ls_common.judge_parallel(ctx, fc.IMPORTS + '\nFrom DV Require Import Model.C19Check.', 'judge_comb', terms, shard_size=200)
    if verdicts is None:
        ctx.broken.append('correspondence H(C19 combinators): the judge no longer evaluates')
        return
    bad = 0
    for v, (c, o, st, nres) in zip(verdicts, kept):
        if v != 0:
            bad += 1
            ctx.violation('C19 (when_all/when_any) fails on the implementation: %s -> %s' % (comb_line(c)[:200], o[-300:]),
                          {'case': comb_line(c), 'output': o, 'cmd': 'echo "<case>" | build/harness/h_future-*'})
        if st == 1:
            ctx.broken.append('C19 combinators: deadlock under vsched on %s -> %s' % (comb_line(c)[:200], o[-200:]))
    ctx.cov['comb'] = {'cases': len(kept), 'property_fails': bad, 'done': sum(1 for k in kept if k[2] == 0), 'budget': sum(1 for k in kept if k[2] == 2),
                       'with_results': sum(1 for k in kept if k[3] > 0), 'when_all': sum(1 for k in kept if k[0]['kind'] == 'wa'),
                       'tuple': sum(1 for k in kept if k[0]['tup']), 'taskset': sum(1 for k in kept if k[0]['ts']), 'pre_registered': sum(1 for k in kept if k[0]['pre'])}
    ctx.cov['distinct_nontrivial'] += len(set(o for c, o, st, nres in kept if nres > 0))
    ctx.sample({'case': comb_line(cases[0])[:200], 'impl': outs[0][-300:]})
    ctx.phase('combinators')


def run(ctx):
    C18.run(ctx, judge='judge_c19', imports=fc.IMPORTS + '\nFrom DV Require Import Model.C19Check.', p_then=0.45, check='Model/C19Check.v')
    exe = dv.build_harness('h_future', ['h_future.cpp'])
    run_comb(ctx, exe)
    side_observation(ctx)
