"""C20 -- timed waits: ready means done, timeout means time elapsed; deferred policy.  Tie: lockstep (L) + native one-sided timing (D)."""
import dv, ls_common, C21

META = {
    'category': 'proof',
    'technique': 'Coq theorems over the step-level event model plus an abstract clock layer; lockstep replay of timed-wait schedules (timeouts injected by the scheduler) on the real code; native one-sided wall-clock bracketing',
    'text': 'Kernel-checked: (1) in the step-level model of CompletionEventImpl::waitFor/waitUntil a "true" result is produced only by a load that read the completed value '
            '(any threads, any schedule); (2) in the clocked refinement (timed futex wait may expire only when now - start >= requested: kernel contract) every "false" result has '
            'requested <= 0 or elapsed-since-call >= requested, for all programs, interleavings and clock advances; (3) the clocked system refines the untimed one; (4) Future timed '
            'waits run the functor inline iff deferred and not started.  Tie: the untimed model is replayed in lockstep on the real classes with scheduler-injected timeouts and '
            'notification races; native runs bracket waitFor/waitUntil/wait_for/wait_until with steady_clock (one-sided: a timeout report earlier than requested, or a ready report '
            'without completion, is a violation) and check the deferred / non-deferred rule with the only pool worker parked.',
    'note': 'Trusted: Coq kernel; futex/kernel timer contract (no early expiry, CLOCK_MONOTONIC); the double->timespec conversion is modelled on integer ns (floating-point truncation < 1 ns not modelled); harness/vsched.h, harness/h_timed.cpp; SC atomics. No axioms.',
}
ASSUMPTIONS = ['kernel: a relative futex timeout never expires early (measured against CLOCK_MONOTONIC = std::chrono::steady_clock)',
               'double seconds -> timespec truncation error (< 1 ns) is outside the model']


def gen_timed_case(r):
    nt = r.choice([2, 3, 3, 4])
    progs = []
    for t in range(nt):
        p = []
        for _ in range(r.randint(1, 3)):
            x = r.random()
            if x < 0.55: p.append(('F', r.choice([1, 1, 1, 2]), r.random() < 0.8))
            elif x < 0.7: p.append(('N', r.choice([1, 1, 2])))     # 3-state use (Future: 0 -> 1 -> 2): a waiter for 2 must not take 1 for completion, nor vice versa
            elif x < 0.85: p.append(('W', 1))
            else: p.append(('P',))
        progs.append(p)
    if r.random() < 0.7 and not any(o[0] == 'N' for p in progs for o in p):
        progs[r.randrange(nt)].append(('N', 1))
    budget = 60
    return {'mode': 'ev', 'w0': r.choice([0, 0, 0, 1]), 'tmo': 1, 'budget': budget, 'progs': progs,
            'sched': [r.randrange(0, 100) for _ in range(budget + 12)]}


def run(ctx):
    ctx.prove(models=['Model/C21Check.v', 'Model/C20Check.v'])
    exe = dv.build_harness('h_event', ['h_event.cpp'], need_lib=False)
    exe2 = dv.build_harness('h_timed', ['h_timed.cpp'])
    ctx.phase('build')
    r = ctx.rng
    # ---- lockstep with scheduler-injected timeouts
    n = 250 if ctx.quick else 6000
    cases = [gen_timed_case(r) for _ in range(n)]
    outs = ls_common.run_cases(exe, [C21.line_of(c) for c in cases])
    terms, kept, distinct = [], [], set()
    ntimeouts = 0
    for c, o in zip(cases, outs):
        p = ls_common.parse_vsched(o, C21.SITES, C21.TAGS)
        if p is None or 'error' in p:
            ctx.broken.append('lockstep harness output unreadable: %s' % (o or '')[:200])
            continue
        terms.append(C21.term_of(c, p))
        kept.append((c, p, o))
        if any(s == 6 for _, s in p['steps']):
            ntimeouts += 1
        distinct.add(o.split('| status')[0])
    verdicts = ls_common.judge_parallel(ctx, 'From DV Require Import Base.Sched Model.EventModel Model.C21Check.', 'judge_event', terms)
    if verdicts is None:
        ctx.broken.append('correspondence L(C20): the model no longer evaluates')
        verdicts = []
    hist = {}
    for v, (c, p, o) in zip(verdicts, kept):
        hist[v] = hist.get(v, 0) + 1
        if v in (2, 4):
            ctx.violation('lost wake-up, or a wait that reported completion on a word other than its target, in a timed-wait program: %s -> %s' % (C21.line_of(c)[:200], o[:300]), {'case': C21.line_of(c), 'output': o})
        elif v == 1:
            ctx.broken.append('correspondence L(C20): real trace differs from the model on ' + C21.line_of(c)[:160] + ' -> ' + o[:200])
    ctx.cov['lockstep'] = {'cases': len(cases), 'agree': hist.get(0, 0), 'with_injected_timeout': ntimeouts}
    ctx.cov['traces_validated_against_impl'] += hist.get(0, 0)
    ctx.phase('lockstep')
    # ---- native one-sided timing
    reqs = [-1000000, -1, 0, 1, 1000, 50000, 300000, 3000000] + ([20000000] if not ctx.quick else [])
    lines = []
    reps = 3 if ctx.quick else 20
    for _ in range(reps):
        for q in reqs:
            for nf in (0, 1, 2):
                lines.append('wf %d %d' % (q, nf))
                lines.append('wu %d %d' % (q, nf))
        for d in (0, 1):
            for q in (0, 1000, 200000):
                for u in (0, 1):
                    lines.append('fut %d %d %d' % (d, q, u))
    rc, out = dv.sh([exe2], inp='\n'.join(lines) + '\n', timeout=600)
    got = [l for l in out.split('\n') if l.strip()]
    wf_terms, wf_cases, fut_terms, fut_cases = [], [], [], []
    for l, o in zip(lines, got):
        a, t = l.split(), o.split()
        if a[0] in ('wf', 'wu') and t[0] == a[0]:
            wf_terms.append('(%s, %s, %s, %s)' % (dv.zlit(int(a[1])), 'true' if t[1] == '1' else 'false', t[2], 'true' if t[3] == '1' else 'false'))
            wf_cases.append((l, o))
        elif a[0] == 'fut' and t[0] == 'fut':
            fut_terms.append('(%s, %s, %s, %s, %s, %s)' % ('true' if a[1] == '1' else 'false', 'true' if t[1] == '1' else 'false', t[2],
                                                          'true' if t[3] == '1' else 'false', 'true' if t[5] == '1' else 'false', t[6]))
            fut_cases.append((l, o))
        else:
            ctx.broken.append('native timing harness output unreadable: %s -> %s' % (l, o))
    if len(got) < len(lines):
        ctx.broken.append('native timing harness stopped early (rc=%d): %s' % (rc, out[-300:]))
    import pf_common
    res = pf_common.coq_judge(ctx, 'native', 'From DV Require Import Model.TimedModel Model.C20Check.', [('judge_wf', wf_terms), ('judge_fut', fut_terms)])
    if res is None:
        ctx.broken.append('correspondence D(C20): judges no longer evaluate')
    else:
        for v, (l, o) in zip(res[0], wf_cases):
            if v == 2:
                ctx.violation('timed wait reported a timeout before the requested time elapsed, or completion without completion: %s -> %s' % (l, o), {'case': l, 'output': o, 'cmd': 'echo "%s" | build/harness/h_timed-*' % l})
        for v, (l, o) in zip(res[1], fut_cases):
            if v == 2:
                ctx.violation('Future timed wait broke the deferred-policy rule (fut <deferred> <req_ns> <until>): %s -> %s' % (l, o), {'case': l, 'output': o})
            elif v == 1:
                ctx.broken.append('correspondence D(C20): Future timed wait differs from the model: %s -> %s' % (l, o))
        ctx.cov['native'] = {'timed_wait_cases': len(wf_cases), 'future_cases': len(fut_cases),
                             'timeouts_reported': sum(1 for l, o in wf_cases if o.split()[1] == '0')}
    ctx.cov['evaluations'] += len(cases) + len(lines)
    ctx.cov['distinct_nontrivial'] += len(distinct) + len(set(lines))
    ctx.cov['rule'] = ('lockstep: random CompletionEvent programs dominated by waitFor ops, timeouts enabled (scheduler decides when a timed futex wait expires), 2-4 threads; '
                       'native: waitFor/waitUntil x requests {negative, 0, 1 ns, 1 us, 50 us, 0.3 ms, 3 ms} x {never notified, notified before, notified concurrently}, '
                       'Future wait_for/wait_until x {deferred, not deferred} with the functor provably not started.  distinct = distinct traces / distinct native inputs')
    ctx.sample({'lockstep_case': C21.line_of(cases[0])[:160], 'impl': outs[0][:300]})
    ctx.sample({'native': list(zip(lines[:4], got[:4]))})
    ctx.phase('native')
