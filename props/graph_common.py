"""Shared case generation / harness driving / Coq judging for the task-graph properties (C30, C31).

A case is one line for harness/h_graph.cpp (see its header for the op language).  The generator keeps a small
python-side picture of the structure (live nodes per subgraph, a hidden rank that keeps the edges acyclic, the
biPropSet_ pointers) only in order to emit VALID programs; every expectation is computed by the Gallina model inside Coq
(Model/C30Check.v: judge_graph)."""
import dv, re

K = (1 << 64) - 1
DANGLING = 999999


def harness():
    return dv.build_harness('h_graph', ['h_graph.cpp'])


class Gen:
    """emits a valid op sequence"""

    def __init__(self, r, bip, max_nodes):
        self.r, self.bip, self.max_nodes = r, bip, max_nodes
        self.ops = []
        self.subs = [[]]
        self.rank = {}
        self.next = 1
        self.setof = {}
        self.sets = {}
        self.nextset = 1
        self.edges = 0
        self.stale = False

    def live(self):
        return [n for s in self.subs for n in s]

    def add_sub(self):
        self.ops.append('s')
        self.subs.append([])

    def add_node(self, sg):
        n = self.next
        self.next += 1
        self.subs[sg].append(n)
        self.rank[n] = self.r.random()
        self.ops.append('n %d' % sg)
        return n

    def dep(self, a, b, bi=False):
        """a depends on b (b -> a)"""
        self.edges += 1
        if bi and self.bip:
            self.ops.append('b %d %d' % (a, b))
            sa, sb = self.setof.get(a), self.setof.get(b)
            if sa is None and sb is None:
                s = self.nextset
                self.nextset += 1
                self.sets[s] = {a, b}
                self.setof[a] = self.setof[b] = s
            elif sa is not None and sb is not None:
                if sa != sb and len(self.sets[sb]) > 1:
                    self.stale = True
                self.sets[sa] |= self.sets[sb]
                self.setof[b] = sa
            elif sa is None:
                self.setof[a] = sb
                self.sets[sb].add(a)
            else:
                self.setof[b] = sa
                self.sets[sa].add(b)
        else:
            self.ops.append('d %d %d' % (a, b))

    def can_clear(self, sg):
        """clearing must not leave a destroyed node inside a set object that a surviving node still points to
        (possible after the stale merge: use of a destroyed node = undefined behaviour, not replayable)"""
        dead = set(self.subs[sg])
        for n in dead:
            for s, mem in self.sets.items():
                if n in mem and self.setof.get(n) != s and any(self.setof.get(m) == s for m in self.live() if m not in dead):
                    return False
        return True

    def clear(self, sg):
        dead = set(self.subs[sg])
        for n in dead:
            s = self.setof.pop(n, None)
            if s is not None:
                self.sets[s].discard(n)
            for mem in self.sets.values():
                mem.discard(n)
        self.subs[sg] = []
        self.ops.append('c %d' % sg)

    def random_edges(self, nodes, others, density, dup, bi):
        """edges into/out of `nodes` (new nodes) from nodes+others respecting the hidden rank"""
        r = self.r
        allv = list(nodes) + list(others)
        if len(allv) < 2:
            return
        k = int(density * len(nodes)) + r.randint(0, 2)
        hubs = r.sample(allv, min(len(allv), r.choice([0, 1, 2])))
        for _ in range(k):
            a = r.choice(nodes)
            b = r.choice(hubs) if hubs and r.random() < 0.3 else r.choice(allv)
            if a == b:
                continue
            if self.rank[a] < self.rank[b]:
                a, b = b, a
            self.dep(a, b, bi=r.random() < bi)       # b -> a, rank b < rank a
            if r.random() < dup:
                self.dep(a, b)

    def execute(self, e=None, t=None):
        r = self.r
        e = r.randint(0, 3) if e is None else e
        t = r.randint(1, 4) if t is None else t
        self.ops.append('x %d %d' % (e, t))

    def line(self):
        return ('B ' if self.bip else 'N ') + ' '.join(self.ops)


def gen_case(r, mode, max_nodes=60):
    """mode 'exec' : emphasis on executors / clear+rebuild (C30);  'partial': emphasis on marking + ForwardPropagator (C31)"""
    bip = r.random() < (0.5 if mode == 'exec' else 0.65)
    g = Gen(r, bip, max_nodes)
    nsub = r.choice([1, 1, 2, 3, 4])
    for _ in range(nsub - 1):
        g.add_sub()
    size = r.choice([1, 2, 3, 5, 8, 12, 20, 30, 45, max_nodes]) if r.random() < 0.7 else r.randint(1, max_nodes)
    nodes = [g.add_node(r.randrange(nsub)) for _ in range(size)]
    density = r.choice([0.0, 0.5, 1.0, 1.5, 2.5, 4.0])
    bi = r.choice([0.0, 0.15, 0.4]) if bip else 0.0
    g.random_edges(nodes, [], density, dup=0.03, bi=bi)
    g.ops.append('S')
    if r.random() < 0.3:
        g.ops.append(r.choice(['M', 'm']))
    if r.random() < (0.2 if mode == 'exec' else 0.03):
        g.execute()                       # fresh graph executed directly (finding domain when there are edges)
    g.ops.append('A')
    g.execute()
    rounds = r.randint(0, 3) if mode == 'exec' else r.randint(1, 4)
    for _ in range(rounds):
        what = r.random()
        if mode == 'partial' or what < 0.35:
            live = g.live()
            if not live:
                continue
            k = r.choice([1, 1, 2, 3, max(1, len(live) // 4)])
            for a in r.sample(live, min(k, len(live))):
                g.ops.append('i %d' % a)
            g.ops.append('P')
            if r.random() < 0.5:
                g.ops.append('S')
            g.execute()
        elif what < 0.8 and nsub > 1:
            sg = r.randrange(nsub)
            if not g.can_clear(sg):
                continue
            if r.random() < 0.3:
                g.ops.append(r.choice(['M', 'm']))
            g.clear(sg)
            g.ops.append('S')
            others = g.live()
            room = max_nodes - len(others)
            new = [g.add_node(sg) for _ in range(r.randint(0, max(0, min(room, 12))))]
            if new:
                g.random_edges(new, others, r.choice([0.5, 1.0, 2.0]), dup=0.03, bi=bi)
            prep = r.random()
            if prep < 0.7:
                g.ops.append('A')
            elif prep < 0.9:
                g.ops.append('P')          # new nodes are incomplete with counter 0: propagate from them
            # else: executed without preparation (finding domain)
            if r.random() < 0.5:
                g.ops.append('S')
            g.execute()
        else:
            g.ops.append('A')
            g.execute()
    if mode == 'exec' and r.random() < 0.35 and g.live():
        # the single-thread executor object of the case is reused after a run that a throwing node aborted
        g.ops.append('A')
        g.ops.append('E %d' % r.choice(g.live()))
        g.execute(e=0, t=1)
    if mode == 'exec' and r.random() < 0.35 and g.live():
        # the parallel executor objects of the case are reused after a run that a throwing node aborted (exception via the task set)
        e = r.randint(1, 3)
        g.ops.append('A')
        g.ops.append('F %d %d %d' % (e, r.randint(1, 4), r.choice(g.live())))
        g.execute(e=e)
    if r.random() < 0.3:
        g.ops.append('S')
    return g.line()


# ------------------------------------------------------------------------------------------------ parsing / Coq emission

def u64(v):
    return v % (1 << 64)


def P(i):
    """positive literal (Model/GraphLits.v names the small ones: an identifier is much cheaper for coqc than a numeral)"""
    i = int(i)
    return 'p%d' % i if 1 <= i <= 1000 else '%d%%positive' % i


def Z(v):
    return 'z%d' % v if 0 <= v <= 1000 else '(%d)%%Z' % v


def NAT(v):
    v = int(v)
    return 'n%d' % v if 0 <= v <= 16 else '%d%%nat' % v


def plist(ids):
    return '[' + ';'.join(P(i) for i in ids) + ']'


def parse_output(line):
    """-> list of segments: ('X', e, t, recs, None) / ('C', cnts) / ('G', subs) ; None when the harness output is unusable"""
    if line is None or line.startswith(('CRASH', 'OVERRUN', 'BAD', 'EMPTY')):
        return None
    segs = []
    for part in line.split(' | '):
        t = part.split()
        if not t:
            return None
        if t[0] == 'X':
            recs = [tuple(int(v) for v in x.split(':')) for x in t[3:]]
            segs.append(('X', int(t[1]), int(t[2]), recs))
        elif t[0] == 'C':
            segs.append(('C', [tuple(int(v) for v in x.split(':')) for x in t[1:]]))
        elif t[0] == 'G':
            subs = [[]]
            for x in t[1:]:
                if x == '/':
                    subs.append([])
                    continue
                f = x.split(':')
                mem = [] if f[3] == '-' else [int(v) or DANGLING for v in f[3].split('.')]
                deps = [] if f[4] == '-' else [int(v) or DANGLING for v in f[4].split('.')]
                subs[-1].append((int(f[0]), u64(int(f[1])), u64(int(f[2])), sorted(mem), deps))
            segs.append(('G', subs))
        else:
            return None
    return segs


def coq_case(line, out):
    """Gallina term (bool * list iop) for one case with the implementation's output attached; None if unparsable"""
    segs = parse_output(out)
    if segs is None:
        return None
    t = line.split()
    bip = t[0] == 'B'
    i = 1
    si = 0
    ops = []
    try:
        while i < len(t):
            o = t[i]
            if o == 's':
                ops.append('IOp OSub'); i += 1
            elif o == 'n':
                ops.append('IOp (ONode %s)' % NAT(t[i + 1])); i += 2
            elif o == 'd':
                ops.append('IOp (ODep %s %s)' % (P(t[i + 1]), P(t[i + 2]))); i += 3
            elif o == 'b':
                ops.append('IOp (OBip %s %s)' % (P(t[i + 1]), P(t[i + 2]))); i += 3
            elif o == 'c':
                ops.append('IOp (OClear %s)' % NAT(t[i + 1])); i += 2
            elif o == 'A':
                ops.append('IOp OSetAll'); i += 1
            elif o == 'E':      # aborted run (node t[i+1] throws) of the reused single-thread executor, then setAllNodesIncomplete: the state of op A
                ops.append('IOp OSetAll'); i += 2
            elif o == 'F':      # the same with a reused parallel executor: F e t a
                ops.append('IOp OSetAll'); i += 4
            elif o == 'i':
                ops.append('IOp (OInc %s)' % P(t[i + 1])); i += 2
            elif o == 'k':
                ops.append('IOp (OCompl %s)' % P(t[i + 1])); i += 2
            elif o == 'P':
                ops.append('IOp OProp'); i += 1
            elif o == 'x':
                sx, sc = segs[si], segs[si + 1]
                si += 2
                assert sx[0] == 'X' and sc[0] == 'C'
                recs = '[' + ';'.join('R %s %s %s' % (P(a), Z(b), Z(c)) for a, b, c in sx[3]) + ']'
                cnts = '[' + ';'.join('CN %s %s' % (P(n), Z(u64(v))) for n, v in sc[1] if u64(v) != K) + ']'      # kCompleted entries omitted (default)
                ops.append('IExec %s %s %s %s' % (NAT(t[i + 1]), NAT(t[i + 2]), recs, cnts)); i += 3
            elif o in ('S', 'M', 'm'):      # M / m: move the graph away and back, then dump (the model's structure is unchanged)
                sg = segs[si]
                si += 1
                assert sg[0] == 'G'
                subs = '[' + '; '.join('[' + ';'.join('DN %s %s %s %s %s' % (P(n), Z(np), 'K64' if c == K else Z(c), plist(m), plist(d)) for n, np, c, m, d in s) + ']'
                                       for s in sg[1]) + ']'
                ops.append('IDump %s' % subs); i += 1
            else:
                return None
    except (IndexError, AssertionError):
        return None
    return '(%s, [%s])' % ('true' if bip else 'false', '; '.join(ops))


def run_harness(exe, lines, timeout=300):
    """one output line per input line (None / 'CRASH ...' where the harness died)"""
    out = [None] * len(lines)
    i = 0
    while i < len(lines):
        rc, txt = dv.sh([exe], inp='\n'.join(lines[i:]) + '\n', timeout=timeout)
        got = [l for l in txt.split('\n') if l.strip()]
        j = 0
        for l in got:
            if i + j < len(lines) and (l.startswith(('X ', 'G ', 'EMPTY', 'BAD')) or l in ('X', 'G')):
                out[i + j] = l
                j += 1
        if rc != 0 or j == 0:
            if i + j < len(lines):
                out[i + j] = 'CRASH rc=%d %s' % (rc, txt[-200:].replace('\n', ' '))
                j += 1
        i += max(j, 1)
    return out


def judge(ctx, name, terms, timeout=600):
    """-> list (per case) of event lists [idx, kind, code30, code31, prepared]; None if Coq failed"""
    body = ('From Coq Require Import ZArith List Bool PArith.\nImport ListNotations.\n'
            'From DV Require Import Base.MachInt Model.GraphModel Model.GraphLits Model.C30Check Model.C31Check.\nLocal Open Scope Z_scope.\n')
    shards = [terms[i:i + 60] for i in range(0, len(terms), 60)]
    for k, sh in enumerate(shards):
        body += 'Definition cases_%d : list (bool * list iop) := %s.\n' % (k, dv.coq_list(sh))
        body += 'Eval vm_compute in (map judge_graph cases_%d).\n' % k
    rc, out = dv.coq_eval(ctx.work, name, body, timeout)
    if rc != 0:
        ctx.cov.setdefault('coq_eval_errors', []).append(out[-1500:])
        return None
    res = []
    for v in dv.eval_results(out):
        res += dv.parse_zlist(v)
    if len(res) != len(terms):
        ctx.cov.setdefault('coq_eval_errors', []).append('judge returned %d results for %d cases' % (len(res), len(terms)))
        return None
    return res


def op_at(line, idx):
    """the idx-th op (0-based) of a case line, with its position, for messages"""
    t = line.split()
    i, k = 1, 0
    ar = {'s': 1, 'n': 2, 'd': 3, 'b': 3, 'c': 2, 'A': 1, 'i': 2, 'k': 2, 'P': 1, 'x': 3, 'S': 1, 'E': 2, 'F': 4}
    while i < len(t):
        n = ar.get(t[i], 1)
        if k == idx:
            return ' '.join(t[i:i + n])
        i += n
        k += 1
    return '?'


def prefix_upto(line, idx):
    t = line.split()
    i, k = 1, 0
    ar = {'s': 1, 'n': 2, 'd': 3, 'b': 3, 'c': 2, 'A': 1, 'i': 2, 'k': 2, 'P': 1, 'x': 3, 'S': 1, 'E': 2, 'F': 4}
    while i < len(t):
        n = ar.get(t[i], 1)
        i += n
        if k == idx:
            break
        k += 1
    return ' '.join(t[:i])


def replay_cmd(line):
    return "echo '%s' | build/harness/h_graph-*" % line


FRESH_WITNESS = 'N n 0 n 0 n 0 d 2 3 d 1 2 x 0 1'                           # chain 3 -> 2 -> 1 created in reverse, executed directly
STALE_WITNESS = 'B n 0 n 0 n 0 n 0 b 2 1 b 4 3 b 3 1 A x 0 1 i 2 P x 0 1'    # sets {1,2} and {3,4} merged through 3.biPropDependsOn(1)


def judge_parallel(ctx, name, terms, nproc=4, timeout=600):
    """judge() split over a few coqc processes (each pays the ~5 s library load, so only worth it for many cases)"""
    import threading
    if len(terms) < 120 or nproc <= 1:
        return judge(ctx, name, terms, timeout)
    k = (len(terms) + nproc - 1) // nproc
    parts = [terms[i:i + k] for i in range(0, len(terms), k)]
    res = [None] * len(parts)

    def work(i):
        res[i] = judge(ctx, '%s_%d' % (name, i), parts[i], timeout)
    th = [threading.Thread(target=work, args=(i,)) for i in range(len(parts))]
    for t in th:
        t.start()
    for t in th:
        t.join()
    if any(r is None for r in res):
        return None
    return [e for r in res for e in r]


def correspond(ctx, pid, mode, ncases, witnesses):
    """runs witnesses + ncases random cases; returns list of (line, output, events or None)"""
    exe = harness()
    lines = list(witnesses) + [gen_case(ctx.rng, mode) for _ in range(ncases)]
    outs = run_harness(exe, lines)
    ctx.phase('harness')
    kept, terms = [], []
    res = []
    for l, o in zip(lines, outs):
        t = coq_case(l, o)
        if t is None:
            res.append((l, o, None))
        else:
            res.append((l, o, 'pending'))
            kept.append(len(res) - 1)
            terms.append(t)
    ev = judge_parallel(ctx, 'cases', terms) if terms else []
    ctx.phase('coq-judge')
    if ev is None:
        return [(l, o, None if e is None else 'coq-failed') for l, o, e in res]
    for idx, e in zip(kept, ev):
        l, o, _ = res[idx]
        res[idx] = (l, o, e)
    return res
