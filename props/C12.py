"""C12 -- parallel_for covers each index exactly once.   Tie: T (regenerated leaves) + D (all chunking modes)."""
import dv, pf_common

META = {
    'category': 'proof',
    'technique': 'Coq theorems over executable Gallina models of the static, dynamic (shared counter) and adaptive (stripe cursor) paths of '
                 'parallel_for, built on leaves regenerated from the C++ source; all claim schedules quantified; differential run of the real '
                 'parallel_for against the model, the partition property evaluated in Coq on the implementation output',
    'text': 'Kernel-checked: for every configuration in the documented domain the body invocations tile [start,end) exactly -- static path from the '
            'C17 theorems, dynamic path for every claim order (single counter and per-L3-group counters), adaptive path for every claim/steal '
            'schedule under the explicit no-wrap hypothesis on the 64-bit stripe cursors.  C12_refuted: uint64 range ending at 2^64-1, adaptive: '
            'the cursor wraps and indices outside the range are handed to the body (reproduced on the real code).  C12_holds_except states the '
            'property on the complement of the remaining finding domain (Gallina predicate c12_wrap_domain / trace-level c12_nowrap).  Former findings explicit-chunk-overflow-64bit and adaptive-chunksize-narrowing: fixed in /repo, witnesses = regression Examples + regression cases.',
    'note': 'Trusted: Coq kernel; tools/translate.py + clang AST for the leaves; harness/h_parfor.cpp; the hand-written glue (pf_mode, pf_dyncfg, '
            'pf_scfg, stripe_end, claim, worker loops) is tied by the differential run only.  "All invocations have returned when parallel_for / '
            'wait() returns" is C02; here: completeness of a schedule = every worker has left its loop.',
}

ASSUMPTIONS = [
    'domain (pf_dom): start,end in the index type, 2*size + 64*(N+1) + granularity + 1 < 2^63, size <= kmax for int32/int64, explicit chunk in '
    '[1, kmax), pool threads N < 2^31, options are uint32 values',
    'a schedule is complete when every worker has left its claim loop (task-set completion is C02)',
    'adaptive path: the victim returned by pickStripeFromMasks is an oracle (any stripe non-empty at init); all event lists are quantified',
    'nested parallel_for (isParForRecursive) takes the serial branch f(start,end); nesting is not a parameter of the model',
]

# deterministic witnesses of the known findings (replayed first on every run)
WITNESS_WRAP = {'kn': 7, 's': (1 << 64) - 101, 'e': (1 << 64) - 1, 'mode': 'a', 'chunk': 0, 'N': 1, 'maxT': (1 << 31) - 1, 'minItems': 7,
                'g': 1, 'wait': 1, 'rdv': 0, 'reuse': 0}
WITNESS_WRAP5 = dict(WITNESS_WRAP, N=4, minItems=1)       # the schedule-dependent original (5 workers, chunk 1)
# witness of the former finding adaptive-chunksize-narrowing (fixed in /repo), kept as a regression case (expected verdict 0)
WITNESS_NARROW = {'kn': 0, 's': -128, 'e': 127, 'mode': 'a', 'chunk': 0, 'N': 1, 'maxT': (1 << 31) - 1, 'minItems': 85, 'g': 1, 'wait': 1,
                  'rdv': 0, 'reuse': 0}
# witness of the former finding explicit-chunk-overflow-64bit (fixed in /repo), kept as a regression case (expected verdict 0)
WITNESS_CHUNKOVF = {'kn': 7, 's': 0, 'e': 100, 'mode': 'c', 'chunk': (1 << 64) - 50, 'N': 4, 'maxT': (1 << 31) - 1, 'minItems': 1, 'g': 1,
                    'wait': 1, 'rdv': 0, 'reuse': 0}
KEYS = {11: 'adaptive-cursor-wrap-64bit'}


def report(ctx, c, res, v, hist, tag=''):
    overrun, ch, raw = res
    line = pf_common.pf_line(c)
    if ch is None:
        ctx.violation('harness failed on %s: %s' % (line, raw), {'case': c, 'output': raw, 'cmd': line})
        return
    hist[v] = hist.get(v, 0) + 1
    what = 'body called more than %d times' % pf_common.MAX_RECORDED if overrun else 'invocations %s' % (ch[:40],)
    if v in KEYS:
        ctx.violation('parallel_for invocations do not partition [start,end) (%s): %s -> %s' % (KEYS[v], line, what),
                      {'finding_key': KEYS[v], 'case': c, 'impl_chunks': ch[:200], 'cmd': line})
    elif v == 2:
        ctx.violation('parallel_for invocations do not partition [start,end): %s -> %s' % (line, what),
                      {'case': c, 'impl_chunks': ch[:200], 'overrun': overrun, 'cmd': 'echo "%s" | build/harness/h_parfor-*' % line})
    elif v == 1:
        ctx.broken.append('correspondence D(C12)%s: implementation invocations differ from the model plan on %s: %s' % (tag, line, ch[:40]))


def run(ctx):
    rep = dv.gen(['chunk'])
    if any(rep.values()):
        ctx.broken.append('translator: ' + str(rep)[:500])
    ctx.cov['translator_report'] = rep
    ctx.phase('translate')
    ctx.prove(tie_files=['GenTie/ChunkGenTie.v', 'GenTie/DynGenTie.v'], models=['Model/C12Check.v', 'Model/C13Check.v', 'Base/Corr.v'])
    exe = pf_common.harness_copy(ctx)
    l3 = pf_common.machine_l3(exe)
    ctx.cov['machine_l3_groups'] = l3
    hist = {}
    # 1. known-finding witnesses
    wit = [WITNESS_WRAP, WITNESS_WRAP5, WITNESS_NARROW, WITNESS_CHUNKOVF]
    wres = pf_common.run_pf_cases(exe, wit)
    wv = pf_common.judge_pf(ctx, 'wit', 'judge_c12', wit, wres, l3)
    if wv is None:
        ctx.broken.append('correspondence D(C12): the model no longer evaluates (see coq_eval_errors)')
        return
    for c, r, v in zip(wit, wres, wv):
        report(ctx, c, r, v, hist, ' witness')
    ctx.cov['witness_verdicts'] = wv
    # 2. generated cases
    n = 700 if ctx.quick else 20000
    cases = pf_common.gen_pf_cases(ctx, n, big_pool_every=0 if ctx.quick else 50)
    cases += pf_common.gen_pf_fullrange_cases(ctx, 40 if ctx.quick else 600)
    cases += pf_common.gen_pf_inpool_cases(ctx, 360 if ctx.quick else 4000)
    if not ctx.quick:                     # all (start, end) pairs of uint8 x modes, 4-thread pool
        for s in range(0, 256, 1):
            for e in range(s, 256, 3):
                for mode in ('s', 'a', 'c'):
                    cases.append({'kn': 1, 's': s, 'e': e, 'mode': mode, 'chunk': 3 if mode == 'c' else 0, 'N': 4, 'maxT': (1 << 31) - 1,
                                  'minItems': 1, 'g': 1 + (s % 5), 'wait': (s + e) % 2, 'rdv': 0, 'reuse': 0})
    results = pf_common.run_pf_cases(exe, cases)
    verd = pf_common.judge_pf(ctx, 'cases', 'judge_c12', cases, results, l3)
    if verd is None:
        ctx.broken.append('correspondence D(C12): the model no longer evaluates (see coq_eval_errors)')
        return
    distinct = set()
    modes = {}
    for c, r, v in zip(cases, results, verd):
        report(ctx, c, r, v, hist)
        if r[1] is not None and (len(r[1]) > 1 or r[0]):
            distinct.add((c['kn'], c['s'], c['e'], c['mode'], c['chunk'], c['N'], c['g'], c['maxT'], c['minItems'], c['wait']))
        modes[c['mode'] + str(c['wait'])] = modes.get(c['mode'] + str(c['wait']), 0) + 1
    ctx.cov['evaluations'] += len(cases) + len(wit)
    ctx.cov['distinct_nontrivial'] += len(distinct)
    ctx.cov['rule'] = ('real parallel_for (recording body) on 8 index kinds x ranges at the type limits x pool sizes 0..7 (20 in the thorough tier) x '
                       'maxThreads x minItemsPerChunk x granularity 1..64 with start mod g swept x static/adaptive/explicit chunk x wait 0/1 x caller = '
                       'non-pool thread or a worker of the pool under test (every ring index 0..N-1 for N = 1..7).  '
                       'Non-trivial = more than one body invocation; distinct = distinct input tuples')
    ctx.cov['verdict_histogram'] = {'agree_and_partition': hist.get(0, 0), 'partition_but_differs_from_model': hist.get(1, 0),
                                    'not_a_partition': hist.get(2, 0), 'not_a_partition_known_cursor_wrap': hist.get(11, 0)
                                    }
    ctx.cov['cases_by_mode_wait'] = modes
    seen, miss = pf_common.ring_coverage(cases, [r[2] for r in results])
    ctx.cov['caller_on_pool_worker'] = {'cases': sum(1 for c in cases if c.get('inpool')), 'distinct_(N,ring)_seen': len(seen), 'of': 28,
                                        'wanted_ring_not_obtained': miss}
    if len(seen) < 28:
        ctx.broken.append('correspondence D(C12): only %d of the 28 (pool size, caller ring index) combinations were reached' % len(seen))
    ctx.cov['traces_validated_against_impl'] += hist.get(0, 0)
    for i in (len(cases) // 3, len(cases) // 2):
        if results[i][1] is not None:
            ctx.sample({'pf': pf_common.pf_line(cases[i]), 'impl_chunks': results[i][1][:12], 'verdict': verd[i]})
    ctx.phase('correspond')
