"""Helpers for lockstep correspondences under harness/vsched.h (DESIGN §4 L)."""
import dv, re


def parse_vsched(line, sites, tags):
    """'steps t:site ... | results t:tag=v ... | blocked t ... | <extra> | status S' -> dict (None if malformed)"""
    if line is None or not line.startswith('steps'):
        return None
    parts = [p.strip() for p in line.split('|')]
    if len(parts) < 5:
        return None
    steps = []
    for tok in parts[0].split()[1:]:
        t, site = tok.split(':', 1)
        if site not in sites:
            return {'error': 'unknown site ' + site}
        steps.append((int(t), sites.index(site)))
    results = {}
    for tok in parts[1].split()[1:]:
        t, kv = tok.split(':', 1)
        k, v = kv.split('=')
        results.setdefault(int(t), []).append((tags[k], int(v)))
    blocked = [int(x) for x in parts[2].split()[1:]]
    status = {'done': 0, 'deadlock': 1, 'budget': 2}.get(parts[-1].split()[-1], 9)
    return {'steps': steps, 'results': results, 'blocked': blocked, 'extra': parts[3], 'status': status}


def zpairs(l):
    return dv.coq_list(['(%s,%s)' % (dv.zlit(a), dv.zlit(b)) for a, b in l])


def run_cases(exe, lines, timeout=900, jobs=8):
    """run the (fork-per-case) harness on the lines, sharded over several processes; returns output lines in order"""
    import concurrent.futures as cf
    if not lines:
        return []
    k = max(1, (len(lines) + jobs - 1) // jobs)
    shards = [lines[i:i + k] for i in range(0, len(lines), k)]

    def one(sh):
        rc, out = dv.sh([exe], inp='\n'.join(sh) + '\n', timeout=timeout)
        got = [l for l in out.split('\n') if l.strip()]
        got = (got + ['MISSING'] * len(sh))[:len(sh)]
        return got
    with cf.ThreadPoolExecutor(max_workers=jobs) as ex:
        res = list(ex.map(one, shards))
    return [l for r in res for l in r]


def judge_parallel(ctx, imports, fn, terms, shard_size=120, jobs=12, timeout=900):
    """evaluate `map fn terms` inside Coq, sharded over several coqc processes.  Returns list of ints or None."""
    import concurrent.futures as cf
    if not terms:
        return []
    shards = [terms[i:i + shard_size] for i in range(0, len(terms), shard_size)]

    def one(ix):
        body = ('From Coq Require Import ZArith List Bool.\nImport ListNotations.\n' + imports + '\nLocal Open Scope Z_scope.\n' +
                'Definition cases := %s.\nEval vm_compute in (map %s cases).\n' % (dv.coq_list(shards[ix]), fn))
        rc, out = dv.coq_eval(ctx.work, 'cases_%d' % ix, body, timeout)
        if rc != 0:
            return ('err', out[-1500:])
        vals = dv.eval_results(out)
        return ('ok', dv.parse_zlist(vals[0]))
    with cf.ThreadPoolExecutor(max_workers=jobs) as ex:
        res = list(ex.map(one, range(len(shards))))
    out = []
    for kind, v in res:
        if kind == 'err':
            ctx.cov.setdefault('coq_eval_errors', []).append(v)
            return None
        out += v
    return out


def fuel_of(budget, status):
    """fuel for Base.Sched.run that mirrors harness/vsched.h exactly: vsched looks at 'all finished' and 'nobody runnable' BEFORE the step
    budget, run looks at the fuel first.  A run that ended 'done'/'deadlock' may have used exactly `budget` steps: one extra unit of fuel
    lets the model reach the same verdict (it takes no further step: finished / no candidate).  A run that ended by budget took exactly
    `budget` steps and the model must stop there too."""
    return budget if status == 2 else budget + 1
