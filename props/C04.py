"""C04 -- cancelled task sets start no further task bodies.   Tie: T (decision trees, contracts) + D (decisions under forced load) + lockstep L."""
import dv, taskset_common as T

META = {
    'category': 'proof',
    'technique': 'Coq invariant (licences) over all interleavings of the task-set step model + regenerated decision trees with contract lemmas + decisions of the real code under forced pool load + lockstep replay',
    'text': 'C04_refuted proves the property FALSE of the code as written: the second inline fallback of ConcurrentTaskSet::schedule / schedulePlaced (pool overloaded, !skipRecheck, '
            'canInlineSchedule) calls f() without consulting canceled() (known finding, decision-level and lockstep witnesses replayed on the real code every run). '
            'C04_holds_except: at every other body call site (TaskSet::schedule inline and queued, packaged wrappers wherever they run, first inline path, bulk invokeInline) the thread '
            'holds a canceled_ load that read false and precedes the first canceled_ := true store of the set (cancel(), parent cascade, exception-triggered), for all interleavings. '
            'Decision lemmas on the REGENERATED code: TaskSet::schedule reaches the functor only if canceled() read false; the ConcurrentTaskSet overloads call the raw functor on a '
            'cancelled set iff c04_domain.',
    'note': T.NOTE,
}
ASSUMPTIONS = T.ASSUME + ['"after cancel" is made precise as: the canceled_ load that licensed the body precedes the cancel store (a body whose licence was obtained before the store may still start after cancel() returned)']


def run(ctx):
    exe = T.prove_and_build(ctx, 'C04')

    def on_l(v, c, p, o):
        if v == 4:
            ctx.violation('body started at the second inline fallback after the cancel store: ' + o[:300], {'finding_key': T.KEY_C04, 'case': T.case_line(c)})
        else:
            ctx.violation('a task body of a cancelled set started without a licensing canceled_ load preceding the cancel store: %s -> %s' % (T.case_line(c)[:300], o[:400]),
                          {'case': T.case_line(c), 'output': o, 'cmd': 'echo "<case>" | build/harness/h_taskset-*'})

    def on_d(v, d, vals, o):
        if v == 4:
            ctx.violation('cancelled ConcurrentTaskSet ran the functor inline (pool overloaded): ' + o, {'finding_key': T.KEY_C04, 'case': T.d_line(d)})
        else:
            ctx.violation('a cancelled set ran a functor: %s -> %s' % (T.d_line(d), o), {'case': T.d_line(d), 'output': o, 'cmd': 'echo "<case>" | build/harness/h_taskset-*'})
    # deterministic witnesses of the known finding first
    T.decision_phase(ctx, exe, 'judge_C04_d', 60 if ctx.quick else 1500, witnesses=[T.witness_d_c04()], on_verdict=on_d)
    T.lockstep_phase(ctx, exe, 'judge_C04', ['cancel', 'cancel', 'mixed', 'exc'], 80 if ctx.quick else 3000, witnesses=[T.witness_c04()], on_verdict=on_l)
    ctx.cov['known_finding_witnesses'] = ['D: ' + T.d_line(T.witness_d_c04()), 'L: ' + T.case_line(T.witness_c04())[:120]]
