"""C04 -- cancelled task sets start no further task bodies.   Tie: T (decision trees, contracts) + D (decisions under forced load) + lockstep L."""
import dv, taskset_common as T

META = {
    'category': 'proof',
    'technique': 'Coq invariant (licences) over all interleavings of the task-set step model + regenerated decision trees with contract lemmas + decisions of the real code under forced pool load + lockstep replay',
    'text': 'C04_no_body_after_cancel (unrestricted): at every body call site (TaskSet::schedule inline and queued, packaged wrappers wherever they run, both inline paths of '
            'ConcurrentTaskSet::schedule / schedulePlaced, bulk invokeInline) the thread holds a canceled_ load that read false and precedes the first canceled_ := true store of the set '
            '(cancel(), parent cascade, exception-triggered), for all interleavings. Decision lemmas on the REGENERATED code for all sites: the raw functor is reached only if canceled() read '
            'false; on a cancelled set the decision is skip or queue-the-packaged-wrapper. The former finding (second inline fallback ignored canceled()) is repaired in /repo; its '
            'decision-level and lockstep witnesses are regression Examples in Coq and regression cases replayed first on the real code every run.',
    'note': T.NOTE,
}
ASSUMPTIONS = T.ASSUME + ['"after cancel" is made precise as: the canceled_ load that licensed the body precedes the cancel store (a body whose licence was obtained before the store may still start after cancel() returned)']


def run(ctx):
    exe = T.prove_and_build(ctx, 'C04')

    def on_l(v, c, p, o):
        ctx.violation('a task body of a cancelled set started without a licensing canceled_ load preceding the cancel store: %s -> %s' % (T.case_line(c)[:300], o[:400]),
                      {'case': T.case_line(c), 'output': o, 'cmd': 'echo "<case>" | build/harness/h_taskset-*'})

    def on_d(v, d, vals, o):
        ctx.violation('a cancelled set ran a functor: %s -> %s' % (T.d_line(d), o), {'case': T.d_line(d), 'output': o, 'cmd': 'echo "<case>" | build/harness/h_taskset-*'})
    # regression cases (witnesses of the repaired finding) first
    T.decision_phase(ctx, exe, 'judge_C04_d', 60 if ctx.quick else 1500, witnesses=[T.witness_d_c04()], on_verdict=on_d)
    T.lockstep_phase(ctx, exe, 'judge_C04', ['cancel', 'cancel', 'mixed', 'exc'], 70 if ctx.quick else 3000, witnesses=[T.witness_c04()] + T.c04_cascade_probes(), on_verdict=on_l)
    ctx.cov['probe_cases'] = len(T.c04_cascade_probes())
    ctx.cov['regression_cases'] = ['D: ' + T.d_line(T.witness_d_c04()), 'L: ' + T.case_line(T.witness_c04())[:120]]
