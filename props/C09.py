"""C09 -- pool shutdown, resize and setSignalingWake always complete (without the sleep backstop).
Tie: lockstep (L) on the real PoolWakeState / EpochWaiter under harness/vsched.h + end-to-end replays on a real ThreadPool."""
import dv, ls_common, wake_common as wc

META = {
    'category': 'proof',
    'technique': 'Coq inductive invariant over all interleavings of a step-level model of the wake/sleep protocol (one step per atomic access / futex call; '
                 'one futex per 8-thread group with arbitrary-waiter wake semantics), any number of threads and groups; refutation witness; lockstep replay of '
                 'generated schedules on the real hooked PoolWakeState/EpochWaiter; deterministic end-to-end replays on a real ThreadPool under a cooperative scheduler',
    'text': 'C09_refuted: the property is FALSE of the code as written -- claimAndWakeOne clears the sleepMask bit of thread T but its FUTEX_WAKE(1) wakes an arbitrary '
            'waiter of the group-shared futex; T can stay parked with its bit clear and wakeAll() skips the futex wake for groups whose mask is 0, so ~ThreadPool / resize / '
            'setSignalingWake wait for the backstop (known finding, replayed every run: on the real PoolWakeState in lockstep, on a real ThreadPool under the scheduler, and natively). '
            'C09_holds_except (kernel-checked, any number of threads/groups, every phase a worker can be in when stop arrives, all schedules and waiter choices, with or '
            'without timeouts): when no claimAndWakeOne takes part, once stop-all; wakeAll is complete no worker is parked, none can park again (local epoch < group epoch '
            'for every worker past its running() re-check), every flag is false, every live worker is enabled; C09_join_then_no_old_worker; poll mode: timed waits are ordinary steps. '
            'Fair termination (each worker then reaches Exit) is not proved as a liveness theorem: it needs a finite-work measure for the inner task loop.',
    'note': 'Trusted: Coq kernel; futex semantics (compare-and-block; wake n = n arbitrary waiters; no spurious wake modelled); harness/vsched.h, harness/vsched_pool.h; SC '
            'interleaving of atomics; the worker loop / submission skeleton of thread_pool.cpp/.h is hand-modelled (tied end-to-end by witness replays only); < 2^32 bumps per epoch word. No axioms.',
}

ASSUMPTIONS = [
    'sequentially consistent interleaving of the atomic accesses; futex = compare-and-block / wake n arbitrary waiters; spurious futex returns not modelled (they only cause a re-load)',
    'Linux EpochWaiter branch; fewer than 2^32 bumps of one epoch word between a worker\'s epoch read and its wait (ghost flag `wrapped`)',
    'the worker loop and the submission paths of thread_pool.cpp/.h are hand-modelled at the level of their wake decisions; lockstep ties PoolWakeState/EpochWaiter only, '
    'the rest is tied by the deterministic end-to-end replays of the witnesses and controls',
    'compare_exchange is not used by this component; resize()/setSignalingWake() are modelled by the same stop-all; wakeAll; join-all sequence as the destructor (resizeLocked)',
]

IMPORTS = 'From DV Require Import Base.Sched Model.WakeModel Model.WakeCheck Model.C09Check.'


def phase_cases():
    """stop injected at every point of a worker's park cycle (enumerated): the worker runs k steps, then the stopper runs stop(i); wakeAll to
    completion, then everything else; sizes n in {1,2,3,8,9,16}, a second worker of the same or another group sleeps meanwhile"""
    out = []
    for (n, gs) in [(1, 8), (2, 8), (3, 8), (8, 8), (9, 8), (16, 8), (5, 2)]:
        for other in ([], [n - 1] if n > 1 else []):
            widx = [0] + other
            for k in range(0, 9):
                progs = [[('K', i), ('p', i)] for i in widx] + [[('T', i) for i in widx] + [('A', None)]]
                nthr = len(progs)
                sched = []
                if other:
                    sched += [1] * 8          # the other worker (tid 1): start + its 7 park steps, then it is blocked
                sched += [0] * k              # worker 0 (lowest runnable tid) advances k steps: start, fetch_or, total_add, running, load0, load1, futex.wait
                sched += [1] * 12 + [0] * 70  # the stopper (last runnable tid; index 1 of [0,stopper] or of [stopper] alone) runs stop(i)..., wakeAll
                out.append({'n': n, 'gs': gs, 'tmo': 0, 'budget': 70, 'progs': progs, 'sched': sched, 'kind': 'phase'})
    return out


def run(ctx):
    ctx.prove(models=['Model/C09Check.v'])
    exe = dv.build_harness('h_wake', ['h_wake.cpp'])
    exe_pool = dv.build_harness('h_wakepool', ['h_wakepool.cpp'])
    exe_nat = dv.build_harness('h_wakenative', ['h_wakenative.cpp'])
    ctx.phase('build')
    r = ctx.rng

    # ---- 1. end-to-end on a real ThreadPool under the cooperative scheduler: witness first, then controls
    e2e = [('c09 2 1 ; S 1*300', True), ('c09 2 0 ; S 1*300', False), ('c09 2 1 ; S 0*10', False), ('c09 3 0 ; S 2*300', False),
           ('c09 8 0 ; S 3*300', False), ('c09 9 0 ; S 5*300', False)]
    if not ctx.quick:
        e2e += [('c09 %d %d ; S %d*300' % (n, pre, d), None) for n in (2, 3, 8, 16) for pre in (0, 1) for d in (1, 2, 3, 7)]
    rc, out = dv.sh([exe_pool], inp='\n'.join(c for c, _ in e2e) + '\n', timeout=600)
    lines = [l for l in out.split('\n') if l.strip()]
    ctx.cov['evaluations'] += len(e2e)
    e2e_hist = {'shutdown_used_backstop_known_domain': 0, 'shutdown_clean': 0}
    for (case, expect), l in zip(e2e, lines + ['MISSING'] * len(e2e)):
        import re
        m = re.search(r'shutdown_timeouts (-?\d+)', l)
        if not m or 'reported' not in l:
            ctx.broken.append('end-to-end harness h_wakepool gave no report for %r: %s' % (case, l[:200]))
            continue
        used = int(m.group(1)) > 0
        pre = case.split()[2] == '1'
        if used:
            # domain of the known finding: a claimAndWakeOne (schedule()) preceded the shutdown
            if pre:
                e2e_hist['shutdown_used_backstop_known_domain'] += 1
                ctx.violation('~ThreadPool needed a backstop timeout: ' + l[:300], {'finding_key': wc.KEY_C09, 'case': case})
            else:
                ctx.violation('~ThreadPool needed a backstop timeout although no claimAndWakeOne took part: %s -> %s' % (case, l[:300]),
                              {'case': case, 'output': l, 'cmd': 'echo "%s" | build/harness/h_wakepool-*' % case})
        else:
            e2e_hist['shutdown_clean'] += 1
            if expect is True:
                ctx.cov.setdefault('notes', []).append('witness %r no longer reproduces on the real ThreadPool: %s' % (case, l[:200]))
    ctx.cov['end_to_end_real_pool'] = e2e_hist
    ctx.sample({'end_to_end_case': e2e[0][0], 'impl': (lines + [''])[0][:300]})
    ctx.phase('end_to_end')

    # ---- 2. native supporting evidence (one-sided)
    rc, out = dv.sh([exe_nat], inp='c09 1200 %d\n' % (6 if ctx.quick else 16), timeout=300)
    ctx.cov['native_one_sided'] = out.strip()[:300]
    ctx.cov['evaluations'] += 1
    if ' reproduced 1 ' in out:
        ctx.known(wc.KEY_C09)
    ctx.phase('native')

    # ---- 3. lockstep on the real PoolWakeState / EpochWaiter
    nraw = 60 if ctx.quick else 2500
    nproto = 30 if ctx.quick else 1200
    cases = [wc.witness_c09()] + phase_cases()
    cases += [wc.gen_raw(r) for _ in range(nraw)]
    for fl in ('stop', 'stopclaim', 'mixed'):
        cases += [wc.gen_proto(r, fl) for _ in range(nproto)]
    res = wc.run_lockstep(ctx, exe, cases, 'judge_c09', IMPORTS)
    ctx.cov['evaluations'] += len(cases)
    if res is None:
        ctx.broken.append('correspondence L(C09): the model no longer evaluates')
        return
    hist, distinct = {}, set()
    for c, p, o, v in res:
        hist[v] = hist.get(v, 0) + 1
        if len(p['steps']) > len(c['progs']) + 3:
            distinct.add(o.split('| status')[0])
        if v == 4:
            ctx.violation('worker left parked after stop + wakeAll: ' + o[-300:], {'finding_key': wc.KEY_C09, 'case': wc.line_of(c)})
        elif v == 2:
            ctx.violation('a worker is left parked (nothing runnable, timeouts off) although its running flag was cleared and a complete wakeAll followed, '
                          'no claimAndWakeOne involved: %s -> %s' % (wc.line_of(c), o[-400:]),
                          {'case': wc.line_of(c), 'output': o, 'cmd': 'echo "<case>" | build/harness/h_wake-*'})
        elif v == 1:
            ctx.broken.append('correspondence L(C09): real trace differs from the model on ' + wc.line_of(c) + ' -> ' + o)
    ctx.cov['distinct_nontrivial'] += len(distinct)
    ctx.cov['rule'] = ('lockstep cases = deterministic witness + stop injected at every step of a park cycle (enumerated, 7 sizes) + random raw scripts + random '
                       'protocol-conformant scripts (workers: park cycle + poll; producers: stop/wakeAll/claim/seed/range/cascade), n in {1,2,3,8,9,16} and small groups, '
                       'random decision lists (thread choice and futex waiter choice); non-trivial = more steps than thread starts + 3; distinct = distinct (trace, results, final state) strings')
    ctx.cov['verdict_histogram'] = {'agree': hist.get(0, 0), 'differ_property_holds': hist.get(1, 0), 'left_parked': hist.get(2, 0),
                                    'left_parked_known_domain': hist.get(4, 0)}
    ctx.cov['traces_validated_against_impl'] += hist.get(0, 0) + hist.get(4, 0)
    ctx.cov['kinds'] = {k: sum(1 for c, _, _, _ in res if c['kind'] == k) for k in set(c['kind'] for c, _, _, _ in res)}
    ctx.sample({'case': wc.line_of(cases[0])[:200], 'impl': res[0][2][-300:]})
    ctx.phase('correspond')
