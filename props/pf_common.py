"""Shared case generation / harness driving for the parallel-loop properties (C12, C13, C14, C15, C17, C48)."""
import dv, os, re

KINDS = [(8, True), (8, False), (16, True), (16, False), (32, True), (32, False), (64, True), (64, False)]
KNAMES = ['i8', 'u8', 'i16', 'u16', 'i32', 'u32', 'i64', 'u64']


def kmin(kn):
    w, s = KINDS[kn]
    return -(1 << (w - 1)) if s else 0


def kmax(kn):
    w, s = KINDS[kn]
    return (1 << (w - 1)) - 1 if s else (1 << w) - 1


def harness():
    return dv.build_harness('h_parfor', ['h_parfor.cpp'])


def run_harness(exe, lines, timeout=600):
    """returns list of output lines aligned with input lines (None where the harness died / overran)"""
    out = [None] * len(lines)
    i = 0
    while i < len(lines):
        rc, txt = dv.sh([exe], inp='\n'.join(lines[i:]) + '\n', timeout=timeout)
        got = [l for l in txt.split('\n') if l.strip()]
        j = 0
        for l in got:
            if l.startswith('OVERRUN'):
                out[i + j] = 'OVERRUN'
                j += 1
                break
            if i + j < len(lines):
                out[i + j] = l
                j += 1
        if j == 0:
            out[i] = 'CRASH rc=%d %s' % (rc, txt[-200:].replace('\n', ' '))
            j = 1
        elif rc != 0 and i + j < len(lines) and not (out[i + j - 1] or '').startswith('OVERRUN'):
            out[i + j] = 'CRASH rc=%d' % rc
            j += 1
        i += j
    return out


def gen_sc_cases(ctx, n):
    r = ctx.rng
    cases = []
    small = [0, 1, 2, 3, 7, 8, 9, 15, 16, 17, 63, 64, 65, 100, 1000]
    for items in range(0, 40):
        for chunks in range(1, 12):
            cases.append((items, chunks, 1))
    while len(cases) < n:
        mode = r.random()
        if mode < 0.3:
            chunks = r.choice(small[1:])
            items = r.choice(small) * r.choice([1, chunks, chunks + 1])
        elif mode < 0.7:
            chunks = r.randint(1, 300)
            items = r.randint(0, 100000)
        else:
            chunks = r.randint(1, 1 << r.randint(1, 40))
            items = r.randint(0, 1 << r.randint(1, 61))
        g = r.choice([1, 1, 2, 3, 4, 8, 16, 64, 7])
        items = items - items % g
        cases.append((items, chunks, g))
    return cases


def gen_pf_static_cases(ctx, n, modes=('s',), wait_choices=(1,), kinds=range(8)):
    """parallel_for cases biased to the case-split boundaries of the proofs"""
    r = ctx.rng
    cases = []
    while len(cases) < n:
        kn = r.choice(list(kinds))
        lo, hi = kmin(kn), kmax(kn)
        N = r.choice([0, 1, 2, 3, 4, 5, 7])
        g = r.choice([1, 1, 1, 2, 3, 4, 8, 16])
        span_mode = r.random()
        if span_mode < 0.35:
            size = r.randint(0, 40)
        elif span_mode < 0.8:
            size = r.randint(0, min(3000, hi - lo))
        else:
            size = r.choice([N, N + 1, N + 2, g * (N + 1), g * (N + 1) + 1, g * N, max(0, g * (N + 1) - 1), g - 1 if g > 1 else 1])
        size = max(0, min(size, hi - lo, 127 if KINDS[kn][0] == 8 and KINDS[kn][1] else size))
        pos = r.random()
        if pos < 0.25:
            s = lo
        elif pos < 0.5:
            s = hi - size
        elif pos < 0.65:
            s = max(lo, min(hi - size, -size // 2 if lo < 0 else 0))
        else:
            s = r.randint(lo, hi - size)
        # keep the size within the signed range for signed kinds (documented domain)
        e = s + size
        maxT = r.choice([1 << 31, (1 << 31) - 1, 0, 1, 2, 3, 4, N, N + 1, N + 2, 1000])
        minItems = r.choice([1, 1, 1, 2, 5, 16, 100])
        mode = r.choice(list(modes))
        chunk = 0
        if mode == 'c':
            chunk = r.choice([1, 2, 3, 5, 8, 17, 100])
            if chunk >= hi:
                chunk = 1
        wait = r.choice(list(wait_choices))
        cases.append({'kn': kn, 's': s, 'e': e, 'mode': mode, 'chunk': chunk, 'N': N, 'maxT': maxT, 'minItems': minItems,
                      'g': g, 'wait': wait, 'rdv': 0, 'reuse': 0})
    return cases


def pf_line(c):
    line = 'pf %d %d %d %s %d %d %d %d %d %d %d %d' % (c['kn'], c['s'], c['e'], c['mode'], c['chunk'], c['N'], c['maxT'],
                                                      c['minItems'], c['g'], c['wait'], c.get('rdv', 0), c.get('reuse', 0))
    if c.get('inpool', 0):
        line += ' %d' % c['inpool']      # parallel_for issued from the pool worker with ring index inpool-1
    return line


def parse_pf(line):
    """-> dict(chunks=[(a,b,state)], maxconc, stateconc, nstates) or None"""
    if line is None or not line.startswith('pf '):
        return None
    left, right = line.split('|')
    t = left.split()
    n = int(t[1])
    v = t[2:]
    chunks = [(int(v[3 * i]), int(v[3 * i + 1]), int(v[3 * i + 2])) for i in range(n)]
    m = re.search(r'maxconc (\d+) stateconc (\d+) nstates (\d+)', right)
    mr = re.search(r'ring (-?\d+)', right)
    return {'chunks': chunks, 'maxconc': int(m.group(1)), 'stateconc': int(m.group(2)), 'nstates': int(m.group(3)),
            'ring': int(mr.group(1)) if mr else -1}


def coq_cfg(c):
    kn = c['kn']
    chunkv = {'s': kmax(kn), 'a': 0}.get(c['mode'], c['chunk'])
    return '(PF %d%%nat %s %s %s %d %s %d %d %s)' % (kn, dv.zlit(c['s']), dv.zlit(c['e']), dv.zlit(chunkv), c['N'], dv.zlit(c['maxT']),
                                                   c['minItems'], c['g'], 'true' if c['wait'] else 'false')


def coq_pairs(ch):
    return dv.coq_list(['(%s,%s)' % (dv.zlit(a), dv.zlit(b)) for a, b in ch])


def shard(lst, n):
    k = max(1, (len(lst) + n - 1) // n)
    return [lst[i:i + k] for i in range(0, len(lst), k)]


def coq_judge(ctx, name, imports, defs, timeout=600):
    """defs: list of (judge_fn, [coq case terms]).  Returns list of lists of verdict ints, or None if Coq failed"""
    body = 'From Coq Require Import ZArith List Bool.\nImport ListNotations.\n' + imports + '\nLocal Open Scope Z_scope.\n'
    for i, (fn, terms) in enumerate(defs):
        body += 'Definition cases_%d := %s.\n' % (i, dv.coq_list(terms) if terms else '(@nil _)')
        if terms:
            body += 'Eval vm_compute in (map %s cases_%d).\n' % (fn, i)
    rc, out = dv.coq_eval(ctx.work, name, body, timeout)
    if rc != 0:
        ctx.cov.setdefault('coq_eval_errors', []).append(out[-1500:])
        return None
    vals = dv.eval_results(out)
    res = []
    k = 0
    for fn, terms in defs:
        if terms:
            res.append(dv.parse_zlist(vals[k]))
            k += 1
        else:
            res.append([])
    return res


def correspond_static(ctx, pid):
    """C17: scs/scg + static parallel_for boundaries, implementation vs regenerated model, property evaluated on the implementation's output"""
    exe = harness()
    nsc = 1500 if ctx.quick else 20000
    npf = 1200 if ctx.quick else 15000
    sc = gen_sc_cases(ctx, nsc)
    pf = gen_pf_static_cases(ctx, npf)
    for c in pf:                               # a third of the cases: parallel_for called from a worker of the pool under test
        if c['N'] > 0 and ctx.rng.random() < 0.33:
            c['inpool'] = ctx.rng.randint(1, c['N'])
    lines = ['scg %d %d %d' % c for c in sc] + [pf_line(c) for c in pf]
    outs = run_harness(exe, lines)
    sc_terms, pf_terms, pf_kept = [], [], []
    distinct = set()
    for c, o in zip(sc, outs[:len(sc)]):
        t = o.split()
        sc_terms.append('(%d,%d,%d,(%s,%s))' % (c[0], c[1], c[2], dv.zlit(int(t[1])), dv.zlit(int(t[2]))))
        if c[1] > 1 and c[0] > 0:
            distinct.add(('sc',) + c)
    for c, o in zip(pf, outs[len(sc):]):
        p = parse_pf(o)
        if p is None:
            ctx.violation('harness failed on %s: %s' % (pf_line(c), o), {'case': c, 'output': o, 'cmd': pf_line(c)})
            continue
        ch = [(a, b) for a, b, _ in p['chunks']]
        pf_terms.append('(%s, %s)' % (coq_cfg(c), coq_pairs(ch)))
        pf_kept.append((c, ch))
        if len(ch) > 1:
            distinct.add(('pf', c['kn'], c['s'], c['e'], c['N'], c['g'], c['maxT'], c['minItems']))
    ctx.cov['evaluations'] += len(sc) + len(pf)
    ctx.cov['distinct_nontrivial'] += len(distinct)
    ctx.cov['rule'] = ('scg: (items, chunks, g) exhaustive for items<40, chunks<12, then boundary-biased random up to 2^61; pf: static parallel_for over 8 index '
                       'kinds x ranges at type limits x pool sizes 0..7 x maxThreads x granularity x minItemsPerChunk.  Non-trivial = more than one chunk; '
                       'distinct = distinct input tuples')
    res = coq_judge(ctx, 'cases', 'From DV Require Import Base.MachInt Base.Corr Model.ChunkModel Gen.GenChunk Model.ParForModel Model.C17Check.',
                    [('judge_sc', sc_terms), ('judge_pf', pf_terms)])
    if res is None:
        ctx.broken.append('correspondence D(C17): the model no longer evaluates (see coq_eval_errors)')
        # fall back: Gen-independent oracle in python for scg
        for c, o in zip(sc, outs[:len(sc)]):
            t = o.split()
            tt, cc = int(t[1]), int(t[2])
            u = c[2] if c[2] > 1 else 1
            if not (0 <= tt <= c[1] and tt * cc + (c[1] - tt) * (cc - u) == c[0] and cc % u == 0):
                ctx.violation('staticChunkSizeGranular%r returned (%d,%d): not a partition' % (c, tt, cc), {'case': c, 'impl': [tt, cc]})
                break
        return
    hist = {0: 0, 1: 0, 2: 0, 3: 0}
    for v, c in zip(res[0], sc):
        hist[v] += 1
        if v == 2:
            ctx.violation('staticChunkSizeGranular(items=%d, chunks=%d, g=%d): result violates the partition property' % c,
                          {'case': list(c), 'cmd': 'echo "scg %d %d %d" | build/harness/h_parfor-*' % c})
        elif v == 1:
            ctx.broken.append('correspondence D(C17): implementation differs from regenerated model on scg %r (property still holds there)' % (c,))
    for v, (c, ch) in zip(res[1], pf_kept):
        hist[v] += 1
        if v == 2:
            ctx.violation('parallel_for static chunks are not an exact contiguous partition with sizes differing by <= 1 unit, larger first: %s -> %s' % (pf_line(c), ch),
                          {'case': c, 'impl_chunks': ch, 'cmd': pf_line(c)})
        elif v == 1:
            ctx.broken.append('correspondence D(C17): implementation chunks differ from the model on %s: %s' % (pf_line(c), ch))
    ctx.cov['verdict_histogram'] = {'agree_and_property_holds': hist[0], 'differs_but_property_holds': hist[1], 'property_fails': hist[2],
                                    'not_static_path(skipped)': hist[3]}
    ctx.cov['traces_validated_against_impl'] += hist[0]
    ctx.sample({'scg': list(sc[len(sc) // 2]), 'impl': outs[len(sc) // 2]})
    if pf_kept:
        c, ch = pf_kept[len(pf_kept) // 3]
        ctx.sample({'pf': pf_line(c), 'impl_chunks': ch})


# ------------------------------------------------------------------------------------------------ C12 / C13 (all chunking modes)

PF_IMPORTS = ('From DV Require Import Base.MachInt Base.Corr Model.ChunkModel Gen.GenChunk Model.ParForModel Model.DynModel '
              'Model.StripeModel Model.C12Check Model.C13Check.')
MAX_RECORDED = 4000      # more recorded invocations than any legitimate plan of the generators below -> treated like OVERRUN


def harness_copy(ctx):
    """a private copy of the harness binary (dv keeps one cached binary per harness name; a concurrent check that builds it for another
    repo hash removes the shared one while this check is still using it)"""
    import shutil
    for _ in range(3):
        try:
            dst = os.path.join(ctx.work, 'h_parfor.bin')
            shutil.copy2(harness(), dst)
            return dst
        except (IOError, OSError):
            continue
    return harness()


def machine_l3(exe):
    rc, txt = dv.sh([exe], inp='l3\n', timeout=60)
    m = re.search(r'l3 (\d+)', txt)
    return int(m.group(1)) if m else 0


def gen_pf_cases(ctx, n, modes=('s', 'a', 'c'), waits=(0, 1), pools=(0, 1, 2, 3, 4, 5, 6, 7), big_pool_every=0, gmin=1):
    """parallel_for cases over all 8 index kinds x ranges at the type limits x pool sizes x maxThreads x minItemsPerChunk x
    granularity 1..64 (start mod g swept) x chunking modes x explicit chunk sizes, biased to the case splits of the proofs.
    Domain kept: size <= kmax for signed kinds (ChunkedRange documents sizes that fit the signed size_type; the narrow signed
    kinds beyond that are generated separately by gen_pf_fullrange_cases)."""
    r = ctx.rng
    cases = []
    while len(cases) < n:
        kn = r.choice(range(8))
        w, sg = KINDS[kn]
        lo, hi = kmin(kn), kmax(kn)
        N = r.choice(list(pools))
        if big_pool_every and len(cases) % big_pool_every == big_pool_every - 1:
            N = 20
        mode = r.choice(list(modes))
        g = r.choice([1, 1, 2, 3, 4, 5, 7, 8, 8, 16, 17, 32, 63, 64, r.randint(1, 64)])
        g = max(g, gmin)
        maxsz = hi if sg else hi - lo
        maxsz = min(maxsz, (1 << 61))
        sm = r.random()
        if sm < 0.25:
            size = r.randint(0, 40)
        elif sm < 0.7:
            size = r.randint(0, 3000)
        elif sm < 0.85:
            size = r.choice([N, N + 1, N + 2, g * (N + 1), g * (N + 1) + 1, g * N, max(0, g * (N + 1) - 1), g - 1, g, g + 1, 2 * g,
                             64 * (N + 1), 64 * (N + 1) + 1, 16 * (N + 1) - 1])
        else:
            size = r.randint(0, 1 << r.randint(1, 61))
        size = max(0, min(size, maxsz))
        chunk = 0
        if mode == 'c':
            chunk = r.choice([1, 2, 3, 5, 8, 17, 100, max(1, size // 2), max(1, size), size + 1, max(1, size // 7)])
            chunk = max(chunk, (size + 2999) // 3000, 1)       # keep the number of chunks recordable
            chunk = min(chunk, hi)                             # chunk == kStatic is simply the static mode
            if w == 64 and r.random() < 0.03:                  # huge explicit chunk: size + chunk leaves size_type
                chunk = hi - 1 - r.randint(0, max(0, min(size, 1000) - 1))
        pos = r.random()
        if pos < 0.25:
            s = lo
        elif pos < 0.55:
            s = hi - size
        elif pos < 0.65:
            s = max(lo, min(hi - size, -(size // 2) if lo < 0 else 0))
        else:
            s = r.randint(lo, hi - size)
        if g > 1 and r.random() < 0.6:                         # sweep start mod g
            want = r.randint(0, g - 1)
            s2 = s - ((s - want) % g)
            if s2 < lo:
                s2 += g
            if lo <= s2 and s2 + size <= hi:
                s = s2
        e = s + size
        if r.random() < 0.04 and size > 0:                     # empty / reversed ranges
            s, e = e, s
        maxT = r.choice([1 << 31, (1 << 31) - 1, 0, 1, 2, 3, 4, N, N + 1, N + 2, 1000, (1 << 32) - 1])
        minItems = r.choice([1, 1, 1, 0, 2, 5, 16, 100, max(1, size // 3), max(1, size // 2), max(1, size // (N + 1))])
        minItems = min(minItems, (1 << 32) - 1)
        wait = r.choice(list(waits))
        cases.append({'kn': kn, 's': s, 'e': e, 'mode': mode, 'chunk': chunk, 'N': N, 'maxT': maxT, 'minItems': minItems,
                      'g': g, 'wait': wait, 'rdv': 0, 'reuse': 0})
    return cases


def gen_pf_inpool_cases(ctx, n, gmin=1, modes=('s', 'a', 'c')):
    """parallel_for issued FROM A TASK RUNNING ON A WORKER of the pool under test (field inpool = ring index + 1): systematically every
    pool size 1..7 x every ring index 0..N-1 x mode x wait, then random.  On the static path with wait=true the caller then takes
    chunk `ring` instead of the last one and the scheduler index -> chunk index remap is exercised for every position."""
    r = ctx.rng
    combos = [(N, ring, mode, wait) for N in range(1, 8) for ring in range(N) for mode in modes for wait in (1, 0)]
    cases = []
    i = 0
    while len(cases) < n:
        if i < len(combos):
            N, ring, mode, wait = combos[i]
        else:
            N = r.randint(1, 7)
            ring, mode, wait = r.randrange(N), r.choice(list(modes)), r.choice([1, 1, 0])
        i += 1
        c = gen_pf_cases(ctx, 1, modes=(mode,), waits=(wait,), pools=(N,), gmin=gmin)[0]
        if mode == 's' and i % 3 != 0:          # enough items and threads for a chunk per worker, so that ring < numThreads - 1 occurs
            kn = c['kn']
            size = r.randint(N + 1, 120 if KINDS[kn][0] == 8 else 3000)
            c['g'] = max(gmin, r.choice([1, 1, 2, 3, 8]))
            c['s'] = max(kmin(kn), min(c['s'], kmax(kn) - size))
            c['e'] = c['s'] + size
            c['maxT'] = r.choice([1 << 31, N + 1, N + 2, 1000])
            c['minItems'] = 1
        c['inpool'] = ring + 1
        cases.append(c)
    return cases


def ring_coverage(cases, results_raw):
    """(N, ring) pairs from which the implementation reported that parallel_for was actually called; misses = wanted ring not obtained"""
    seen, miss = set(), 0
    for c, raw in zip(cases, results_raw):
        if not c.get('inpool') or not raw or not raw.startswith('pf '):
            continue
        m = re.search(r'ring (-?\d+)', raw)
        got = int(m.group(1)) if m else -1
        if got == (c['inpool'] - 1) % max(1, c['N']):
            seen.add((c['N'], got))
        else:
            miss += 1
    return seen, miss


def gen_pf_fullrange_cases(ctx, n):
    """narrow signed kinds with sizes beyond kmax (int8 / int16 ranges spanning more than half of the type)"""
    r = ctx.rng
    cases = []
    while len(cases) < n:
        kn = r.choice([0, 2])
        lo, hi = kmin(kn), kmax(kn)
        size = r.randint(hi + 1, hi - lo)
        if kn == 2 and r.random() < 0.5:
            size = r.choice([hi - lo, hi - lo - 1, hi + 1, hi + 2])
        s = r.choice([lo, hi - size, r.randint(lo, hi - size)])
        N = r.choice([1, 2, 3, 5])
        mode = r.choice(['s', 'a', 'a', 'c'])
        chunk = max(1, min(hi - 1, r.choice([size // 100 + 1, size // 3, 100]))) if mode == 'c' else 0
        minItems = r.choice([1, 1, size // 3, size // 2, size // (N + 1), 100])
        cases.append({'kn': kn, 's': s, 'e': s + size, 'mode': mode, 'chunk': chunk, 'N': N, 'maxT': r.choice([1 << 31, 2, 3]),
                      'minItems': max(1, minItems), 'g': r.choice([1, 1, 2, 8]), 'wait': r.choice([0, 1]), 'rdv': 0, 'reuse': 0})
    return cases


def run_pf_cases(exe, cases):
    """-> list of (overrun: bool, chunks [(a,b)] or None when the harness failed, raw line)"""
    outs = run_harness(exe, [pf_line(c) for c in cases])
    res = []
    for c, o in zip(cases, outs):
        if o == 'OVERRUN':
            res.append((True, [], o))
            continue
        p = parse_pf(o)
        if p is None:
            res.append((False, None, o))
            continue
        ch = [(a, b) for a, b, _ in p['chunks']]
        if len(ch) > MAX_RECORDED:
            res.append((True, [], 'pf %d ... (more than %d invocations)' % (len(ch), MAX_RECORDED)))
        else:
            res.append((False, ch, o))
    return res


def rle(ch):
    """lossless run-length encoding of an invocation list: (a, len, n) = n invocations [a+i*len, a+(i+1)*len)"""
    runs = []
    for a, b in ch:
        if runs and runs[-1][1] == b - a and runs[-1][0] + runs[-1][1] * runs[-1][2] == a:
            runs[-1][2] += 1
        else:
            runs.append([a, b - a, 1])
    back = [(a + i * l, a + (i + 1) * l) for a, l, n in runs for i in range(n)]
    assert back == list(ch)
    return runs


def coq_case(c, l3, overrun, ch):
    """flat list of Z understood by C12Check.decode_case (type-checks an order of magnitude faster than nested tuples)"""
    kn = c['kn']
    chunkv = {'s': kmax(kn), 'a': 0}.get(c['mode'], c['chunk'])
    v = [kn, c['s'], c['e'], chunkv, c['N'], c['maxT'], c['minItems'], c['g'], 1 if c['wait'] else 0, l3, 1 if overrun else 0]
    for a, l, n in rle(ch):
        v += [a, l, n]
    return dv.coq_list([dv.zlit(x) for x in v])


def judge_pf(ctx, name, judge, cases, results, l3, per_file=2000):
    """evaluate `judge` (judge_c12 / judge_c13) inside Coq on (config, what the implementation did).  -> verdict list or None"""
    verdicts = []
    idx = [i for i, (ov, ch, raw) in enumerate(results) if ch is not None]
    k = 0
    for part in [idx[i:i + per_file] for i in range(0, len(idx), per_file)] or [[]]:
        terms = [coq_case(cases[i], l3, results[i][0], results[i][1]) for i in part]
        res = coq_judge(ctx, '%s_%d' % (name, k), PF_IMPORTS, [(judge + '_flat', terms)])
        k += 1
        if res is None:
            return None
        verdicts += res[0]
    out = [None] * len(cases)
    for i, v in zip(idx, verdicts):
        out[i] = v
    return out
