"""Shared machinery of the thread-pool core checks C01 / C03 / C08 (tie E: event-level lockstep under harness/vsched_pool.h).

One harness (harness/h_pool.cpp) drives the REAL dispenso::ThreadPool with its own worker threads enrolled in the cooperative
scheduler; the implementation's event trace is folded through the Gallina `accept` (coq/Model/PoolModel.v) inside Coq
(`judge_pool`, coq/Model/PoolCheck.v), snapshots taken at quiescent points are compared with the model state, and the executable
properties are evaluated on the implementation's own output."""
import dv, ls_common, re

EVENTS = {   # name -> (constructor, arity pattern); the list two other workers reuse (see the final report)
    'gen': 'EGen', 'pool.load.numThreads': 'ELoadNumThreads', 'pool.wr.add': 'EAdd', 'pool.wr.sub': 'ESub',
    'pool.enq.central': 'EEnqCentral', 'pool.ring.push': 'ERingPushFail', 'pool.ring.push.end': 'ERingPushEnd',
    'pool.ring.push_batch': 'EPushBatch', 'pool.steal.push': 'EStealPush', 'pool.load.numRings': 'ELoadNumRings',
    'pool.inline': 'EInline', 'pool.pop.central': 'EPopCentral', 'pool.pop.ring': 'EPopRing', 'pool.pop.steal': 'EPopSteal',
    'body.begin': 'EBodyBegin', 'body.end': 'EBodyEnd', 'worker.begin': 'EWorkerBegin', 'worker.end': 'EWorkerEnd',
    'pool.resize.begin': 'EResizeBegin', 'pool.stop_all': 'EStopAll', 'pool.wake_all': 'EWakeAll',
    'pool.drain.central.done': 'ECentralDone', 'pool.join.begin': 'EJoinBegin', 'pool.join.done': 'EJoinDone',
    'pool.drain.ring': 'EDrainRing', 'pool.drain.ring.done': 'ERingDone', 'pool.drain.steal': 'EDrainSteal',
    'pool.drain.steal.done': 'EStealDone', 'pool.store.numRings': 'EStoreNumRings', 'pool.store.numSteal': 'EStoreNumSteal',
    'pool.store.numThreads': 'EStoreNumThreads', 'pool.threads_started': 'EThreadsStarted', 'pool.resize.end': 'EResizeEnd',
    'pool.dtor.begin': 'EDtorBegin', 'pool.dtor.end': 'EDtorEnd',
}
POPS = ('pool.pop.central', 'pool.pop.ring', 'pool.pop.steal', 'pool.drain.ring', 'pool.drain.steal')
KEY_C03_RING = 'strand-after-shrink-racing-ring-fastpath'
KEY_C03_CENTRAL = 'strand-central-after-resize0-racing-schedule'
KEY_C01_LATE = 'dtor-drain-task-reschedules'

Z = dv.zlit
B = lambda x: 'true' if x else 'false'


def parse(line):
    """harness output line -> dict or None"""
    if line is None or not line.startswith('events'):
        return None
    parts = [p.strip() for p in line.split('|')]
    if len(parts) < 6:
        return None
    evs = []
    for tok in parts[0].split()[1:]:
        t, name, a, b = tok.rsplit(':', 3)
        evs.append((int(t), name, int(a), int(b)))
    counts = [int(x) for x in parts[1].split()[1:]]
    snaps = []
    for tok in parts[2].split()[1:]:
        f = tok[1:].split(':')
        snaps.append({'final': tok[0] == 'F', 'pos': int(f[0]), 'wr': int(f[1]), 'nt': int(f[2]), 'nr': int(f[3]), 'ns': int(f[4]), 'central': int(f[5]),
                      'rings': [int(x) for x in f[6].split(',') if x != ''], 'steals': [int(x) for x in f[7].split(',') if x != '']})
    hang = int(parts[3].split('=')[1])
    m = re.search(r'n0 (\d+) caps (\d+) (\d+) (\d+) timeouts (\d+) steps (\d+)', parts[4])
    status = {'done': 0, 'deadlock': 1, 'budget': 2}.get(parts[-1].split()[-1], 9)
    return {'events': evs, 'counts': counts, 'snaps': snaps, 'hang': hang, 'n0': int(m.group(1)), 'caps': [int(m.group(i)) for i in (2, 3, 4)],
            'timeouts': int(m.group(5)), 'steps': int(m.group(6)), 'status': status}


def event_terms(evs):
    """(tid, name, a, b) list -> Gallina (nat * event) terms; a popped task's identity = the next body.begin of that thread"""
    nxt = {}            # tid -> id of the next body.begin, scanning backwards
    ids = [None] * len(evs)
    for i in range(len(evs) - 1, -1, -1):
        t, name, a, b = evs[i]
        if name == 'body.begin':
            nxt[t] = a
        elif name in POPS:
            ids[i] = nxt.get(t, -1)
            nxt[t] = -1
    out = []
    one = ('gen', 'body.begin', 'body.end', 'worker.begin', 'worker.end', 'pool.resize.begin', 'pool.inline', 'pool.drain.central.done',
           'pool.drain.ring.done', 'pool.drain.steal.done', 'pool.store.numRings', 'pool.store.numSteal', 'pool.store.numThreads',
           'pool.threads_started', 'pool.ring.push.end')
    for i, (t, name, a, b) in enumerate(evs):
        c = EVENTS.get(name)
        if c is None:
            return None
        if name in one:
            e = '%s %s' % (c, Z(a))
        elif name == 'pool.ring.push':
            if b != 0:
                return None
            e = '%s %s' % (c, Z(a))
        elif name == 'pool.load.numThreads':
            e = '%s %s %s' % (c, B(a != 0), Z(b))
        elif name == 'pool.steal.push':
            e = '%s %s %s' % (c, Z(a), B(b != 0))
        elif name in ('pool.wr.add', 'pool.wr.sub', 'pool.enq.central', 'pool.ring.push_batch', 'pool.load.numRings'):
            e = '%s %s %s' % (c, Z(a), Z(b))
        elif name == 'pool.pop.central':
            e = '%s %s %s' % (c, Z(ids[i]), Z(a))
        elif name in ('pool.pop.ring', 'pool.pop.steal'):
            e = '%s %s %s %s' % (c, Z(a), Z(ids[i]), Z(b))
        elif name in ('pool.drain.ring', 'pool.drain.steal'):
            e = '%s %s %s' % (c, Z(a), Z(ids[i]))
        else:
            e = c
        out.append('(%d%%nat,%s)' % (t, e))
    return out


def term_of(p):
    evs = event_terms(p['events'])
    if evs is None:
        return None
    snaps = ['(SN %d%%nat %s %s %s %s %s %s %s %s)' % (s['pos'], Z(s['wr']), Z(s['nt']), Z(s['nr']), Z(s['ns']), Z(s['central']),
                                                     dv.coq_list([Z(x) for x in s['rings']]), dv.coq_list([Z(x) for x in s['steals']]), B(s['final']))
             for s in p['snaps']]
    return '(PC %s %s %s %s %s %s %s %s %s)' % (Z(p['n0']), Z(p['caps'][0]), Z(p['caps'][1]), Z(p['caps'][2]), dv.coq_list(evs),
                                                dv.coq_list([Z(x) for x in p['counts']]), dv.coq_list(snaps), Z(p['hang']), Z(p['status']))


# ------------------------------------------------------------------------------------------------ case generation

def bursts(r, n):
    out = []
    while len(out) < n:
        v = r.choice([0, 0, 1, 1, 2, 2, 3, r.randrange(0, 50)])
        out += [v] * r.choice([1, 1, 2, 3, 5, 8, 13, 30, 45])
    return out[:n]


def gen_prog(r, n0, resizer, first):
    ops = []
    for _ in range(r.randint(1, 4)):
        x = r.random()
        if x < 0.18: ops.append('s%d' % r.choice([0, 0, 1, 2]))
        elif x < 0.36: ops.append('f%d' % r.choice([0, 0, 1, 2]))
        elif x < 0.50: ops.append('b%d' % r.choice([1, 2, 3, 5, 9]))
        elif x < 0.68: ops.append('t%d' % r.choice([1, 2, 3, 4, 5, max(1, n0)]))
        elif x < 0.76: ops.append('p%d' % r.choice([0, 0, 1]))
        elif x < 0.82: ops.append('P%d' % r.choice([1, 2, 4]))
        elif x < 0.90 and first: ops.append('q')
        elif resizer: ops.append('r%d' % r.choice([0, 1, 2, 2, 3, 4, 5]))
        else: ops.append('s0')
    if resizer and r.random() < 0.6 and not any(o[0] == 'r' for o in ops):
        ops.insert(r.randrange(len(ops) + 1), 'r%d' % r.choice([0, 1, 2, 3, 4, 5]))
    return ops


def gen_case(r):
    n0 = r.choice([0, 1, 2, 2, 3, 4, 4, 5])
    np_ = r.choice([1, 2, 2, 3])
    resizer = r.randrange(np_) if r.random() < 0.75 else -1
    progs = [gen_prog(r, n0, i == resizer, i == 0) for i in range(np_)]
    return {'n0': n0, 'budget': 2500, 'finalq': 0 if r.random() < 0.3 else 1, 'progs': progs, 'sched': bursts(r, 90)}


def gen_placed_dtor(r):
    """boundary case: placed submissions (steal rings) to a pool whose workers are already asleep, destructor right afterwards (no
    quiescence wait), so that ~ThreadPool's own steal-ring / ring / central drains have work to do"""
    n0 = r.choice([1, 2, 3, 4])
    ops = [r.choice(['p0', 'p0', 'p1', 'f0', 'P2', 't%d' % n0]) for _ in range(r.randint(1, 4))]
    return {'n0': n0, 'budget': 2500, 'finalq': 0, 'progs': [ops], 'sched': [1] * (3 * n0 + r.choice([0, 1, 2])) + [0] * 60 + bursts(r, 30)}


def cross_steal_probe(n0, k, j=1):
    """deterministic probe (pool with two steal-ring groups, n0 in {9, 12, 16}): reach the CROSS-RING steal of tryFindAndExecuteWork.
    All workers are put to sleep; TaskSet::scheduleBulk(8) gives workers 0..7 (all of group 0) one task each from their own ring
    (preferRing = true); each is driven to the park right after its batch flush (awake, counted as working) while the producer is held
    (h8); the producer's schedulePlaced then finds the only sleepers in group 1, claims one and pushes into steal ring 1; group-0 worker
    number j is granted next: it spins past kCrossRingFailThreshold and pops steal ring 1 ("pool.pop.steal" site 1).  Tail = public-effect
    probe: with exactly floor(1.5 n0) + 1 tasks pending, a pool-recursive schedule() must run its task inline (as on a fresh pool)."""
    qlf = n0 + n0 // 2
    sched = [1] * (2 * n0) + [0] * k
    for i in range(8):
        sched += [i] * 4           # producer held: cands = woken workers, index i = worker i; 4 grants: pop, body.begin, body.end, flush
    sched += [0] * 4 + [j] + [0] * 600
    return {'name': 'cross-steal-%d' % n0, 'n0': n0, 'budget': 9000, 'finalq': 1, 'qlf': qlf,
            'progs': [['t8', 'h8', 'p0', 'q', 'f1'] + ['f0'] * qlf + ['q']], 'sched': sched}


def gen_big(r):
    """pools with two steal-ring groups (more than kStealRingSharing = 8 threads): short programs, placed submissions biased"""
    n0 = r.choice([9, 12, 16])
    np_ = r.choice([1, 2])
    progs = []
    for i in range(np_):
        ops = [r.choice(['p0', 'p0', 'p1', 'P3', 'f0', 's0', 't%d' % r.choice([3, 8, n0]), 'b5']) for _ in range(r.randint(1, 3))]
        if i == 0 and r.random() < 0.3:
            ops.append('r%d' % r.choice([4, 9, 10]))
        progs.append(ops)
    return {'n0': n0, 'budget': 6000, 'finalq': r.choice([0, 1, 1]), 'progs': progs, 'sched': [1] * r.choice([0, n0, 2 * n0]) + bursts(r, 80)}


def gen_overflow(r):
    """boundary case: more ring-path submissions to ring 0 than its capacity while the workers are kept from popping (producers run
    first; several task sets, because one set stops using the ring path beyond its load factor 4 * threads), so that try_push fails and
    the central-queue fallback is exercised; optionally an early destructor"""
    n0 = r.choice([2, 3, 4])
    progs = [['t1'] * 9 for _ in range(3)]
    if r.random() < 0.4:
        progs[2].append('r%d' % r.choice([1, 2, 3]))
    return {'n0': n0, 'budget': 5000, 'finalq': r.choice([0, 1, 1]), 'progs': progs, 'sched': [0] * r.choice([200, 240]) + bursts(r, 40)}


def gen_batched(r):
    """boundary case: a shrink completes between scheduleBulkToRings' workRemaining_ add and its numRings_ load: count > ringCount, so
    the batched path (try_push_batch, several tasks per ring) is taken"""
    n0 = r.choice([3, 4, 5])
    m = r.randrange(1, n0)
    return {'n0': n0, 'budget': 2500, 'finalq': r.choice([0, 1]), 'progs': [['t%d' % n0] + [r.choice(['s0', 'f0', 't%d' % m])], ['r%d' % m]],
            'sched': [0] + [1] * 60 + bursts(r, 60)}


def line_of(c):
    return '%d %d %d ; %s ; S %s' % (c['n0'], c['budget'], c.get('finalq', 1), ' ; '.join(' '.join(p) if p else ' ' for p in c['progs']), ' '.join(map(str, c['sched'])))


# deterministic witnesses of the known findings (forced by explicit decision lists; replayed first on every run)
WITNESSES = [
    # C08 regression (fixed by 8892b78): bulk 2 tasks to the rings of a parked 4-thread pool, resize(2) before any worker pops: the resize
    # drains them; before the fix workRemaining_ stayed at 2 for the rest of the pool's life
    {'name': 'C08-ring-drain', 'n0': 4, 'budget': 800, 'progs': [['t2', 'r2', 'q', 's0', 'q']], 'sched': [0] * 200},
    # C08 public effect (hook-free observation: which thread runs the body): 35 tasks pushed to rings and drained by 23 resizes, pool ends with
    # 1 thread (poolLoadFactor_ = 32); a plain schedule() on the then idle pool must be queued, not run inline on the caller
    {'name': 'C08-public-effect', 'n0': 2, 'budget': 9000, 'progs': [['t2', 'r1', 't1', 'r2'] * 11 + ['t2', 'r1', 'q', 's0', 'q']], 'sched': [0] * 1500},
    # C03: producer 0 has loaded ringCount = 4 in scheduleBulkToRings, producer 1 shrinks the pool to 2, producer 0 then pushes into rings 0..3
    {'name': 'C03-strand-ring', 'n0': 4, 'budget': 900, 'progs': [['t4'], ['r2']], 'sched': [0, 0] + [1] * 45 + [0] * 150},
    # C03 second candidate: producer 0 has read numThreads_ != 0 in forceEnqueue, producer 1 runs resize(0), producer 0 then enqueues centrally
    {'name': 'C03-strand-central', 'n0': 2, 'budget': 900, 'progs': [['f0', 'q'], ['r0']], 'sched': [0, 0] + [1] * 45 + [0] * 150},
    # C01: a task sitting in a steal ring when ~ThreadPool starts is run by the destructor's steal-ring drain; its body calls pool.schedule():
    # the child is enqueued centrally after the destructor's last central drain and is never run
    # cross-ring steal + public-effect probes on pools with two steal-ring groups (see cross_steal_probe)
    cross_steal_probe(9, 12, 1), cross_steal_probe(12, 12, 2), cross_steal_probe(16, 11, 1),
    {'name': 'C01-dtor-drain-reschedules', 'n0': 1, 'budget': 900, 'finalq': 0, 'progs': [['p1']], 'sched': [1] * 5 + [0] * 120},
]


def run_pool(ctx, prop):
    """common driver; returns list of (case, parsed, verdict-list) ; prop in {'C01','C03','C08'} selects the verdict column"""
    exe = dv.build_harness('h_pool', ['h_pool.cpp'])
    ctx.phase('build')
    r = ctx.rng
    n = 300 if ctx.quick else 6000
    cases = list(WITNESSES) + [gen_overflow(r) if i % 50 == 3 else gen_big(r) if i % 30 == 11 else gen_batched(r) if i % 25 == 13 else gen_placed_dtor(r) if i % 25 in (7, 17) else gen_case(r) for i in range(n)]
    outs = ls_common.run_cases(exe, [line_of(c) for c in cases], jobs=10)
    ctx.phase('run')
    kept, terms = [], []
    for c, o in zip(cases, outs):
        p = parse(o)
        if p is None:
            ctx.broken.append('pool harness output unreadable for %s: %s' % (line_of(c)[:160], (o or '')[:200]))
            continue
        t = term_of(p)
        if t is None:
            ctx.broken.append('pool harness printed an event the model does not know: %s' % line_of(c)[:160])
            continue
        kept.append((c, p, o))
        terms.append(t)
    res = judge(ctx, terms)
    ctx.phase('judge')
    if res is None:
        ctx.broken.append('correspondence E(%s): the model no longer evaluates' % prop)
        return []
    return [(c, p, o, v) for (c, p, o), v in zip(kept, res)]


def judge(ctx, terms, shard_size=None, jobs=6, timeout=900):
    """evaluate `map judge_pool terms` in Coq, sharded; returns list of int lists or None"""
    import concurrent.futures as cf
    if not terms:
        return []
    shard_size = shard_size or max(20, (len(terms) + jobs - 1) // jobs)     # coqc start-up dominates: few large shards
    shards = [terms[i:i + shard_size] for i in range(0, len(terms), shard_size)]

    def one(ix):
        body = ('From Coq Require Import ZArith List Bool.\nImport ListNotations.\nFrom DV Require Import Model.PoolModel Model.PoolCheck.\nLocal Open Scope Z_scope.\n' +
                'Definition cases := %s.\nEval vm_compute in (map judge_pool cases).\n' % dv.coq_list(shards[ix]))
        rc, out = dv.coq_eval(ctx.work, 'pool_%d' % ix, body, timeout)
        if rc != 0:
            return ('err', out[-1500:])
        vals = dv.eval_results(out)
        return ('ok', dv.parse_zlist(vals[0]))
    with cf.ThreadPoolExecutor(max_workers=jobs) as ex:
        res = list(ex.map(one, range(len(shards))))
    out = []
    for kind, v in res:
        if kind == 'err':
            ctx.cov.setdefault('coq_eval_errors', []).append(v)
            return None
        out += v
    return out


COL = {'C01': 3, 'C03': 4, 'C08': 5}


def report(ctx, prop, rows, describe):
    """fill coverage, register violations.  describe(c, p, v) -> (text, finding_key or None) for a failing case"""
    col = COL[prop]
    hist = {}
    distinct = set()
    for c, p, o, v in rows:
        code = v[col]
        hist[code] = hist.get(code, 0) + 1
        if len(p['events']) > 12:
            distinct.add(o.split('| counts')[0])
        if code in (2, 4):
            text, key = describe(c, p, v)
            obj = {'case': line_of(c), 'cmd': 'echo "<case>" | build/harness/h_pool-*', 'output': o[:3000], 'judge': v}
            if code == 4 and key:
                obj['finding_key'] = key
            ctx.violation(text, obj)
        elif code == 1:
            ctx.broken.append('correspondence E(%s): the model rejects / disagrees with the real trace at event %d (accepted=%d snapshots_agree=%d) on %s' % (
                prop, v[1], v[0], v[2], line_of(c)[:200]))
    ctx.cov['evaluations'] += len(rows)
    ctx.cov['distinct_nontrivial'] += len(distinct)
    ctx.cov['rule'] = ('generated programs (1-3 enrolled producers x 1-4 ops of schedule / schedule(Force) / scheduleBulk / TaskSet::scheduleBulk / schedulePlaced / '
                       'scheduleBulkPlaced / resize / quiescence-wait, pool sizes 0..5 and 9/12/16 (two steal-ring groups), pool-recursive bodies) x burst decision lists, one fork per case with the '
                       "pool's own workers enrolled in the cooperative scheduler; non-trivial = more than 12 events; distinct = distinct event traces")
    ctx.cov['verdict_histogram'] = {'accepted_and_holds': hist.get(0, 0), 'disagree_property_holds': hist.get(1, 0), 'violation': hist.get(2, 0),
                                    'inconclusive_budget': hist.get(3, 0), 'violation_in_known_domain': hist.get(4, 0)}
    ctx.cov['traces_validated_against_impl'] += hist.get(0, 0) + hist.get(4, 0)
    ctx.cov['events_total'] = sum(len(p['events']) for _, p, _, _ in rows)
    ctx.cov['timeout_steps_total'] = sum(p['timeouts'] for _, p, _, _ in rows)
    ctx.cov['pool_size_histogram'] = {str(k): sum(1 for c, _, _, _ in rows if c['n0'] == k) for k in (0, 1, 2, 3, 4, 5, 9, 12, 16)}
    ctx.cov['cases_with_resize'] = sum(1 for c, _, _, _ in rows if any(o[0] == 'r' for pr in c['progs'] for o in pr))
    ctx.cov['cases_with_ring_fastpath'] = sum(1 for _, p, _, _ in rows if any(e[1] == 'pool.load.numRings' for e in p['events']))
    ctx.cov['cases_with_ring_overflow_fallback'] = sum(1 for _, p, _, _ in rows if any(e[1] == 'pool.ring.push' for e in p['events']))
    ctx.cov['cases_with_batched_ring_push'] = sum(1 for _, p, _, _ in rows if any(e[1] == 'pool.ring.push_batch' for e in p['events']))
    ctx.cov['cases_with_steal_ring_push'] = sum(1 for _, p, _, _ in rows if any(e[1] == 'pool.steal.push' and e[3] == 1 for e in p['events']))
    ctx.cov['cases_with_cross_ring_steal'] = sum(1 for _, p, _, _ in rows if any(e[1] == 'pool.pop.steal' and e[3] == 1 for e in p['events']))
    ctx.cov['cases_with_two_steal_groups'] = sum(1 for c, _, _, _ in rows if c['n0'] > 8)
    ctx.cov['cases_with_dtor_drain_pop'] = sum(1 for _, p, _, _ in rows if any(e[1] in ('pool.drain.ring', 'pool.drain.steal') and e[3] == 1 for e in p['events']))
    for c, p, o, v in rows[:2]:
        ctx.sample({'case': line_of(c)[:160], 'impl': o[:300], 'judge': v})
