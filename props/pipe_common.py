"""Shared case generation / harness driving / Coq terms for the pipeline properties (C27, C28, C29).
Tie: lockstep (L) under harness/vsched.h at gate granularity on the real dispenso::pipeline (harness/h_pipeline.cpp, mode L),
plus history-level native runs on real pools (mode N) and the single-stage pipeline (mode O)."""
import dv, ls_common, re

SITES = ['start', 'ce.wait.load', 'futex.wait', 'futex.woken', 'cts.wait.load', 'h.worker', 'ts.exc.cas', 'ts.exc.cancel.store',
         'pipe.gen.hasException', 'h.gen', 'pipe.gen.completion.dec', 'ce.notify.store', 'futex.wake',
         'pipe.sched.out.inc', 'pipe.sched.enqueue', 'pipe.sched.res.sub', 'pipe.sched.try_dequeue', 'pipe.sched.res.add',
         'pipe.utask.hasException', 'h.stage', 'pipe.cb.try_dequeue', 'pipe.cb.res.add', 'pipe.task.res.add', 'pipe.task.out.dec',
         'pipe.wait.out.load', 'pipe.wait.hasException', 'pipe.wait.discard.try_dequeue', 'pipe.wait.discard.out.dec',
         'pipe.wait.try_dequeue', 'pipe.wait.res.sub', 'pipe.wait.res.add', 'pipe.wait.hasException2', 'pipe.wait.out.dec2',
         'pipe.uwait.out.load', 'pipe.uwait.hasException', 'pipe.uwait.try_dequeue', 'pipe.uwait.res.sub', 'pipe.uwait.res.add']
NO_LIMIT = 9223372036854775807
KEY_LEAK = 'cancelled-oncefunction-payload-never-destroyed'
IMPORTS = 'From DV Require Import Base.Sched Model.PipelineModel Model.C27Check Model.C28Check Model.C29Check.'


def harness():
    return dv.build_harness('h_pipeline', ['h_pipeline.cpp'])


# ------------------------------------------------------------------------------------------------ cases
def gen_stage(r, n, sink, allow_throw):
    x = r.random()
    limit = 1 if x < 0.4 else (2 if x < 0.6 else (3 if x < 0.7 else (-1 if x < 0.9 else r.choice([0, 4, 7]))))
    kind = 's' if sink else r.choice(['p', 'f', 'f'])
    drops = sorted(set(r.randrange(n) for _ in range(r.choice([0, 1, 2, 3])))) if (kind == 'f' and n > 0) else []
    throws = []
    if allow_throw and n > 0 and r.random() < 0.5:
        throws = sorted(set(r.choice([0, n // 2, n - 1, r.randrange(n)]) for _ in range(r.choice([1, 1, 2]))))
    return {'kind': kind, 'limit': limit, 'drops': drops, 'throws': throws}


def gen_case(r, exceptions=False, small=True):
    """a lockstep case; exceptions=False: no throwing stage (C27/C28 domain), True: at least one throw position"""
    nst = r.choice([1, 1, 2, 2, 2, 3, 3, 4])                 # later stages (total stages = nst + 1 <= 5)
    n = r.choice([0, 1, 2, 2, 3, 3, 4, 5, 6]) if small else r.choice([0, 1, 3, 5, 8, 12, 20, 30])
    numT = r.choice([1, 1, 2, 2, 3, 4])
    nworkers = r.choice([1, 1, 2, 2, 3])
    plf = 0                                                  # chosen below (depends on the number of generator instances)
    dep0 = r.choice([0, 0, 0, 30, 31])
    bare = 1 if r.random() < 0.12 else 0
    glimit = r.choice([1, 1, 2, 3, 0, 100])
    gthrow = -1
    inst = max(1, min(numT, max(1, 1 if bare else glimit)))
    # poolLoadFactor_: large (no load-inlining) or small (tasks run inline as soon as that many are pending; below inst - 1 a
    # generator instance runs inline inside execute())
    plf = r.choice([32 * numT, 32 * numT, 0, inst - 1, inst, inst + 1])
    stages = [gen_stage(r, n, i == nst - 1, exceptions) for i in range(nst)]
    if exceptions:
        if r.random() < 0.2:
            gthrow = r.choice([0, n // 2, n])
        if gthrow < 0 and not any(s['throws'] for s in stages) and n > 0:
            stages[r.randrange(nst)]['throws'] = [r.randrange(n)]
        elif gthrow < 0 and n == 0:
            gthrow = 0
    budget = r.choice([120, 200, 300]) if small else 600
    sched = [r.randrange(0, 60) for _ in range(budget + 8)]
    # bias: long runs of one thread (coarse interleavings) in half of the cases
    if r.random() < 0.5:
        sched = []
        while len(sched) < budget + 8:
            sched += [r.randrange(0, 60)] * r.choice([1, 2, 3, 5, 8, 13])
        sched = sched[:budget + 8]
    return {'numT': numT, 'plf': plf, 'nworkers': nworkers, 'dep0': dep0, 'bare': bare, 'glimit': glimit, 'n': n, 'gthrow': gthrow,
            'stages': stages, 'budget': budget, 'sched': sched}


def body_of(c):
    parts = ['P %d %d %d %d %d' % (c['numT'], c['plf'], c['nworkers'], c['dep0'], c['bare']),
             'G %d %d %d' % (c['glimit'], c['n'], c['gthrow'])]
    for s in c['stages']:
        parts.append('T %s %d D %s X %s' % (s['kind'], s['limit'], ' '.join(map(str, s['drops'])), ' '.join(map(str, s['throws']))))
    return parts


def line_of(c):
    return ' ; '.join(['L %d' % c['budget']] + body_of(c) + ['S ' + ' '.join(map(str, c['sched']))])


def native_line(c, reps):
    return ' ; '.join(['N %d' % reps] + body_of(c))


def eff_limit(c, s):
    if c['bare']:
        return 1
    return NO_LIMIT if s['limit'] < 0 else max(1, s['limit'])


def cfg_coq(c, oracle=False):
    st = dv.coq_list(['(SC %s %s %s %s)' % (dv.zlit(eff_limit(c, s)), 'true' if s['kind'] == 'f' else 'false',
                                             dv.coq_list([str(x) for x in s['drops']]), dv.coq_list([str(x) for x in s['throws']]))
                      for s in c['stages']])
    gl = 1 if c['bare'] else c['glimit']
    workers = dv.coq_list(['(true, %d)' % c['dep0']] * c['nworkers'])
    return '(CFG %d %s %s %d %s %s %s %s)' % (c['numT'], dv.zlit(c['plf']), dv.zlit(gl), c['n'], dv.zlit(c['gthrow']), st,
                                             'true' if oracle else 'false', workers)


# ------------------------------------------------------------------------------------------------ outputs
def parse_log(txt):
    rows = []
    for tok in txt.split()[1:]:
        rows.append([int(x) for x in tok.split(':')])
    return rows


def parse_out(line):
    """L-mode output line -> dict or None"""
    if line is None or not line.startswith('steps'):
        return None
    parts = [p.strip() for p in line.split('|')]
    if len(parts) != 4:
        return None
    steps = []
    for tok in parts[0].split()[1:]:
        t, site = tok.split(':', 1)
        if site not in SITES:
            return {'error': 'unknown site ' + site}
        steps.append((int(t), SITES.index(site)))
    fin = dict(kv.split('=') for kv in parts[2].split()[1:])
    status = {'done': 0, 'deadlock': 1, 'budget': 2}.get(parts[3].split()[-1], 9)
    return {'steps': steps, 'log': parse_log(parts[1]), 'ret': int(fin['ret']), 'live': int(fin['live']), 'errs': int(fin['errs']),
            'wr': int(fin['wr']), 'q': int(fin['q']), 'blk': int(fin.get('blk', 0)), 'status': status}


def parse_native(line):
    if line is None or not line.startswith('N log'):
        return None
    parts = [p.strip() for p in line[2:].split('|')]
    fin = dict(kv.split('=') for kv in parts[1].split()[1:])
    return {'log': parse_log(parts[0]), 'ret': int(fin['ret']), 'live': int(fin['live']), 'errs': int(fin['errs']), 'reuse': int(fin['reuse'])}


def rows_coq(rows):
    return dv.coq_list([dv.coq_list([dv.zlit(x) for x in r]) for r in rows])


def term_of(c, p):
    return '(PC %s %d%%nat %s %s %s %s %d %d %d %d %d)' % (
        cfg_coq(c), ls_common.fuel_of(c['budget'], p['status']), dv.coq_list([str(x) for x in c['sched']]), ls_common.zpairs(p['steps']), rows_coq(p['log']),
        dv.zlit(p['ret']), p['live'], p['wr'], p['q'], p['blk'], p['status'])


def native_term(c, p):
    """native histories are judged by the same executable properties; there is no schedule, so no model re-run (fuel 0)"""
    return '(PC %s 0%%nat [] [] %s %s %d %d 0 0 0)' % (cfg_coq(c), rows_coq(p['log']), dv.zlit(p['ret']), p['live'], 0 if p['reuse'] == 1 else 1)


# ------------------------------------------------------------------------------------------------ domains (mirror PipelineModel.v)
def ninst(c):
    gl = 1 if c['bare'] else c['glimit']
    return max(1, min(c['numT'], max(1, gl)))


def has_throw(c):
    return c['gthrow'] >= 0 or any(s['throws'] for s in c['stages'])



def mk_case(numT, plf, nworkers, glimit, n, gthrow, stages, budget, sched, dep0=0, bare=0):
    return {'numT': numT, 'plf': plf, 'nworkers': nworkers, 'dep0': dep0, 'bare': bare, 'glimit': glimit, 'n': n, 'gthrow': gthrow,
            'stages': stages, 'budget': budget, 'sched': sched}


def st(kind, limit, drops=(), throws=()):
    return {'kind': kind, 'limit': limit, 'drops': list(drops), 'throws': list(throws)}


# deterministic witness of the remaining known finding (the run of C29_refuted) and the former witnesses of the two repaired ones
# (C29_hang_regression, C29_escape_regression), replayed first on every run
WIT_LEAK = mk_case(1, 32, 1, 1, 2, -1, [st('s', 4, (), (1,))], 60, [0] * 60)
WIT_HANG = mk_case(2, 64, 1, 2, 1, -1, [st('s', 1, (), (0,))], 60, [0] * 60)
WIT_ESCAPE = mk_case(3, 0, 1, 3, 3, 0, [st('s', 1)], 60, [0] * 60)
KEY_HANG = 'cancelled-generator-instance-never-signals-completion'
KEY_ESCAPE = 'exception-escapes-execute-use-after-free'


def run_lockstep(ctx, exe, cases):
    """run the cases under vsched; returns (kept, terms): kept = [(case, parsed, raw)], terms = Coq pcase terms"""
    outs = ls_common.run_cases(exe, [line_of(c) for c in cases])
    kept, terms = [], []
    for c, o in zip(cases, outs):
        p = parse_out(o)
        if p is None or 'error' in p:
            ctx.violation('the real pipeline crashed or produced no result on %s: %s' % (line_of(c)[:200], (o or '')[:200]),
                          {'case': line_of(c), 'output': o, 'cmd': 'echo "<case>" | build/harness/h_pipeline-*'})
            continue
        kept.append((c, p, o))
        terms.append(term_of(c, p))
    return kept, terms


def run_native(ctx, exe, cases, reps):
    """native histories on real pools; returns (kept, terms), one entry per repetition"""
    outs = ls_common.run_cases(exe, [native_line(c, 1) for c in cases for _ in range(reps)], jobs=4)
    kept, terms = [], []
    cs = [c for c in cases for _ in range(reps)]
    for c, o in zip(cs, outs):
        p = parse_native(o)
        if p is None:
            ctx.broken.append('native harness output unreadable for %s: %s' % (native_line(c, 1)[:200], (o or '')[:200]))
            continue
        kept.append((c, p, o))
        terms.append(native_term(c, p))
    return kept, terms


def gen_native(r, exceptions=False):
    c = gen_case(r, exceptions=exceptions, small=False)
    c['numT'] = r.choice([0, 1, 2, 3, 4])
    c['n'] = r.choice([0, 1, 5, 12, 30])
    for s in c['stages']:
        s['drops'] = [x for x in s['drops'] if x < c['n']]
        s['throws'] = [x for x in s['throws'] if x < c['n']] if c['n'] else []
    if exceptions:
        c['glimit'] = 1          # one generator instance: outside the domain of the hang finding (a native hang costs the alarm)
        if c['n'] and not any(s['throws'] for s in c['stages']) and c['gthrow'] < 0:
            c['stages'][-1]['throws'] = [c['n'] // 2]
        if c['gthrow'] > c['n']:
            c['gthrow'] = c['n']
    return c


def site_hist(kept):
    h = {}
    for _, p, _ in kept:
        for _, s in p['steps']:
            h[SITES[s]] = h.get(SITES[s], 0) + 1
    return h
