"""C07 -- submissions to an idle, fully parked pool start without relying on the sleep backstop.
Tie: lockstep (L) on the real PoolWakeState / EpochWaiter under harness/vsched.h + end-to-end replays on a real ThreadPool."""
import re
import dv, ls_common, wake_common as wc

META = {
    'category': 'proof',
    'technique': 'Coq step-level interleaving model of the wake/sleep protocol (one futex per 8-thread group, FUTEX_WAKE n = n arbitrary waiters), refutation witnesses '
                 'found in the model and replayed deterministically on the real code (PoolWakeState in lockstep; a real ThreadPool under a cooperative scheduler whose futex shim '
                 'picks the woken waiters from the decision list), inductive invariants for the submission paths on which the property holds',
    'text': 'C07_refuted: FALSE for the ring fast path (scheduleBulkToRings: task i -> ring i, then FUTEX_WAKE(popcount(mask & [0,count))) on the group-shared futex wakes '
            'arbitrary waiters; 8 threads, 2 tasks, waiters 5 and 6 woken -> both tasks stranded at quiescence). Two further refutations found while modelling: '
            'C07_refuted_hidden (claimAndWakeOne clears bit T but wakes waiter W != T; the desynchronised mask makes later masked wakes under-count, even a full-group ring dispatch strands a task) '
            'and C07_refuted_placed (scheduleImplPlaced wakes BEFORE it pushes; the woken worker can re-park before the push). All three are replayed every run on a real ThreadPool. '
            'C07_holds_except / C07_holds_except_ring (kernel-checked, any number of threads/groups, all schedules and waiter choices): from the clean fully parked pool (every worker in '
            'FUTEX_WAIT with its bit set) no quiescent state has pending work after schedule(), scheduleBulkEnqueue(count) (central queue; claims or cascadeWakeSeed) and '
            'scheduleBulkToRings(count) when the count covers every affected wake group completely (the complement of the first finding\'s domain, Gallina partial_count).',
    'note': 'Trusted: Coq kernel; futex semantics (compare-and-block; wake n = n arbitrary waiters); harness/vsched.h, harness/vsched_pool.h; SC interleaving; the worker loop and submission '
            'skeleton of thread_pool.cpp/.h are hand-modelled (one failed poll round = own ring, central queue iff hint, own steal ring, other steal ring iff preferRing; never other workers\' '
            'locality rings), tied end-to-end by deterministic witness/control replays; timeout-free semantics renders "promptly". No axioms.',
}

ASSUMPTIONS = [
    'sequentially consistent interleaving of the atomic accesses; futex = compare-and-block / wake n arbitrary waiters (each chosen by an oracle); timed waits never time out (timeout-free semantics = "without the backstop")',
    'the wake decisions of scheduleImpl / scheduleImplPlaced / scheduleBulkEnqueue / scheduleBulkToRings and the worker loop are hand-modelled (not translated); lockstep ties PoolWakeState and '
    'EpochWaiter step by step; the skeleton is tied by end-to-end replays on a real ThreadPool',
    'rings do not overflow (one task per ring from an empty pool); Linux EpochWaiter branch',
]

IMPORTS = 'From DV Require Import Base.Sched Model.WakeModel Model.WakeCheck Model.C07Check.'


def partial_count(n, gs, count):
    """python mirror of Gallina C07Check.partial_count (checked against Coq below)"""
    last = (count - 1) // gs
    bits_in_last = count - last * gs
    threads_in_last = min(gs, n - last * gs)
    return bits_in_last < threads_in_last


def e2e_cases(ctx, r):
    """(case line, kind).  kinds: ring (n,count), sched, bulk, hidden, placed"""
    cs = [('c07r 8 2 ; S 5*300', 'ring'), ('c07h 2 2 ; S 1*300', 'hidden'), ('c07p 8 ; S 0*10', 'placed'),      # the three witnesses first
          ('c07r 8 2 ; S 0*10', 'ring'), ('c07s 8 ; S 5*300', 'sched'), ('c07b 8 8 ; S 5*300', 'bulk'), ('c07r 8 8 ; S 3*300', 'ring'),
          ('c07r 16 8 ; S 7*300', 'ring'), ('c07r 16 16 ; S 5*300', 'ring'), ('c07s 2 ; S 1*300', 'sched'), ('c07b 9 5 ; S 4*300', 'bulk'),
          ('c07s 1 ; S 0*10', 'sched'), ('c07r 3 3 ; S 2*300', 'ring')]
    k = 6 if ctx.quick else 60
    for _ in range(k):
        n = r.choice([1, 2, 3, 8, 9, 16])
        d = r.randrange(0, 12)
        x = r.random()
        if x < 0.45:
            lo = (n + 3) // 4
            cs.append(('c07r %d %d ; S %d*300' % (n, r.randint(lo, n), d), 'ring'))
        elif x < 0.65:
            cs.append(('c07s %d ; S %d*300' % (n, d), 'sched'))
        elif x < 0.85:
            cs.append(('c07b %d %d ; S %d*300' % (n, r.randint(1, 2 * n), d), 'bulk'))
        else:
            cs.append(('c07p %d ; S %d*300' % (n, d), 'placed'))
    return cs


def run(ctx):
    ctx.prove(models=['Model/C07Check.v'])
    exe = dv.build_harness('h_wake', ['h_wake.cpp'])
    exe_pool = dv.build_harness('h_wakepool', ['h_wakepool.cpp'])
    exe_nat = dv.build_harness('h_wakenative', ['h_wakenative.cpp'])
    ctx.phase('build')
    r = ctx.rng

    # ---- 1. end-to-end on a real ThreadPool under the cooperative scheduler: the three witnesses first, then controls and random cases
    cs = e2e_cases(ctx, r)
    rc, out = dv.sh([exe_pool], inp='\n'.join(c for c, _ in cs) + '\n', timeout=900)
    lines = [l for l in out.split('\n') if l.strip()]
    ctx.cov['evaluations'] += len(cs)
    hist = {}
    ring_args = []
    for (case, kind), l in zip(cs, lines + ['MISSING'] * len(cs)):
        m = re.search(r'\| started((?: \d)*) \|', l)
        if not m or 'reported' not in l:
            ctx.broken.append('end-to-end harness h_wakepool gave no report for %r: %s' % (case, l[:200]))
            continue
        started = [int(x) for x in m.group(1).split()]
        stranded = any(x == 0 for x in started)
        toks = case.split()
        n = int(toks[1])
        key = None
        if stranded:
            if kind == 'ring':
                count = int(toks[2])
                ring_args.append((n, count))
                # the ring fast path is taken when count*4 >= n and count <= n; domain of the finding = partial group coverage
                if count * 4 >= n and count <= n and partial_count(n, 8, count):
                    key = wc.KEY_C07
            elif kind == 'hidden':
                key = wc.KEY_C07_CLAIM
            elif kind == 'placed':
                key = 'placed-wakes-before-push'
            hist[('stranded', kind)] = hist.get(('stranded', kind), 0) + 1
            txt = 'tasks not started at quiescence (timeout-free) after a submission to a fully parked real ThreadPool: %s -> %s' % (case, l[:300])
            if key:
                ctx.violation(txt, {'finding_key': key, 'case': case})
            else:
                ctx.violation(txt, {'case': case, 'output': l, 'cmd': 'echo "%s" | build/harness/h_wakepool-*' % case})
        else:
            hist[('started', kind)] = hist.get(('started', kind), 0) + 1
    ctx.cov['end_to_end_real_pool'] = {'%s_%s' % k: v for k, v in sorted(hist.items())}
    for i in range(3):
        ctx.sample({'end_to_end_case': cs[i][0], 'impl': (lines + [''] * 3)[i][:300]})
    # observation outside the premise of C07 (informational, never a verdict): a submission that races with a worker which has made its last
    # poll but is not yet in FUTEX_WAIT.  The wakers' "no sleeper observed (totalSleeping_ == 0 / mask == 0) -> bump the epoch, no futex wake"
    # paths lose the wake-up when the worker registers and blocks between the observation and the bump.
    rc, outx = dv.sh([exe_pool], inp='c07x 1 1 ; S 0 0 1 1 1 0 0 0 0 0 0*50\n', timeout=120)
    ctx.cov['observation_outside_premise'] = {'case': 'c07x 1 1 ; S 0 0 1 1 1 0 0 0 0 0 0*50', 'impl': outx.strip()[:300],
                                              'meaning': 'real ThreadPool(1): worker past its last ring poll; producer pushes ring 0 and reads totalSleeping_ == 0; worker '
                                                         'enterSleep..FUTEX_WAIT; producer bumps without wake -> task not started at quiescence (pool was NOT fully parked)'}
    ctx.phase('end_to_end')

    # ---- 2. native supporting evidence (one-sided: only a start later than half of the raised backstop counts)
    rc, out = dv.sh([exe_nat], inp='c07 8 2 1200 %d\nc07s 8 1200 1\n' % (3 if ctx.quick else 10), timeout=300)
    ctx.cov['native_one_sided'] = out.strip()[:400]
    ctx.cov['evaluations'] += 2
    nat = out.split('\n')
    if nat and ' reproduced 1 ' in nat[0]:
        ctx.known(wc.KEY_C07)
    if len(nat) > 1 and nat[1].startswith('c07s') and ' reproduced 1 ' in nat[1]:
        ctx.violation('native: pool.schedule() to an idle pool started only after the backstop: ' + nat[1][:200], {'case': 'c07s 8 1200 1', 'output': nat[1]})
    ctx.phase('native')

    # ---- 3. lockstep on the real PoolWakeState / EpochWaiter
    nraw = 60 if ctx.quick else 2500
    nproto = 30 if ctx.quick else 1200
    cases = [wc.witness_c07_ring()]
    cases += [wc.gen_raw(r) for _ in range(nraw)]
    for fl in ('ring', 'central', 'mixed'):
        cases += [wc.gen_proto(r, fl) for _ in range(nproto)]
    res = wc.run_lockstep(ctx, exe, cases, 'judge_c07', IMPORTS)
    ctx.cov['evaluations'] += len(cases)
    if res is None:
        ctx.broken.append('correspondence L(C07): the model no longer evaluates')
        return
    vh, distinct = {}, set()
    for c, p, o, v in res:
        vh[v] = vh.get(v, 0) + 1
        if len(p['steps']) > len(c['progs']) + 3:
            distinct.add(o.split('| status')[0])
        if v == 4:
            has_partial = any(op[0] in 'DG' and partial_count(c['n'], c['gs'], op[1]) for pr in c['progs'] for op in pr)
            ctx.violation('pending task unreachable at quiescence: ' + o[-300:], {'finding_key': wc.KEY_C07 if has_partial else wc.KEY_C07_CLAIM, 'case': wc.line_of(c)})
        elif v == 2:
            ctx.violation('at quiescence (nothing runnable, timeouts off) a task is pending in a tier whose only possible takers are parked, although the producer completed the '
                          'wake for it; no partial-group wake and no claimAndWakeOne involved: %s -> %s' % (wc.line_of(c), o[-400:]),
                          {'case': wc.line_of(c), 'output': o, 'cmd': 'echo "<case>" | build/harness/h_wake-*'})
        elif v == 1:
            ctx.broken.append('correspondence L(C07): real trace differs from the model on ' + wc.line_of(c) + ' -> ' + o)
    # the python mirror of the domain predicate agrees with the Gallina one
    probe = [(n, gs, k) for (n, gs) in wc.SIZES for k in range(1, n + 1)]
    body = ('From Coq Require Import ZArith List Bool.\nImport ListNotations.\n' + IMPORTS + '\nLocal Open Scope Z_scope.\n' +
            'Eval vm_compute in (map (fun x => match x with (n, g, k) => b2z (partial_count (CFG n g 4 true 1 false) k) end) %s).\n' %
            dv.coq_list(['(%d%%nat,%d%%nat,%d%%nat)' % t for t in probe])).replace('b2z', 'DV.Base.MachInt.b2z')
    rc, outc = dv.coq_eval(ctx.work, 'domain', body, 300)
    vals = dv.eval_results(outc)
    if rc != 0 or not vals or dv.parse_zlist(vals[0]) != [1 if partial_count(*t) else 0 for t in probe]:
        ctx.broken.append('the python mirror of the domain predicate partial_count disagrees with the Gallina definition: ' + outc[-300:])
    ctx.cov['distinct_nontrivial'] += len(distinct)
    ctx.cov['rule'] = ('end-to-end: real ThreadPool, every worker parked, one submission, decision list picks thread order and futex waiters, verdict at the next quiescence; '
                       'lockstep cases = deterministic witness + random raw scripts + random protocol-conformant scripts (workers: park cycle + poll; producers: pushes then '
                       'cascadeWakeSeed/wakeRange/claimAndWakeOne/cascadeWake), n in {1,2,3,8,9,16} and small groups; non-trivial = more steps than thread starts + 3; '
                       'distinct = distinct (trace, results, final state) strings')
    ctx.cov['verdict_histogram'] = {'agree': vh.get(0, 0), 'differ_property_holds': vh.get(1, 0), 'pending_unreachable': vh.get(2, 0),
                                    'pending_unreachable_known_domain': vh.get(4, 0)}
    ctx.cov['traces_validated_against_impl'] += vh.get(0, 0) + vh.get(4, 0)
    ctx.cov['kinds'] = {k: sum(1 for c, _, _, _ in res if c['kind'] == k) for k in set(c['kind'] for c, _, _, _ in res)}
    ctx.sample({'case': wc.line_of(cases[0])[:200], 'impl': res[0][2][-300:]})
    ctx.phase('correspond')
