"""C31 -- graph partial re-evaluation runs exactly the propagated closure.   Tie: D."""
import dv, graph_common as gc

META = {
    'category': 'proof',
    'technique': 'Coq proof about the Gallina model of ForwardPropagator (queue BFS + bidirectional second pass) + differential run of the real '
                 'ForwardPropagator/executors on random DAGs with BiProp sets and random marked subsets against the model and against a reference closure computed in Coq',
    'text': 'Kernel-checked: after marking (all incomplete nodes have counter 0) ForwardPropagator leaves exactly the forward closure of the marked nodes plus the '
            'members of the set objects the closure nodes point to incomplete, every such node\'s counter = number of its incomplete predecessors (prepared state), so '
            'by C30 the executors re-run exactly that set in dependency order; setAllNodesIncomplete prepares a full evaluation.  The set OBJECTS equal the '
            'propagation classes unless biPropDependsOn merged two existing sets (finding biprop-merge-stale-set, reproduced on the real code).',
    'note': 'Trusted: Coq kernel; harness/h_graph.cpp; python case generator. No axioms.',
}

ASSUMPTIONS = [
    'marked nodes have counter 0 when ForwardPropagator runs (true after a completed evaluation + setIncomplete, and for freshly added nodes)',
    'graphs are acyclic; set members are live nodes',
]

KEY = 'biprop-merge-stale-set'


def run(ctx):
    ctx.prove(models=['Model/GraphLits.v', 'Model/C30Check.v', 'Model/C31Check.v'])
    n = 120 if ctx.quick else 3000
    res = gc.correspond(ctx, 'C31', 'partial', n, [gc.STALE_WITNESS])
    hist = {}
    distinct = set()
    nev = 0
    for line, out, ev in res:
        if ev is None:
            ctx.violation('harness failed or printed an unusable line on: %s -> %s' % (line[:300], (out or '')[:200]), {'case': line, 'output': out, 'cmd': gc.replay_cmd(line)})
            continue
        if ev == 'coq-failed':
            ctx.broken.append('correspondence D(C31): the model no longer evaluates (see coq_eval_errors)')
            break
        for e in ev:
            idx, kind, c30, c31, prep, live = e
            pre = gc.prefix_upto(line, idx)
            if kind == 2:
                hist[('propagate', c30)] = hist.get(('propagate', c30), 0) + 1
                if c30 == 1:
                    ctx.broken.append('model self-check failed at ForwardPropagator op %d of: %s' % (idx, pre[:300]))
                continue
            if kind == 1:
                if c30 == 1:
                    ctx.broken.append('correspondence D(C31): structure/counter dump differs from the model at op %d of: %s' % (idx, pre[:400]))
                continue
            if c31 == 9:
                continue                                   # not a re-evaluation after ForwardPropagator
            nev += 1
            hist[('rerun', c31, c30)] = hist.get(('rerun', c31, c30), 0) + 1
            if live > 0:
                distinct.add(pre)
            if c31 == 0 and c30 == 0:
                ctx.cov['traces_validated_against_impl'] += 1
            elif c31 == 6:
                ctx.violation('partial re-evaluation does not re-run every member of a bidirectional propagation set meeting the closure: the set objects are '
                              'incoherent after biPropDependsOn merged two existing sets; op %d of: %s' % (idx, pre[:300]),
                              {'finding_key': KEY, 'case': pre, 'cmd': gc.replay_cmd(pre), 'output': out})
            elif c31 == 3:
                ctx.violation('partial re-evaluation re-ran a set of nodes different from the propagated closure (sets coherent) at op %d of: %s' % (idx, pre[:400]),
                              {'case': pre, 'cmd': gc.replay_cmd(pre), 'output': out})
            elif c31 == 5:
                pass                                       # marked node with a non-zero counter: outside the property's domain
            elif c31 == 1 or c30 == 1:
                ctx.broken.append('correspondence D(C31): implementation and model differ at op %d of: %s' % (idx, pre[:400]))
            elif c30 in (2, 4):
                ctx.violation('re-run nodes not in dependency order / not exactly once after ForwardPropagator at op %d of: %s' % (idx, pre[:400]),
                              {'case': pre, 'cmd': gc.replay_cmd(pre), 'output': out})
    ctx.cov['evaluations'] += nev
    ctx.cov['distinct_nontrivial'] += len(distinct)
    ctx.cov['rule'] = ('random DAG programs (as C30, 65% BiPropGraph with 0/15/40% bidirectional edges) with 1..4 rounds of: mark 1..n/4 random nodes, ForwardPropagator, '
                       'optional counter dump, execute with a random executor/pool.  evaluation = one re-evaluation judged in Coq against the reference closure and the model; '
                       'non-trivial = at least one dependency edge between two re-run nodes; distinct = distinct program prefixes')
    ctx.cov['event_histogram'] = {':'.join(str(x) for x in k): v for k, v in sorted(hist.items(), key=str)}
    ctx.cov['cases'] = len(res)
    for line, out, ev in res[:1] + res[len(res) // 2:len(res) // 2 + 1]:
        ctx.sample({'case': line[:300], 'impl': (out or '')[:300], 'events': ev if isinstance(ev, list) else str(ev)})
    ctx.phase('correspond')
