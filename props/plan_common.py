"""Shared driving code for the Plan properties of the parallel loops (C14, C48; C15 uses the for_each part).
Harnesses: harness/h_loops.cpp (`plan`, `ovl`, `feplan`, `pi`: instrumented task set / deterministic replays) and
harness/h_parfor.cpp (`pf`, `fe`: the real TaskSet + ThreadPool)."""
import dv, pf_common, re

IMPORTS14 = 'From DV Require Import Base.MachInt Base.Corr Model.ChunkModel Gen.GenChunk Model.ParForModel Model.PlanModel Model.C14Check.'
IMPORTS48 = 'From DV Require Import Base.MachInt Base.Corr Model.ChunkModel Gen.GenChunk Model.ParForModel Model.PlanModel Model.ForEachModel Model.C14Check Model.C48Check.'

KEY_TAIL = 'static-nowait-tail-on-caller'


def loops_harness():
    return dv.build_harness('h_loops', ['h_loops.cpp'])


PREFIXES = ('plan ', 'pf ', 'fe ', 'fe|', 'feplan ', 'fecap ', 'pi ', 'ovl ', 'scs ', 'scg ', 'ERR ')


def run_lines(exe, lines, timeout=600):
    """one result per input line; the harness is restarted after a case that kills it (that case gets 'CRASH rc=<n> <stderr tail>').
    Only lines with a known result prefix count as results, so assertion messages on stderr cannot shift the alignment."""
    out = [None] * len(lines)
    i = 0
    while i < len(lines):
        rc, txt = dv.sh([exe], inp='\n'.join(lines[i:]) + '\n', timeout=timeout)
        raw = [l for l in txt.split('\n') if l.strip()]
        got = [l for l in raw if l.startswith(PREFIXES) or l.startswith('OVERRUN')]
        noise = [l for l in raw if not (l.startswith(PREFIXES) or l.startswith('OVERRUN'))]
        k = 0
        for l in got:
            if i + k >= len(lines):
                break
            if l.startswith('OVERRUN'):
                out[i + k] = 'OVERRUN'
                k += 1
                break
            out[i + k] = l
            k += 1
        if i + k < len(lines) and (rc != 0 or k == 0) and not (k > 0 and out[i + k - 1] == 'OVERRUN'):
            out[i + k] = 'CRASH rc=%d %s' % (rc, ' '.join(noise)[-200:])
            k += 1
        i += max(k, 1)
    return out


# ------------------------------------------------------------------------------------------------ case generation

def _range(r, kn, size):
    lo, hi = pf_common.kmin(kn), pf_common.kmax(kn)
    size = max(0, min(size, hi - lo, 127 if pf_common.KINDS[kn] == (8, True) else size))
    pos = r.random()
    if pos < 0.2:
        s = lo
    elif pos < 0.4:
        s = hi - size
    elif pos < 0.6:
        s = max(lo, min(hi - size, 0))
    else:
        s = r.randint(lo, hi - size)
    return s, s + size


def probe_cases(mock):
    """fixed cases that aim at the places where an overlap / an excess would show if the code were wrong:
    the caller's chunk of the static path with every ring index (states index = REMAPPED chunk index), the caller's
    worker of the dynamic/adaptive wait paths, and rendezvous targets of maxThreads + 1"""
    out = []
    base = {'chunk': 0, 'minItems': 1, 'rdv': 0, 'reuse': 0}
    if mock:
        for ring in (0, 1, 2, -1):
            for N, g in ((2, 1), (4, 8), (3, 1)):
                out.append(dict(base, kn=4, s=0, e=1003, mode='s', N=N, maxT=N + 1, g=g, wait=1, ring=ring, exec=2, pre=0))
        for mode, chunk in (('c', 50), ('a', 0)):
            for N, maxT in ((3, 4), (3, 3), (2, 2), (5, 3)):
                out.append(dict(base, kn=5, s=7, e=407, mode=mode, chunk=chunk, N=N, maxT=maxT, g=1, wait=1, ring=-1, exec=2, pre=0,
                                minItems=40 if mode == 'a' else 1))
                out.append(dict(base, kn=6, s=-200, e=200, mode=mode, chunk=chunk, N=N, maxT=maxT, g=1, wait=0, ring=-1, exec=3, pre=0,
                                minItems=40 if mode == 'a' else 1))
    else:
        for maxT in (2, 3):
            for wait in (0, 1):
                out.append(dict(base, kn=4, s=0, e=40, mode='c', chunk=5, N=4, maxT=maxT, g=1, wait=wait, rdv=maxT + 1))
                out.append(dict(base, kn=4, s=0, e=64, mode='a', N=4, maxT=maxT, g=1, wait=wait, rdv=maxT + 1, minItems=8))
                out.append(dict(base, kn=4, s=0, e=1000, mode='s', N=4, maxT=maxT, g=1, wait=wait, rdv=maxT + 1))
                out.append(dict(base, kn=4, s=0, e=1000, mode='s', N=4, maxT=maxT, g=8, wait=1, rdv=maxT + 1))
    return out


def gen_cases(ctx, n, mock):
    """parallel_for configurations aimed at the case splits of the Plan model: all three chunking modes, both wait
    modes, granularity tails, thread limits around the pool size, small ranges with explicit chunk sizes.
    mock=True adds the instrumented-task-set parameters (ring, exec, reuse, pre)."""
    r = ctx.rng
    cases = probe_cases(mock)[:max(0, n // 4)]
    while len(cases) < n:
        kn = r.choice(range(8))
        mode = r.choice(['s', 's', 'a', 'c', 'c'])
        N = r.choice([0, 1, 2, 3, 4, 5, 7]) if not mock else r.choice([0, 1, 2, 3, 4, 5, 7, 8, 20 if r.random() < 0.3 else 6])
        g = r.choice([1, 1, 2, 3, 4, 8, 16])
        wait = r.choice([0, 1])
        minItems = r.choice([1, 1, 1, 2, 5, 16])
        maxT = r.choice([1 << 31, (1 << 31) - 1, (1 << 32) - 1, 0, 1, 2, 3, 4, N, N + 1, N + 2, max(0, N - 1)])
        chunk = 0
        sm = r.random()
        if mode == 'c':
            if sm < 0.5:
                size = r.randint(0, N + 3)              # the small-range branch of adjustChunkSizing
                chunk = r.choice([1, 1, 2, 3])
            else:
                size = r.randint(0, 400)
                chunk = max(1, size // r.choice([3, 7, 20, 40]) + r.choice([0, 1]))
        elif mode == 'a':
            size = r.choice([r.randint(0, N + 3), r.randint(0, 120), r.randint(0, 400)])
            if size > 120:
                minItems = max(minItems, size // 30)
        else:
            size = r.choice([r.randint(0, 40), r.randint(0, 3000), g * (N + 1) + r.choice([0, 1, g - 1]), g * N + 1, max(0, g - 1), N + 1])
        if chunk >= pf_common.kmax(kn):
            chunk = 1
        if mode == 'a' and pf_common.KINDS[kn][0] == 8:
            size = min(size, 100)                       # stay clear of the known C12 finding adaptive-chunksize-narrowing
        s, e = _range(r, kn, size)
        if mode == 'a' and pf_common.KINDS[kn][0] == 64 and e > pf_common.kmax(kn) - (1 << 32):
            s, e = s - (1 << 33), e - (1 << 33)         # stay clear of the known C12 finding adaptive-cursor-wrap-64bit
        c = {'kn': kn, 's': s, 'e': e, 'mode': mode, 'chunk': chunk, 'N': N, 'maxT': maxT, 'minItems': minItems, 'g': g,
             'wait': wait, 'rdv': 0, 'reuse': 0}
        if mock:
            c['ring'] = r.choice([-1, -1, 0, 1, 2, N - 1, N, 5])
            c['exec'] = r.choice([0, 1, 2, 2, 3, 3])
            if N >= 8 and c['exec'] >= 2 and r.random() < 0.5:
                c['exec'] = r.choice([0, 1])
            c['reuse'] = r.choice([0, 0, 1])
            c['pre'] = r.choice([0, 0, 1, 2, 9])
        else:
            width_guess = min(N + 1, max(1, maxT if maxT < (1 << 31) else 1))
            if mode == 's':
                c['rdv'] = r.choice([0, 2, 3, width_guess + 1])
            elif e - s <= 64:
                c['rdv'] = r.choice([0, 2, width_guess])
        cases.append(c)
    return cases


def plan_line(c):
    return 'plan %d %d %d %s %d %d %d %d %d %d %d %d %d %d' % (
        c['kn'], c['s'], c['e'], c['mode'], c['chunk'], c['N'], c['maxT'], c['minItems'], c['g'], c['wait'], c['ring'], c['exec'],
        c['reuse'], c['pre'])


def parse_plan(line):
    if line is None or not line.startswith('plan '):
        return None
    left, right = line.split('|')
    t = left.split()
    n = int(t[1])
    v = [int(x) for x in t[2:]]
    if len(v) != 7 * n:
        return None
    obs = [tuple(v[7 * i:7 * i + 7]) for i in range(n)]
    m = re.search(r'nstates (\d+) nsched (\d+) nwaits (\d+) order (\d+)', right)
    return {'obs': obs, 'nstates': int(m.group(1)), 'nsched': int(m.group(2)), 'nwaits': int(m.group(3)), 'order': int(m.group(4))}


def plan_term(c, p):
    obs = dv.coq_list(['(OBS %s)' % ' '.join(dv.zlit(x) for x in o) for o in p['obs']])
    return '(%s, %s, %s, (%d, %d, %d), (%s, %d))' % (pf_common.coq_cfg(c), dv.zlit(c['ring']), obs, p['nstates'], p['nsched'], p['nwaits'],
                                                    'true' if c['reuse'] else 'false', c['pre'])


def pf_term(c, p):
    tr = dv.coq_list(['(%s,%s,%s)' % (dv.zlit(a), dv.zlit(b), dv.zlit(s)) for a, b, s in p['chunks']])
    return '(%s, %s, (%d, %d, %d))' % (pf_common.coq_cfg(c), tr, p['maxconc'], p['stateconc'], p['nstates'])


def run_plan_cases(ctx, cases, max_calls=160):
    """-> list of (case, parsed) for the cases whose observation is small enough to judge; harness failures become violations"""
    exe = loops_harness()
    outs = run_lines(exe, [plan_line(c) for c in cases])
    kept, skipped = [], 0
    for c, o in zip(cases, outs):
        p = parse_plan(o)
        if p is None:
            ctx.violation('instrumented parallel_for failed on "%s": %s' % (plan_line(c), o), {'case': c, 'cmd': plan_line(c), 'harness': 'h_loops'})
            continue
        if len(p['obs']) > max_calls:
            skipped += 1
            continue
        if not p['order']:
            ctx.violation('states container was reordered/overwritten: %s' % plan_line(c), {'case': c, 'cmd': plan_line(c), 'harness': 'h_loops'})
        kept.append((c, p))
    ctx.cov['plan_cases_skipped_too_many_calls'] = ctx.cov.get('plan_cases_skipped_too_many_calls', 0) + skipped
    return kept


def run_pf_cases(ctx, cases, max_calls=400):
    exe = pf_common.harness()
    outs = run_lines(exe, [pf_common.pf_line(c) for c in cases])
    kept = []
    for c, o in zip(cases, outs):
        p = pf_common.parse_pf(o)
        if p is None:
            ctx.violation('parallel_for failed on "%s": %s' % (pf_common.pf_line(c), o), {'case': c, 'cmd': pf_common.pf_line(c), 'harness': 'h_parfor'})
            continue
        if len(p['chunks']) > max_calls:
            continue
        kept.append((c, p))
    return kept


def judge(ctx, name, imports, fn_terms):
    """fn_terms: list of (judge_fn, [terms]).  One Coq file when the cases are few (coqc start-up dominates), otherwise sharded
    so that no file gets more than ~600 terms.  Returns list of lists of verdicts (None when Coq failed)."""
    if sum(len(t) for _, t in fn_terms) <= 900:
        return pf_common.coq_judge(ctx, name, imports, fn_terms)
    res = []
    for k, (fn, terms) in enumerate(fn_terms):
        vals = []
        for si, sh in enumerate(pf_common.shard(terms, max(1, (len(terms) + 599) // 600)) if terms else []):
            r = pf_common.coq_judge(ctx, '%s_%d_%d' % (name, k, si), imports, [(fn, sh)])
            if r is None:
                return None
            vals += r[0]
        res.append(vals)
    return res


def ovl(ctx, args, tries=2):
    """deterministic overlap replay on the real TaskSet/ThreadPool; returns the best (largest) observation"""
    exe = loops_harness()
    best = None
    for _ in range(tries):
        rc, out = dv.sh([exe], inp='ovl %s\n' % args, timeout=60)
        m = re.search(r'ovl both (\d+) stateconc (\d+) maxconc (\d+) nstates (\d+)', out)
        if not m:
            continue
        cur = {'both': int(m.group(1)), 'stateconc': int(m.group(2)), 'maxconc': int(m.group(3)), 'nstates': int(m.group(4))}
        if best is None or (cur['stateconc'], cur['maxconc']) > (best['stateconc'], best['maxconc']):
            best = cur
        if cur['stateconc'] >= 2:
            break
    return best
