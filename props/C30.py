"""C30 -- graph executors respect dependencies and run each node once.   Tie: D (random DAG programs, real executors vs the Gallina model inside Coq)."""
import dv, graph_common as gc

META = {
    'category': 'proof',
    'technique': 'Coq invariant proof over an interleaving model of the three executors (all schedules) + differential run of the real '
                 'Graph/Subgraph/executors on random DAG programs against the Gallina model evaluated by vm_compute; the executable form of the '
                 'property is evaluated on the implementation\'s run log',
    'text': 'Kernel-checked: from every PREPARED counter state (what setAllNodesIncomplete / ForwardPropagator establish; boolean preparedb) and '
            'for every schedule of the interleaving model (SingleThreadExecutor = schedule pick_seq, ParallelForExecutor = wave mode, '
            'ConcurrentTaskSetExecutor = eager mode with inline continuation) no node runs twice, only incomplete nodes run, a node starts only after '
            'all its incomplete predecessors finished, executed nodes end complete, complete nodes stay untouched; at quiescence (acyclic graph) every '
            'incomplete node ran exactly once; no deadlock, and at most 4|nodes|+2|edges| steps take effect under any schedule (termination).  setAllNodesIncomplete prepares every well-formed graph; addNode/dependsOn/biPropDependsOn/'
            'addSubgraph and Subgraph::clear (swap-remove edge surgery with budget and early return) keep graphs well-formed (no dependents_ entry '
            'for a destroyed node, numPredecessors_ = occurrences).  The statement as written in the property (any graph built by addNode/dependsOn/subgraph ops) '
            'is REFUTED (C30_refuted): a freshly built graph has all counters 0 and is executed ignoring its dependencies; reproduced on the real code.',
    'note': 'Trusted: Coq kernel; harness/h_graph.cpp (reads private members through #define private public); python case generator. No axioms.',
}

ASSUMPTIONS = [
    'graphs are acyclic (precondition stated by graph.h); the acyclicity witness is a rank function',
    'the interleaving model over-approximates the thread pool: every task (evaluateNodeConcurrently invocation / parallel_for index) is a thread of its own, '
    'atomic steps = the individual atomic loads/stores/fetch_subs; the functor\'s finish event and run()\'s store of kCompleted are one step',
    'graphs have fewer than 2^64-1 edges (small_graph: the size_t budget in Subgraph::clear does not wrap)',
    'parallel executors: the correspondence checks the implementation\'s log against the DAG and compares the executed set / final counters with the model under one '
    'model schedule; the implementation\'s own interleaving is not replayed in lockstep',
]

KEY = 'fresh-graph-ignores-dependencies'


def run(ctx):
    ctx.prove(models=['Model/GraphLits.v', 'Model/C30Check.v', 'Model/C31Check.v'])
    n = 150 if ctx.quick else 4000
    res = gc.correspond(ctx, 'C30', 'exec', n, [gc.FRESH_WITNESS])
    hist = {}
    distinct = set()
    nexec = 0
    for ci, (line, out, ev) in enumerate(res):
        if ev is None:
            ctx.violation('harness failed or printed an unusable line on: %s -> %s' % (line[:300], (out or '')[:200]), {'case': line, 'output': out, 'cmd': gc.replay_cmd(line)})
            continue
        if ev == 'coq-failed':
            ctx.broken.append('correspondence D(C30): the model no longer evaluates (see coq_eval_errors)')
            break
        for e in ev:
            idx, kind, c30, c31, prep, live = e
            hist[(kind, c30)] = hist.get((kind, c30), 0) + 1
            opx = gc.op_at(line, idx)
            pre = gc.prefix_upto(line, idx)
            if kind == 0:
                nexec += 1
                if live > 0:
                    distinct.add((pre, ))
                if c30 == 0:
                    ctx.cov['traces_validated_against_impl'] += 1
                elif c30 == 1:
                    ctx.broken.append('correspondence D(C30): implementation and model differ at op %d (%s) of: %s' % (idx, opx, pre[:400]))
                elif c30 == 4:
                    ctx.violation('executor run on a graph whose counters were not prepared (no setAllNodesIncomplete/ForwardPropagator since the last '
                                  'structural change): the log violates C30 (dependency order / exactly-once / ends-complete) at op %d (%s): %s' % (idx, opx, pre[:300]),
                                  {'finding_key': KEY, 'case': pre, 'cmd': gc.replay_cmd(pre), 'output': out})
                else:
                    ctx.violation('C30 fails on the implementation\'s log from a PREPARED state at op %d (%s): %s' % (idx, opx, pre[:400]),
                                  {'case': pre, 'cmd': gc.replay_cmd(pre), 'output': out})
            elif kind == 1:
                if c30 == 1:
                    ctx.broken.append('correspondence D(C30): structure dump differs from the model at op %d of: %s' % (idx, pre[:400]))
                elif c30 == 2:
                    ctx.violation('graph structure not well-formed (numPredecessors_ / dependents_ mismatch, e.g. after Subgraph::clear) at op %d: %s' % (idx, pre[:400]),
                                  {'case': pre, 'cmd': gc.replay_cmd(pre), 'output': out})
                else:
                    ctx.cov['traces_validated_against_impl'] += 1
            elif kind == 2 and c30 == 1:
                ctx.broken.append('model self-check failed at ForwardPropagator op %d of: %s' % (idx, pre[:300]))
    ctx.cov['evaluations'] += nexec
    ctx.cov['distinct_nontrivial'] += len(distinct)
    ctx.cov['rule'] = ('random op programs for Graph and BiPropGraph (1..4 subgraphs, <= 60 nodes, hidden-rank DAG edges with hubs and duplicate edges, BiProp edges, '
                       'clear + rebuild rounds, marking + ForwardPropagator rounds, occasional unprepared executions) x 4 executor variants x pool sizes 1..4; ONE executor object of each kind and ONE ForwardPropagator per case, reused by every run incl. after runs aborted by a throwing node (ops E / F).  '
                       'evaluation = one executor run judged in Coq; non-trivial = at least one dependency edge between two incomplete nodes at the time of the run; '
                       'distinct = distinct program prefixes')
    ctx.cov['event_histogram'] = {'%s:%d' % ({0: 'exec', 1: 'dump', 2: 'propagate'}[k], c): v for (k, c), v in sorted(hist.items())}
    ctx.cov['cases'] = len(res)
    ctx.cov['aborted_runs_then_reuse'] = {'single_thread_executor(E)': sum(1 for l, _, _ in res if ' E ' in l),
                                          'parallel_executors(F)': sum(1 for l, _, _ in res if ' F ' in l)}
    for line, out, ev in res[:2] + res[len(res) // 2:len(res) // 2 + 1]:
        ctx.sample({'case': line[:300], 'impl': (out or '')[:300], 'events': ev if isinstance(ev, list) else str(ev)})
    ctx.phase('correspond')
