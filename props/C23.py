"""C23 -- DistributedRWLock mutual exclusion and progress.   Tie: lockstep (L) under harness/vsched.h on DistributedRWLockImpl<N>."""
import dv, rw_common

META = {
    'category': 'proof',
    'technique': 'the C22 invariant proved for N slots (N a parameter): per-slot word equation, owned slots form an interval, drained prefix has no reader inside; lockstep replay on the real DistributedRWLockImpl<1|2|4|16>',
    'text': 'Kernel-checked for any N >= 1, any number of threads, any script over lock / try_lock / unlock / lock_shared(i) / try_lock_shared(i) / unlock_shared(i), any schedule: '
            'a writer inside excludes every other writer and every reader on every slot (C23_dist_exclusion); a failed try_lock owns no bit on any slot and every slot word is what the others account for '
            '(C23_dist_trylock_fail_no_trace); no lost wake-up on any slot; no sleep-deadlock; completion stays reachable from every reachable state (C23_dist_no_deadlock: ordered acquisition, two spinning writers would both own slot 0); '
            'finished balanced scripts leave every word 0; termination under every fair schedule is not proved (C23_fair_progress_partial = the variant).  '
            'Tied to the code by lockstep runs of generated scripts and schedules on the real template instances (hooks in rw_lock_impl.h; distributed_rw_lock_impl.h has no atomic access of its own).',
    'search': 'deterministic hand-over probe family (reader fetch_add while the writer bit is set, hand-over, reader back-out, third-thread probe; phase lengths swept) + weighted generator; when the lockstep trace differs from the model a search ladder re-runs the disagreeing programs and their neighbours (sections, permutations, try_lock / try_lock_shared / lock_shared / lock probes by a further thread) under thousands of decision lists and evaluates the property on the implementation alone (occupancy conflict, deadlock of a balanced script, word != 0 at quiescence); hits are confirmed by the Coq judge and reported as concrete VIOLATIONs; unknown hook sites are tolerated by the parser',
    'note': 'Trusted: Coq kernel; futex semantics; harness/vsched.h; SC interleaving; Linux CompletionEventImpl. No axioms.',
}

ASSUMPTIONS = [
    'sequentially consistent interleaving of the atomic accesses on the slot words; futex = compare-and-block / wake-all; spurious futex returns not modelled',
    'Linux implementation of CompletionEventImpl',
    'fewer than 2^31 threads',
    'readers are addressed by slot index (DistributedRWLockImpl::lock_shared(index)); the public DistributedRWLock maps threadId() to the index, which the theorems cover as "any thread-to-slot mapping"',
]


def run(ctx):
    ctx.prove(models=['Model/C22Check.v', 'Model/C23Check.v'])
    r = ctx.rng
    n = 150 if ctx.quick else 2500
    cases = []
    fixed = [
        (2, [[('L',), ('U',)], [('X', 1), ('U',)], [('S', 1), ('V', 1)]], [0, 1, 2, 0, 1, 2, 2, 0, 0, 0, 2, 2, 2, 1, 1, 1] + [0, 1, 2] * 30),
        (4, [[('X', 1), ('U',)], [('X', 1), ('U',)]], [0, 1, 0, 0, 1, 1, 0, 1] + [1, 0] * 60),
        (2, [[('L',), ('U',)], [('Y', 3, 1), ('V', 3)]], [0, 0, 1, 1, 0, 0, 0, 1, 1, 0, 0, 0, 0, 1, 1, 1] + [0] * 40 + [1] * 20),
    ]
    for nn, progs, sched in fixed:
        b = rw_common.BUDGET[nn]
        cases.append({'dist': True, 'n': nn, 'budget': b, 'progs': progs, 'sched': (sched + [0] * 400)[:b + 12]})
    cases += rw_common.probe_family(True, not ctx.quick)      # deterministic hand-over windows: reader fetch_add, hand-over, reader back-out, probe
    cases += [rw_common.gen_case(r, True, malformed=(i % 8 == 7)) for i in range(n)]
    kept, verdicts = rw_common.correspond(ctx, cases, 'judge_dist', 'From DV Require Import Base.Sched Model.RWLockModel Model.C22Check Model.C23Check.', 'C23')
    ctx.cov['rule'] = ('generated scripts (2-4 threads; N in {1,2,4,16}; blocking and try writers, readers on arbitrary indices, ~1/8 malformed) x generated schedules, one fork per case under vsched on the real DistributedRWLockImpl<N>; '
                       'non-trivial = more steps than 2*threads+2; distinct = distinct (trace, results) strings')
    ctx.cov['cases_per_N'] = {str(k): sum(1 for c in cases if c['n'] == k) for k in (1, 2, 4, 16)}
    ctx.cov['well_formed_cases'] = sum(1 for c in cases if all(rw_common.wf_py(p, c['n']) for p in c['progs']))
    if kept:
        ctx.sample({'case': rw_common.line_of(kept[0][0])[:160], 'impl': kept[0][2][:300]})
        ctx.sample({'case': rw_common.line_of(kept[-1][0])[:160], 'impl': kept[-1][2][:300]})
