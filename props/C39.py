"""C39 -- OnceFunction invokes and destroys its callable exactly once.   Tie: D (real OnceFunction over a compile-time grid of callable sizes/alignments vs model, judged in Coq)."""
import re
import dv, pf_common

NV = 4

META = {
    'category': 'proof',
    'technique': 'Coq simulation proof: concrete model of OnceFunction (bytes, memcpy moves, inline/spill storage via nextPow2 / small-buffer pool / alignedMalloc, two lifetime '
                 'ledgers) against the documented ownership protocol, for all callable sizes/alignments (Z parameters) and all protocol-respecting operation sequences '
                 '+ differential run of the real OnceFunction over a template-instantiated grid of 188 (size, alignment) pairs with serial-keyed lifetime-tracked callables, judged by vm_compute',
    'text': 'Kernel-checked, for every address oracle (variables 64-aligned, pool blocks aligned to their class, malloc arbitrary), every functor size/alignment (power-of-two '
            'alignment, size a multiple, <= 2^40) and every operation sequence that respects the documented protocol (construct from rvalue/lvalue functor, default construct, '
            'move-construct/-assign chains, operator(), cleanupNotRun(), drop): the callable is invoked exactly by operator() on its current owner and never twice '
            '[C39_once_invoke_at_most_once, C39_invoked_exactly_on_call]; it is destroyed exactly once, on that call or on cleanupNotRun(), the callable and block ledgers see no '
            'misuse, and with nothing abandoned/pending every constructed object is destroyed and every spill block freed [C39_once_destroy_exactly_once]; construction, call '
            'and destruction happen at addresses satisfying alignof, spill blocks aligned to nextPow2(max(sizeof, alignof)) [C39_once_storage_aligned, uses the C44 lemmas for '
            'nextPow2 and alignedMalloc]; after any chain of moves the owner holds bytes designating the live callable and calling it invokes exactly that callable '
            '[C39_move_transfers]; if neither operator() nor cleanupNotRun() happens the callable stays alive: exactly one live object per abandoned/pending callable, the leak '
            'the class documents [C39_neither_leaks].  The correspondence drives the real class through generated sequences, compares dispatch (which invoke function was '
            'installed, read through the private invoke_ pointer), every constructor/call/destructor event with its location (inline buffer of which variable / spill block / '
            'temporary) and alignment, pool and malloc traffic, and the final ledger with the model, and evaluates the executable property against the protocol; in addition every '
            'byte of a callable is a function of its serial number and is verified whenever it is copied/moved from, invoked or destroyed (corrupt = 0 required) and every '
            'object placed in a OnceFunction variable must lie inside its 56-byte buf_ (bounds read from the real object).',
    'note': 'Trusted: Coq kernel; harness/h_oncefn.cpp + harness/life.h (serial-keyed registry, --wrap=malloc/free, private members via #define private public); hand-written model '
            'Model/OnceFnModel.v (inline predicate sizeof<=56 && alignof<=64, kAllocSize, pool iff <=256) tied differentially over the whole grid; DISPENSO_DEBUG off (default). '
            'No axioms (Print Assumptions: closed).',
}

ASSUMPTIONS = [
    'protocol (class documentation): operator() / cleanupNotRun() only on a OnceFunction that currently owns a callable (not default-constructed, moved-from or already consumed); '
    'sequences outside it are undefined in a release build (the model shows the use-after-destroy, Example C39_misuse_is_visible) and assert in a DISPENSO_DEBUG build (not exercised)',
    'functor types are trivially relocatable (dispenso contract for inline storage: moves are memcpy); sizes/alignments: alignof a power of two, sizeof a positive multiple of it, both <= 2^40',
    'oracle_ok: OnceFunction objects are 64-aligned (alignof(OnceFunction)=64), SmallBufferAllocator blocks are aligned to their size class (C41), ::malloc result arbitrary in [0, 2^63)',
    'correspondence grid: 188 (size, alignment) pairs, sizes 1..768 incl. every size 49..72 at alignments 1/2/4, 127/128/129, 255/256/257, 511/512/513, alignments 1..256; DISPENSO_DEBUG not defined',
]

BOUNDARY_SIZES = set(range(49, 73)) | {127, 128, 129, 255, 256, 257, 511, 512, 513, 600, 640, 768, 54, 58, 62, 66, 52, 60, 48, 72}


class Sim:
    """bookkeeping to generate protocol-respecting sequences: per variable None (no object) or dict(owner=tag|None, poisoned)"""

    def __init__(self):
        self.v = [None] * NV
        self.poison = [False] * NV     # an owner was dropped here: keep the bytes for the clean-up after ';'
        self.lost = 0                  # callables made unreachable by assignment over an owner

    def options(self, allow_leak, allow_lost):
        out = []
        for i in range(NV):
            if self.v[i] is None:
                if not self.poison[i]:
                    out += [('K', i), ('k', i), ('D', i)]
                    out += [('M', i, j) for j in range(NV) if self.v[j] is not None]
            else:
                own = self.v[i]['owner'] is not None
                if own:
                    out += [('R', i), ('N', i)]
                if not own or allow_leak:
                    out.append(('X', i))
                for j in range(NV):
                    if self.v[j] is not None and (not own or i == j or allow_lost):
                        out.append(('m', i, j))
        return out

    def apply(self, o, tag=None):
        k, i = o[0], o[1]
        if k in 'Kk':
            self.v[i] = {'owner': tag}
        elif k == 'D':
            self.v[i] = {'owner': None}
        elif k == 'M':
            j = o[2]
            self.v[i] = {'owner': self.v[j]['owner']}
            self.v[j]['owner'] = None
        elif k == 'm':
            j = o[2]
            if i != j:
                if self.v[i]['owner'] is not None:
                    self.lost += 1
                self.v[i]['owner'] = self.v[j]['owner']
                self.v[j]['owner'] = None
        elif k in 'RN':
            self.v[i]['owner'] = None
        elif k == 'X':
            if self.v[i]['owner'] is not None:
                self.poison[i] = True
            self.v[i] = None

    def cleanup(self):
        t = ['N%d' % i for i in range(NV) if self.v[i] is not None and self.v[i]['owner'] is not None]
        t += ['Z%d' % i for i in range(NV) if self.poison[i]]
        return t


def tok(o):
    """o = (kind, i) | (kind, i, j) | ('K'/'k', i, g, tag)"""
    return o[0] + ':'.join(str(x) for x in o[1:])


def gen_cases(ctx, grid, n):
    r = ctx.rng
    cases = []
    # every grid type on both exits, through a move: rvalue + move-construct + call; lvalue + move-assign + cleanupNotRun
    for g in range(len(grid)):
        cases.append([('K', 0, g, 1), ('M', 1, 0), ('R', 1)])
        cases.append([('k', 2, g, 2), ('D', 3), ('m', 3, 2), ('N', 3)])
    bidx = [g for g, (sz, al) in enumerate(grid) if sz in BOUNDARY_SIZES or al >= 64]
    nlost = 0
    while len(cases) < 2 * len(grid) + n:
        sim = Sim()
        tag = 0
        ops = []
        allow_leak = r.random() < 0.25
        allow_lost = allow_leak and nlost < 8 and r.random() < 0.3
        for _ in range(r.choice([2, 4, 6, 9, 14])):
            opts = sim.options(allow_leak, allow_lost and sim.lost < 2)
            w = [3 if o[0] in 'KkMm' else 2 if o[0] in 'RN' else 1 for o in opts]
            o = r.choices(opts, w)[0]
            if o[0] in 'Kk':
                tag += 1
                g = r.choice(bidx) if r.random() < 0.6 else r.randrange(len(grid))
                o = (o[0], o[1], g, tag)
                sim.apply(o, tag)
            else:
                sim.apply(o)
            ops.append(o)
        # most cases end with every obligation discharged inside the judged part
        if r.random() < 0.7:
            for i in range(NV):
                if sim.v[i] is not None and sim.v[i]['owner'] is not None:
                    o = (r.choice('RN'), i)
                    ops.append(o)
                    sim.apply(o)
        nlost += sim.lost
        cases.append((ops, sim.cleanup()))
    return [c if isinstance(c, tuple) else (c, []) for c in cases]


EV = re.compile(r'^([CcmDV])(-?\d+)@(T|B|I\d+)([!^]*)$')
AL = re.compile(r'^(PA|PF|MA|MF)(\d+)$')
CODE = {'C': 0, 'c': 1, 'm': 2, 'D': 3, 'V': 4, 'PA': 5, 'PF': 6, 'MA': 7, 'MF': 8}


def parse_result(ops, line):
    """-> (flat impl numbers, final numbers) or None"""
    if line is None or '#' not in line or line.startswith(('BAD', 'CRASH', 'OVERRUN')):
        return None
    left, right = line.split('#')
    parts = [p.split() for p in left.split('|')]
    if len(parts) != len(ops):
        return None
    flat = []
    for o, toks in zip(ops, parts):
        disp = -2
        evs = []
        for k, t in enumerate(toks):
            if t == '-':
                continue
            m = EV.match(t)
            if m:
                loc = 0 if m.group(3) == 'T' else 1 if m.group(3) == 'B' else 2 + int(m.group(3)[1:])
                evs.append(CODE[m.group(1)] + 16 * (2 * loc + (0 if '!' in m.group(4) else 1)) + 512 * (int(m.group(2)) + 1))
                continue
            m = AL.match(t)
            if m:
                evs.append(CODE[m.group(1)] + 16 + 512 * (int(m.group(2)) + 1))
                continue
            if k == 0 and o[0] in 'Kk' and re.match(r'^(I|S\d+|\?)$', t):
                disp = 0 if t == 'I' else -1 if t == '?' else int(t[1:])
                continue
            return None
        flat += [disp, len(evs)] + evs
    return flat, [int(x) for x in right.split()]


def coq_ops(ops, grid):
    f = []
    for o in ops:
        k = o[0]
        if k in 'Kk':
            sz, al = grid[o[2]]
            f += [0, o[1], sz, al, o[3], 1 if k == 'k' else 0]
        elif k == 'D':
            f += [1, o[1]]
        elif k == 'M':
            f += [2, o[1], o[2]]
        elif k == 'm':
            f += [3, o[1], o[2]]
        elif k == 'R':
            f += [4, o[1]]
        elif k == 'N':
            f += [5, o[1]]
        elif k == 'X':
            f += [6, o[1]]
    return f


def zl(nums):
    return dv.coq_list([dv.zlit(x) for x in nums])


def run(ctx):
    ctx.prove(models=['Model/C39Check.v', 'Base/Corr.v'])
    exe = dv.build_harness('h_oncefn', ['h_oncefn.cpp'], extra_flags=['-O0', '-g0', '-Wl,--wrap=malloc', '-Wl,--wrap=free'])
    ctx.phase('build')
    rc, out = dv.sh([exe], inp='G\n')
    m = re.match(r'GRID (.*) # bufoff (\d+)', out.strip())
    if not m or int(m.group(2)) != 0:
        ctx.broken.append('harness grid query failed / buf_ is not at offset 0 of OnceFunction: ' + out[:200])
        return
    grid = [tuple(int(x) for x in t.split(':')) for t in m.group(1).split()]
    cases = gen_cases(ctx, grid, 220 if ctx.quick else 2500)
    lines = [' '.join([tok(o) for o in ops] + ([';'] + cl if cl else [])) for ops, cl in cases]
    outs = pf_common.run_harness(exe, lines)
    terms, kept = [], []
    for (ops, cl), ln, o in zip(cases, lines, outs):
        p = parse_result(ops, o)
        if p is None:
            ctx.violation('harness failed on "%s": %s' % (ln, o), {'case': ln, 'output': o, 'cmd': "echo '%s' | %s" % (ln, exe)})
            continue
        if len(p[1]) != 17:
            ctx.violation('harness result line malformed on "%s": %s' % (ln, o), {'case': ln, 'output': o})
            continue
        terms.append('(%d, %s, %s, %s)' % (NV, zl(coq_ops(ops, grid)), zl(p[0]), zl(p[1][:14] + p[1][15:17])))
        kept.append((ops, ln, o))
    ctx.phase('run')
    imports = 'From DV Require Import Base.Corr Base.Life Model.OnceFnModel Model.C39Check.'
    nsh = max(1, (len(terms) + 1499) // 1500)
    verdicts = []
    for k, (sh_t, sh_k) in enumerate(zip(pf_common.shard(terms, nsh), pf_common.shard(kept, nsh))):
        res = pf_common.coq_judge(ctx, 'cases%d' % k, imports, [('judge_c39', sh_t)])
        if res is None:
            ctx.broken.append('correspondence D(C39): the model no longer evaluates (see coq_eval_errors)')
            return
        verdicts += list(zip(res[0], sh_k))
    hist = {0: 0, 1: 0, 2: 0, 3: 0, 5: 0}
    seen_types, distinct = set(), set()
    kinds = {}
    for v, (ops, ln, o) in verdicts:
        hist[v] += 1
        cmd = "echo '%s' | %s" % (ln, exe)
        for x in ops:
            if x[0] in 'Kk':
                seen_types.add(grid[x[2]])
        if any(x[0] in 'Mm' for x in ops):
            distinct.add(ln)
        if v in (2, 5):
            ctx.violation(('[the implementation also differs from the model: dispatch / location / events] ' if v == 5 else '') +
                          'OnceFunction violates C39 (invoked exactly when called / destroyed exactly once / aligned storage inside buf_ / callable bytes intact / balanced ledger; '
                          'last two numbers = corrupt, out-of-bounds): "%s" -> %s' % (ln, o),
                          {'case': ln, 'grid': [grid[x[2]] for x in ops if x[0] in 'Kk'], 'output': o, 'cmd': cmd})
        elif v == 1:
            ctx.broken.append('correspondence D(C39): implementation differs from the model (dispatch / event order / location / allocation traffic) on "%s" '
                              '[types %s]: %s' % (ln, [grid[x[2]] for x in ops if x[0] in 'Kk'], o))
        elif v == 3:
            ctx.broken.append('driver generated a sequence outside the protocol: ' + ln)
    for ops, ln, o in kept[:2 * len(grid):2]:
        d = o.split()[0]
        kinds[d] = kinds.get(d, 0) + 1
    ctx.cov['evaluations'] += len(verdicts)
    ctx.cov['distinct_nontrivial'] += len(distinct)
    ctx.cov['traces_validated_against_impl'] += hist[0]
    ctx.cov['grid_types_exercised'] = len(seen_types)
    ctx.cov['dispatch_histogram_over_grid'] = kinds
    ctx.cov['rule'] = ('for EVERY grid type (188 (sizeof, alignof) pairs): rvalue construction + move construction + operator(), and lvalue construction + move assignment '
                       'into a default-constructed one + cleanupNotRun(); then random protocol-respecting sequences over 4 variables (2..14 operations, 60% of the functor types '
                       'from the inline/spill and size-class boundaries or over-aligned), a quarter of them with documented leaks (dropping / overwriting an owner).  '
                       'Non-trivial = contains a move; distinct = distinct sequences')
    ctx.cov['verdict_histogram'] = {'agree_and_property_holds': hist[0], 'differs_but_property_holds': hist[1], 'property_fails': hist[2] + hist[5], 'property_fails_and_differs_from_model': hist[5],
                                    'outside_protocol(driver)': hist[3]}
    ctx.cov['ops_total'] = sum(len(ops) for ops, _, _ in kept)
    for ops, ln, o in kept[112:113] + kept[len(kept) - 3:len(kept) - 1]:
        ctx.sample({'ops': ln, 'types': [grid[x[2]] for x in ops if x[0] in 'Kk'], 'impl': o[:300]})
    ctx.phase('correspond')
