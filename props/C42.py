"""C42 -- PoolAllocator hands out exclusive chunks within its slabs.   Tie: D (+ multi-threaded stress with an ownership map)."""
import json
import dv, pf_common

META = {
    'category': 'proof',
    'technique': 'Coq theorems over an executable Gallina model of PoolAllocatorT (all chunk/slab sizes in the guarded domain, all allocFunc oracles '
                 'returning fresh blocks, all valid alloc/dealloc/clear histories) + fetch_or spin-lock mutual exclusion over all schedules; differential run of the '
                 'real NoLockPoolAllocator/PoolAllocator against the model evaluated by vm_compute, executable property evaluated on the implementation output',
    'text': 'Kernel-checked: every chunk returned by alloc() lies inside a slab returned by allocFunc; outstanding and free chunks are pairwise byte-disjoint; no chunk '
            'is handed out while outstanding; allocFunc is called only when backingAllocs2_ and the free list are empty and every chunk of every slab is outstanding '
            '(so after clear() all existing slabs are reused first; quantitative form proved); the destructor passes each slab to deallocFunc exactly once; the guard '
            '1 <= chunkSize <= allocSize is sufficient and necessary (size_t wrap of chunksPerAlloc_-1); the fetch_or/store(0) lock admits at most one thread in the '
            'critical section over all schedules.  The model is tied to /repo by running the real classes (both variants) with logging allocFunc/deallocFunc on '
            'boundary-biased histories and comparing every observation (slab index, offset, allocFunc calls, totalChunkCapacity, destructor order) inside Coq.',
    'note': 'Trusted: Coq kernel; harness/h_poolalloc.cpp; hand-written Model/PoolAllocModel.v (differentially tied). No axioms (Print Assumptions: closed).',
}

ASSUMPTIONS = [
    'guarded domain 1 <= chunkSize <= allocSize (< 2^64).  chunkSize = 0 is a division by zero in the constructor (UB, not modelled); allocSize < chunkSize makes '
    'chunksPerAlloc_ = 0 and the refill loop bound chunksPerAlloc_-1 wrap to 2^64-1 (theorem C42_guard_needed_general): the real code is never run there',
    'client contract = validity of histories: dealloc only of a chunk that is currently outstanding; chunks handed out before clear() are not dealloc\'d afterwards '
    '(pool_allocator.h says so); clear() is not called concurrently with anything',
    'allocFunc returns a block of allocSize bytes disjoint from all slabs obtained so far (hypothesis allocf_fresh; satisfied by the correspondence oracle, theorem C42_oracle_fresh)',
    'concurrency (PoolAllocator): the sequential theorems apply to the linearisation given by the spin lock; that every access to chunks_/backingAllocs_/backingAllocs2_ in '
    'alloc()/dealloc() sits between the fetch_or that returned 0 and the store(0) is by inspection of pool_allocator.cpp, mutual exclusion of that section is theorem '
    'C42_lock_mutex (model-level, no lockstep tie), and the real class is additionally stress-tested with 1..4 threads against an atomic ownership map',
]

def harness():
    return dv.build_harness('h_poolalloc', ['h_poolalloc.cpp'])


# ---------------------------------------------------------------------------------------------- case generation

class Sim:
    """client-side bookkeeping only (used to generate valid histories and to aim at boundaries): number of outstanding chunks,
    and the slab count predicted by the proved rule `allocFunc is called iff every chunk of every slab is outstanding`"""

    def __init__(self, cpa):
        self.cpa, self.out, self.slabs, self.ops, self.clears, self.reuse = cpa, 0, 0, [], 0, False

    def alloc(self, k=1):
        for _ in range(k):
            if self.out == self.slabs * self.cpa:
                self.slabs += 1
            elif self.clears:
                self.reuse = True
            self.out += 1
            self.ops.append('a')

    def dealloc(self, i):
        assert 0 <= i < self.out
        self.out -= 1
        self.ops.append('d%d' % i)

    def clear(self):
        self.out = 0
        self.clears += 1
        self.ops.append('c')


def gen_case(r, maxops):
    cpa = r.choice([1, 1, 2, 2, 3, 3, 4, 5, 8, 16])
    cs = r.choice([1, 2, 3, 8, 16, 17, 64, 100, 255])
    rem = r.choice([0, 0, 1, cs - 1, r.randint(0, cs - 1)])
    asz = cpa * cs + rem
    variant = r.randint(0, 1)
    s = Sim(cpa)
    nph = r.randint(1, 9)
    for _ in range(nph):
        if len(s.ops) >= maxops:
            break
        ph = r.random()
        cap = s.slabs * cpa
        if ph < 0.45:
            # alloc run aimed at slab boundaries / the capacity
            k = r.choice([1, max(1, cpa - 1), cpa, cpa + 1, 2 * cpa, 2 * cpa + 1, max(1, cap - s.out), cap - s.out + 1, 3 * cpa + 1, r.randint(1, 12)])
            s.alloc(min(k, max(1, maxops - len(s.ops))))
        elif ph < 0.75:
            if s.out == 0:
                s.alloc(1)
                continue
            order = r.choice(['lifo', 'fifo', 'rand'])
            n = r.choice([1, s.out, max(1, s.out // 2), max(1, s.out - 1), min(s.out, cpa)])
            for _ in range(min(n, max(1, maxops - len(s.ops)))):
                i = s.out - 1 if order == 'lifo' else 0 if order == 'fifo' else r.randrange(s.out)
                s.dealloc(i)
        elif ph < 0.93:
            s.clear()
            if r.random() < 0.3:
                s.clear()
            # fewer / as many / more allocs than the slabs can serve
            cap = s.slabs * cpa
            k = r.choice([0, 1, max(0, cap - 1), cap, cap + 1, cap + cpa, cap + cpa + 1])
            s.alloc(min(k, max(0, maxops - len(s.ops))))
        else:
            # interleaved random walk
            for _ in range(r.randint(1, 15)):
                if s.out and r.random() < 0.5:
                    s.dealloc(r.randrange(s.out))
                else:
                    s.alloc(1)
    return {'variant': variant, 'cs': cs, 'asz': asz, 'ops': s.ops, 'cpa': cpa, 'slabs': s.slabs, 'clears': s.clears, 'reuse': s.reuse}


def mk_case(variant, cs, asz, ops):
    s = Sim(asz // cs)
    for o in ops:
        if o == 'a':
            s.alloc()
        elif o == 'c':
            s.clear()
        else:
            s.dealloc(int(o[1:]))
    return {'variant': variant, 'cs': cs, 'asz': asz, 'ops': ops, 'cpa': asz // cs, 'slabs': s.slabs, 'clears': s.clears, 'reuse': s.reuse}


def fixed_cases():
    """deterministic boundary histories, replayed on every run"""
    out = []
    for variant in (0, 1):
        for cs, asz in ((1, 1), (8, 8), (8, 15), (8, 16), (16, 40), (3, 10), (64, 4096), (100, 1000)):
            cpa = asz // cs
            for ops in ([], ['a'], ['c'], ['c', 'c', 'a'], ['a'] * (cpa + 1), ['a'] * (2 * cpa + 1) + ['c'] + ['a'] * (2 * cpa + 1),
                        ['a'] * cpa + ['d0'] * cpa + ['a'] * (cpa + 1), ['a'] * (cpa + 1) + ['c', 'c'] + ['a'] * (2 * cpa + 1) + ['c'] + ['a'] * (3 * cpa + 1),
                        ['a', 'c'] * 3 + ['a'] * (cpa + 1), ['a'] * (3 * cpa) + ['c', 'a', 'c'] + ['a'] * (3 * cpa + 1)):
                out.append(mk_case(variant, cs, asz, list(ops)))
    return out


def case_line(c):
    return ('%d %d %d %s' % (c['variant'], c['cs'], c['asz'], ' '.join(c['ops']))).strip()


def parse_pa(line):
    """-> dict(obs=[(slab, off, ncalls, cap)], dtor=[...], intact=bool) or None"""
    if line is None or not line.startswith('pa '):
        return None
    try:
        parts = [p.strip() for p in line.split(';')]
        head = parts[0].split(None, 2)
        n = int(head[1])
        obs = []
        if n:
            for seg in head[2].split('|'):
                t = seg.split()
                if t[0] == 'A':
                    obs.append((int(t[1]), int(t[2]), int(t[3]), int(t[4])))
                else:
                    obs.append((-1, -1, int(t[1]), int(t[2])))
        if len(obs) != n:
            return None
        d = parts[1].split()
        dtor = [int(x) for x in d[2:]]
        if d[0] != 'dtor' or len(dtor) != int(d[1]):
            return None
        intact = parts[2].split()[1] == '1' and parts[3].split()[1] == '1'
        return {'obs': obs, 'dtor': dtor, 'intact': intact}
    except (IndexError, ValueError):
        return None


def coq_op(o):
    if o == 'a':
        return 'Alloc'
    if o == 'c':
        return 'Clear'
    return '(Dealloc %s%%nat)' % o[1:]


def coq_case(c, p):
    ops = dv.coq_list([coq_op(o) for o in c['ops']])
    obs = dv.coq_list([('ObN %s %s' % (dv.zlit(ob[2]), dv.zlit(ob[3]))) if o != 'a' else ('ObA %s %s %s %s' % tuple(dv.zlit(x) for x in ob))
                       for o, ob in zip(c['ops'], p['obs'])])
    return '(PC %d %d %s %s %s %s)' % (c['cs'], c['asz'], ops, obs, dv.coq_list([dv.zlit(x) for x in p['dtor']]), 'true' if p['intact'] else 'false')


def replay_cmd(line):
    return 'echo "%s" | /verif/build/harness/h_poolalloc-*' % line


# ---------------------------------------------------------------------------------------------- correspondence

def correspond(ctx, exe):
    r = ctx.rng
    if ctx.replay:
        obj = json.load(open(ctx.replay))
        line = obj.get('line') or ''
        if line.startswith('mt '):
            return stress(ctx, exe, [line])
        t = line.split()
        cases = [mk_case(int(t[0]), int(t[1]), int(t[2]), t[3:])]
    else:
        n = 1000 if ctx.quick else 12000
        maxops = 70 if ctx.quick else 120
        cases = fixed_cases()
        while len(cases) < n:
            cases.append(gen_case(r, maxops))
    lines = [case_line(c) for c in cases]
    outs = pf_common.run_harness(exe, lines, timeout=300)
    kept, terms = [], []
    distinct = set()
    for c, l, o in zip(cases, lines, outs):
        p = parse_pa(o)
        if p is None or len(p['obs']) != len(c['ops']):
            ctx.violation('real PoolAllocator%s failed (crash / hang / malformed output) on the valid history "%s": %s' % ('' if c['variant'] else ' (NoLock)', l, o),
                          {'case': c, 'line': l, 'output': o, 'cmd': replay_cmd(l)})
            continue
        kept.append((c, l, p))
        terms.append(coq_case(c, p))
        if c['slabs'] >= 2 or c['reuse']:
            distinct.add(l)
    ctx.cov['evaluations'] += len(cases)
    ctx.cov['distinct_nontrivial'] += len(distinct)
    ctx.cov['rule'] = ('sequential histories over {alloc, dealloc of the i-th outstanding chunk, clear} x chunksPerAlloc in {1,2,3,4,5,8,16} x chunkSize in {1..255} x allocSize '
                       'with and without slack x both variants; phases aimed at slab boundaries, the capacity and clear() at every fill level (fewer/as many/more allocs after '
                       'clear than the slabs can serve, clear twice), dealloc orders LIFO/FIFO/random.  Non-trivial = at least two slabs obtained or a slab reused after '
                       'clear(); distinct = distinct (variant, chunkSize, allocSize, history) lines')
    hist = {0: 0, 1: 0, 2: 0, 3: 0}
    shards = pf_common.shard(list(range(len(kept))), max(1, (len(kept) + 1999) // 2000))
    for si, idxs in enumerate(shards):
        if not idxs:
            continue
        res = pf_common.coq_judge(ctx, 'cases_%d' % si, 'From DV Require Import Base.MachInt Base.Corr Model.PoolAllocModel Model.C42Check.',
                                  [('judge_pa', [terms[i] for i in idxs])])
        if res is None:
            ctx.broken.append('correspondence D(C42): the model no longer evaluates (see coq_eval_errors)')
            py_fallback(ctx, [kept[i] for i in idxs])
            continue
        for v, i in zip(res[0], idxs):
            c, l, p = kept[i]
            hist[v] = hist.get(v, 0) + 1
            if v == 2:
                ctx.violation('PoolAllocator%s violates C42 on the history "%s": %s (destructor freed slabs %s, chunk byte patterns intact: %s)'
                              % ('' if c['variant'] else ' (NoLock)', l, diagnose(c, p), p['dtor'], p['intact']),
                              {'case': c, 'line': l, 'impl': p, 'cmd': replay_cmd(l)})
            elif v == 1:
                ctx.broken.append('correspondence D(C42): implementation differs from the model on "%s": %s dtor %s (property still holds there)' % (l, p['obs'], p['dtor']))
            elif v == 3:
                ctx.broken.append('correspondence D(C42): malformed case "%s"' % l)
    ctx.cov['verdict_histogram'] = {'agree_and_property_holds': hist[0], 'differs_but_property_holds': hist[1], 'property_fails': hist[2], 'malformed': hist[3]}
    ctx.cov['traces_validated_against_impl'] += hist[0]
    ctx.cov['histogram_chunks_per_slab'] = {str(k): sum(1 for c in cases if c['cpa'] == k) for k in sorted(set(c['cpa'] for c in cases))}
    ctx.cov['histogram_clears'] = {str(k): sum(1 for c in cases if min(c['clears'], 4) == k) for k in range(5)}
    ctx.cov['histories_with_slab_reuse_after_clear'] = sum(1 for c in cases if c['reuse'])
    ctx.cov['ops_total'] = sum(len(c['ops']) for c in cases)
    for k in (len(kept) // 3, 2 * len(kept) // 3, len(kept) - 1):
        if 0 <= k < len(kept):
            ctx.sample({'case': kept[k][1], 'impl': {'obs(slab,off,ncalls,cap)': kept[k][2]['obs'][:12], 'dtor': kept[k][2]['dtor']}})


def diagnose(c, p):
    """first offending observation, for the message only (the verdict is Coq's)"""
    out, prev = [], 0
    for k, (o, ob) in enumerate(zip(c['ops'], p['obs'])):
        s, off, nc, _ = ob
        if o == 'a':
            if not (0 <= s < nc and 0 <= off and off + c['cs'] <= c['asz']):
                return 'op %d: chunk (slab %d, offset %d) not inside a slab' % (k, s, off)
            for (s2, o2) in out:
                if s == s2 and not (off + c['cs'] <= o2 or o2 + c['cs'] <= off):
                    return 'op %d: chunk (slab %d, offset %d) overlaps outstanding (slab %d, offset %d)' % (k, s, off, s2, o2)
            if nc != prev and not (nc == prev + 1 and len(out) == c['cpa'] * prev):
                return 'op %d: allocFunc called with %d of %d chunks outstanding' % (k, len(out), c['cpa'] * prev)
            out.append((s, off))
        elif o == 'c':
            out = []
        else:
            out.pop(int(o[1:]))
        if o != 'a' and nc != prev:
            return 'op %d: allocFunc called by %s' % (k, o)
        prev = nc
    return 'destructor did not pass each slab to deallocFunc exactly once, or a chunk\'s bytes were clobbered while it was outstanding'


def py_fallback(ctx, kept):
    for c, l, p in kept:
        d = diagnose(c, p)
        if not d.startswith('destructor') or sorted(p['dtor']) != list(range(p['obs'][-1][2] if p['obs'] else 0)) or not p['intact']:
            ctx.violation('PoolAllocator violates C42 on "%s": %s' % (l, d), {'case': c, 'line': l, 'impl': p, 'cmd': replay_cmd(l)})
            break


def stress(ctx, exe, lines=None):
    r = ctx.rng
    if lines is None:
        lines = []
        for T in (1, 2, 3, 4, 4, 2, 3, 4):
            cpa = r.choice([1, 2, 3, 8])
            cs = r.choice([1, 8, 24, 64])
            asz = cpa * cs + r.choice([0, cs - 1])
            iters = 250000 if ctx.quick else 2500000
            lines.append('mt %d %d %d %d %d %d' % (T, cs, asz, iters, r.choice([1, 2, 5, 16]), r.randint(1, 1 << 30)))
    outs = pf_common.run_harness(exe, lines, timeout=60 if ctx.quick else 300)
    ok = 0
    for l, o in zip(lines, outs):
        t = (o or '').split()
        good = len(t) == 15 and t[0] == 'mt' and [t[4], t[6], t[8], t[10], t[12], t[14]] == ['0', '0', '0', '0', '1', '1'] and int(t[2]) > 0
        if good:
            ok += 1
        else:
            ctx.violation('PoolAllocator under %s threads: a chunk was handed to two owners / left its slab / was clobbered / slabs were not reused or not freed exactly once: "%s" -> %s'
                          % (l.split()[1], l, o), {'line': l, 'output': o, 'cmd': replay_cmd(l)})
    ctx.cov['evaluations'] += len(lines)
    ctx.cov['mt_stress_runs_ok'] = ok
    if outs:
        ctx.sample({'stress': lines[-1], 'impl': outs[-1]})


def run(ctx):
    ctx.prove(models=['Model/C42Check.v', 'Base/Corr.v'])
    exe = harness()
    ctx.phase('build')
    correspond(ctx, exe)
    ctx.phase('correspond')
    if not ctx.replay:
        stress(ctx, exe)
        ctx.phase('stress')
