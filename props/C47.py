"""C47 -- ForceQueuingTag never runs the functor on the caller (pool with >= 1 thread).   Tie: T + D (all overloads under forced load) + lockstep L."""
import dv, taskset_common as T

META = {
    'category': 'proof',
    'technique': 'regenerated decision trees of every ForceQueuingTag overload with a Coq contract lemma + step-level closure lemma on the model + decisions of the real code under forced load + lockstep',
    'text': 'C47_force_decision_is_queue: on the code regenerated from thread_pool.h / task_set.h every ForceQueuingTag overload (ThreadPool::schedule/schedulePlaced with and without producer token, '
            'TaskSet::schedule, ConcurrentTaskSet::schedule light/heavy) is ThreadPool::forceEnqueue, whose decision is Queue whenever numThreads_ >= 1 at its load, for every load level, '
            'load factor, outstanding count, cancellation state, recursion and inline depth. C47_force_never_inline: in the step model no step of the force paths (single and bulk) pushes a '
            'wrapper, a raw functor call or a body, or logs a body event. On the real code: functors record the executing thread and an in-call flag for every overload under all load levels.',
    'note': T.NOTE,
}
ASSUMPTIONS = T.ASSUME + ['numThreads_ is read once by forceEnqueue; a concurrent resize(0) after that load is C03\'s subject']


def run(ctx):
    exe = T.prove_and_build(ctx, 'C47')

    def on_l(v, c, p, o):
        ctx.violation('a ForceQueuingTag functor ran on the calling thread before the scheduling call returned (numThreads_ >= 1): %s -> %s' % (T.case_line(c)[:300], o[:400]),
                      {'case': T.case_line(c), 'output': o, 'cmd': 'echo "<case>" | build/harness/h_taskset-*'})

    def on_d(v, d, vals, o):
        ctx.violation('ForceQueuingTag call ran the functor on the caller: %s -> %s' % (T.d_line(d), o), {'case': T.d_line(d), 'output': o, 'cmd': 'echo "<case>" | build/harness/h_taskset-*'})
    r = ctx.rng
    n = 70 if ctx.quick else 2000
    # bias: force overloads
    ds = []
    for i in range(n):
        d = T.gen_dcase(r)
        if i % 3 != 2:
            d['force'] = 1
            if d['nthr'] > 0 and r.random() < 0.5:
                d['blockers'] = r.choice([32 * d['nthr'] + 1, 33 * d['nthr'] + 2, 3 * d['nthr'] + 1])
            d['canceled'] = d['canceled'] if r.random() < 0.3 else 0
            if d['cls'] != 3 and r.random() < 0.4:
                d['bulk'] = r.choice([1, 2, 5])
        else:
            d['bulk'] = d['bulk'] if d['force'] else 0
        ds.append(d)
    res = T.run_decisions(ctx, exe, ds, 'judge_C47_d')
    if res is None:
        ctx.broken.append('correspondence D(C47): the decision judge no longer evaluates')
        T.d_fallback(ctx, exe, ds, on_d)
        res = []
    hist = {}
    for d, v, o, x in res:
        hist[x] = hist.get(x, 0) + 1
        if x == 2:
            on_d(x, d, v, o)
        elif x == 1:
            ctx.broken.append('correspondence D(C47): decision of the real code differs from the regenerated decision function on ' + T.d_line(d) + ' -> ' + o[:200])
    ctx.cov['evaluations'] += len(ds)
    ctx.cov['distinct_nontrivial'] += len(set(o for _, _, o, _ in res))
    ctx.cov['decision_verdicts'] = {'agree': hist.get(0, 0), 'differ': hist.get(1, 0), 'property_fails': hist.get(2, 0)}
    ctx.cov['force_calls_on_real_code'] = sum(1 for d, _, _, _ in res if d['force'] and d['nthr'] >= 1)
    if res:
        ctx.sample({'case': T.d_line(res[0][0]), 'impl': res[0][2]})
    ctx.phase('decisions')
    T.lockstep_phase(ctx, exe, 'judge_C47', ['force', 'force', 'mixed'], 70 if ctx.quick else 3000, on_verdict=on_l)
