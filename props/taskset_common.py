"""Shared machinery of the task-set checks C02, C04, C05, C47 (model Model/TaskSetModel.v, harness h_taskset.cpp)."""
import os, re, dv, ls_common

SITES = ['start', 'ts.canceled.load', 'tsk.schedule.outstanding.load', 'tsk.schedule.inline.body', 'cts.schedule.outstanding.load',
         'cts.schedule.inline.body', 'cts.schedule.inline2.body', 'cts.placed.outstanding.load', 'cts.placed.inline.body',
         'cts.placed.inline2.body', 'ts.package.inc', 'ts.task.canceled.load', 'ts.task.body', 'ts.task.dec', 'ts.exc.cas', 'ts.exc.write',
         'ts.exc.set.store', 'ts.exc.cancel.store', 'ts.exc.guard.load', 'ts.exc.move', 'ts.exc.reset.store', 'ts.exc.canceled.load',
         'ts.bulk.ring.check', 'ts.bulk.ring.inc', 'ts.bulk.outstanding.load', 'ts.bulk.inc', 'ts.bulkp.outstanding.load', 'ts.bulkp.inc',
         'ts.bulkfq.inc', 'ts.inline.body', 'ts.help.token', 'ts.help.central', 'ts.help.rings', 'cts.wait.load', 'cts.wait.load2',
         'tsk.wait.load', 'tsk.wait.load2', 'cts.trywait.load', 'cts.trywait.load2', 'tsk.trywait.tload', 'tsk.trywait.load',
         'tsk.trywait.load2', 'ts.cancel.store', 'ts.h.worker']
TAGS = {'b': 1, 'e': 2, 'x': 3, 'u': 4, 's': 5, 'w': 6, 'tw': 7, 'rt': 8, 'c': 9, 'wk': 10, 'bs': 11, 'ee': 12, 'wc': 13, 'sf': 14, 'bf': 15}
BODY_SITES = (3, 5, 6, 8, 9, 12, 29)
IMPORTS = 'From DV Require Import Base.MachInt Base.Sched Model.TaskSetModel Model.TaskSetImplCheck.'          # lockstep judges: independent of Gen/GenTaskSet.v
IMPORTS_D = 'From DV Require Import Base.MachInt Base.Sched Model.TaskSetModel Model.TaskSetCheck.'           # decision judges vs. the regenerated functions
CHECK_MODELS = ['Model/TaskSetImplCheck.v', 'Model/TaskSetCheck.v', 'Model/C02Check.v', 'Model/C04Check.v', 'Model/C05Check.v', 'Model/C47Check.v']


# ------------------------------------------------------------------------------------------------ programs
def op_txt(o):
    k = o[0]
    if k == 's': return 's %d %d %d [ %s ]' % (o[1], o[2], o[3], ops_txt(o[4]))
    if k == 'b': return 'b %d %d %d [ %s ]' % (o[1], o[2], o[3], ops_txt(o[4]))
    if k in 'wc': return '%s %d' % (k, o[1])
    if k == 'y': return 'y %d %d' % (o[1], o[2])
    return k


def ops_txt(l):
    return ' '.join(op_txt(o) for o in l)


def cb(x):
    return 'true' if x else 'false'


def op_coq(o):
    k = o[0]
    if k == 's': return '(OSched %d%%nat %s %s %s)' % (o[1], cb(o[2]), cb(o[3]), ops_coq(o[4]))
    if k == 'b': return '(OBulk %d%%nat %s %d%%nat %s)' % (o[1], cb(o[2]), o[3], ops_coq(o[4]))
    if k == 'w': return '(OWait %d%%nat)' % o[1]
    if k == 'y': return '(OTryWait %d%%nat %d)' % (o[1], o[2])
    if k == 'c': return '(OCancel %d%%nat)' % o[1]
    return {'k': 'OWorker', 't': 'OThrow'}[k]


def ops_coq(l):
    return dv.coq_list([op_coq(o) for o in l])


def count_ops(l):
    return sum(1 + (count_ops(o[4]) if o[0] in 'sb' else 0) for o in l)


def judge_parallel(ctx, imports, fn, terms, shard_size=120, jobs=12, timeout=900):
    """ls_common.judge_parallel with scratch file names unique to this process: several ./check runs of the same property may share build/<id>/"""
    import concurrent.futures as cf
    if not terms:
        return []
    shards = [terms[i:i + shard_size] for i in range(0, len(terms), shard_size)]
    tag = 'cases_p%d_%s' % (os.getpid(), fn)

    def one(ix):
        body = ('From Coq Require Import ZArith List Bool.\nImport ListNotations.\n' + imports + '\nLocal Open Scope Z_scope.\n' +
                'Definition cases := %s.\nEval vm_compute in (map %s cases).\n' % (dv.coq_list(shards[ix]), fn))
        rc, out = dv.coq_eval(ctx.work, '%s_%d' % (tag, ix), body, timeout)
        try:
            os.unlink(os.path.join(ctx.work, '%s_%d.v' % (tag, ix)))
        except OSError:
            pass
        if rc != 0:
            return ('err', out[-1500:])
        vals = dv.eval_results(out)
        return ('ok', dv.parse_zlist(vals[0]))
    with cf.ThreadPoolExecutor(max_workers=jobs) as ex:
        res = list(ex.map(one, range(len(shards))))
    out = []
    for kind, v in res:
        if kind == 'err':
            ctx.cov.setdefault('coq_eval_errors', []).append(v)
            return None
        out += v
    return out


def case_line(c):
    """c: dict(budget, nthr, plf, wr, sets=[(conc, heavy, mult, parent, canc0)], threads=[(isPool, dep0, ops)], sched)"""
    parts = ['L %d' % c['budget'], 'P %d %d %d 3' % (c['nthr'], c['plf'], c['wr'])]
    for s in c['sets']:
        parts.append('S %d %d %d %d %d' % s)
    for t in c['threads']:
        parts.append('T %d %d : %s' % (t[0], t[1], ops_txt(t[2])))
    parts.append('X ' + ' '.join(map(str, c['sched'])))
    return ' ; '.join(parts)


def parse_out(line):
    if line is None or not line.startswith('steps'):
        return None
    parts = [p.strip() for p in line.split('|')]
    if len(parts) < 5:
        return None
    steps = []
    for tok in parts[0].split()[1:]:
        t, site = tok.split(':', 1)
        if '@' in site:
            site, s = site.split('@')
        else:
            s = '0'
        if site not in SITES:
            return {'error': 'unknown site ' + site}
        steps.append((int(t), SITES.index(site) * 64 + int(s)))
    results = {}
    for tok in parts[1].split()[1:]:
        t, kv = tok.split(':', 1)
        k, v = kv.split('=')
        v = int(v)
        results.setdefault(int(t), []).append((TAGS[k], v // 1000, v % 1000))
    m = re.match(r'sets(.*) wr (-?\d+) q (\d+)', parts[3])
    if not m:
        return {'error': 'bad snapshot ' + parts[3]}
    sets = [tuple(int(x) for x in tok.split(':')) for tok in m.group(1).split()]
    status = {'done': 0, 'deadlock': 1, 'budget': 2}.get(parts[-1].split()[-1], 9)
    return {'steps': steps, 'results': results, 'sets': sets, 'wr': int(m.group(2)), 'q': int(m.group(3)), 'status': status}


def never_ran(p):
    """ids of the submitted tasks whose body never ran, per set, oldest first: {set: [id, ...]}"""
    ran = set(a for evs in p['results'].values() for (tag, a, st) in evs if tag == 1)
    subs = []
    for evs in p['results'].values():
        for (tag, a, st) in evs:
            if tag in (5, 14):
                subs.append((a // 64, a % 64))
            elif tag in (11, 15):
                base, st_, n = a // 4096, (a // 64) % 64, a % 64
                subs += [(base + i, st_) for i in range(n)]
    out = {}
    for i, st_ in sorted(subs):
        if i not in ran:
            out.setdefault(st_, []).append(i)
    return out


def derive_hints(p, alt=0):
    """the dequeue oracle of the model, read off the implementation's trace: one hint per successful general dequeue
    (a wrapper start whose thread's previous step is a help / worker point): the task id when the body then runs.  When the wrapper skips
    the body (set cancelled) the task it took is not observable: alt = 0 says -(set+1) = "the oldest queued task of that set"; alt >= 1 names
    one of the set's submitted tasks whose body never ran (oldest first, then rotations); run_lockstep tries these before it calls a
    disagreement (a named task that was never enqueued -- e.g. a bulk submission refused because the set was cancelled -- makes the
    model fall back to the oldest task overall, which is why alt = 0 stays the first choice)."""
    steps = p['steps']
    skipped = {k: list(v) for k, v in never_ran(p).items()} if alt else {}      # alt = 0: "the oldest task of that set"
    for k in skipped:
        if skipped[k] and alt > 1:
            a = (alt - 1) % len(skipped[k])
            skipped[k] = skipped[k][a:] + skipped[k][:a]
            if alt - 1 >= len(skipped[k]):
                skipped[k].reverse()
    per_thread = {}
    for i, (t, code) in enumerate(steps):
        per_thread.setdefault(t, []).append(i)
    # j-th body point of a thread <-> its j-th 'b' event
    body_id = {}
    for t, idxs in per_thread.items():
        bs = [a for (tag, a, st) in p['results'].get(t, []) if tag == 1]
        j = 0
        for i in idxs:
            if steps[i][1] // 64 in BODY_SITES:
                if j < len(bs):
                    body_id[i] = bs[j]
                j += 1
    hints = []
    for t, idxs in per_thread.items():
        pass
    prev = {}
    pos_in_thread = {}
    for t, idxs in per_thread.items():
        for n, i in enumerate(idxs):
            pos_in_thread[i] = n
    for i, (t, code) in enumerate(steps):
        site, s = code // 64, code % 64
        if site == 11 and prev.get(t, (0, 0))[0] in (31, 32, 43):
            idxs = per_thread[t]
            n = pos_in_thread[i]
            h = -(s + 1)
            if n + 1 < len(idxs) and steps[idxs[n + 1]][1] // 64 == 12 and idxs[n + 1] in body_id:
                h = body_id[idxs[n + 1]]
            hints.append((prev[t][1], h))       # ordered by the step that dequeued
        prev[t] = (site, i)
    out = []
    for _, h in sorted(hints):
        if h < 0 and skipped.get(-h - 1):
            h = skipped[-h - 1].pop(0)
        out.append(h)
    return out


def wrapped_bodies(p):
    """ids of the tasks whose body was started by the queued-task wrapper (site 12 = ts.task.body): j-th body point of a thread <-> its j-th 'b' event"""
    out = []
    per_thread = {}
    for i, (t, code) in enumerate(p['steps']):
        per_thread.setdefault(t, []).append(code // 64)
    for t, sites in per_thread.items():
        bs = [a for (tag, a, st) in p['results'].get(t, []) if tag == 1]
        j = 0
        for s_ in sites:
            if s_ in BODY_SITES:
                if j < len(bs) and s_ == 12:
                    out.append(bs[j])
                j += 1
    return sorted(out)


def skipped_dequeues(p):
    """number of general dequeues whose wrapper skipped the body (the task taken is not observable)"""
    n = 0
    prev = {}
    per_thread = {}
    for i, (t, code) in enumerate(p['steps']):
        per_thread.setdefault(t, []).append(i)
    for t, idxs in per_thread.items():
        for n_, i in enumerate(idxs):
            site = p['steps'][i][1] // 64
            if site == 11 and n_ > 0 and p['steps'][idxs[n_ - 1]][1] // 64 in (31, 32, 43):
                if not (n_ + 1 < len(idxs) and p['steps'][idxs[n_ + 1]][1] // 64 == 12):
                    n += 1
    return n


def trailing_dequeue(p):
    """the run ended (budget) while some thread's last step was a dequeue point (help.central / help.rings / help.token / worker)"""
    if p['status'] != 2:
        return False
    last = {}
    for t, code in p['steps']:
        last[t] = code // 64
    return any(site in (30, 31, 32, 43) for site in last.values())


def kids_of(c, i):
    return [j for j, s in enumerate(c['sets']) if s[3] == i]


def canc0_closure(c):
    canc = [bool(s[4]) for s in c['sets']]
    for i, s in enumerate(c['sets']):     # parents precede children
        if s[3] >= 0 and canc[s[3]]:
            canc[i] = True
    return canc


def setup_coq(c, hints):
    cfgs = ['(TC %s %s %d %s)' % (cb(s[0]), cb(s[1]), s[2] * c['nthr'], dv.coq_list(['%d%%nat' % k for k in kids_of(c, i)])) for i, s in enumerate(c['sets'])]
    progs = ['(%s, %s, %d)' % (ops_coq(t[2]), cb(t[0]), t[1]) for t in c['threads']]
    return '(SU %s %s %s %d %d 3 0 %s %s)' % (dv.coq_list(cfgs), dv.coq_list([cb(x) for x in canc0_closure(c)]), dv.zlit(c['wr']), c['nthr'], c['plf'],
                                              dv.coq_list([dv.zlit(h) for h in hints]), dv.coq_list(progs))


def ztrips(l):
    return dv.coq_list(['(%s,%s,%s)' % (dv.zlit(a), dv.zlit(b), dv.zlit(x)) for a, b, x in l])


def case_term(c, p, alt=0):
    hints = derive_hints(p, alt)
    nthr = len(c['threads'])
    return '(LC %s %d%%nat %s %s %s %s %s %d %d %s)' % (
        setup_coq(c, hints), c['budget'] + 1, dv.coq_list([str(x) for x in c['sched'][:c['budget']]]),
        ls_common.zpairs(p['steps']), dv.coq_list([ztrips(p['results'].get(t, [])) for t in range(nthr)]),
        ztrips(p['sets']), dv.zlit(p['wr']), p['q'], p['status'], dv.coq_list([str(k) for k in wrapped_bodies(p)]))


# ------------------------------------------------------------------------------------------------ generators
def rand_body(r, sets, depth, throw_p, nested_p):
    body = []
    if r.random() < throw_p:
        if r.random() < 0.4 and depth > 0 and r.random() < nested_p:
            body.append(('s', r.choice(sets), int(r.random() < 0.5), 0, []))
        body.append(('t',))
        return body
    if depth > 0 and r.random() < nested_p:
        s = r.choice(sets)
        if r.random() < 0.35:     # a task that bulk-schedules children onto a (its own) concurrent set, mostly with ForceQueuingTag
            body.append(('b', s, int(r.random() < 0.8), r.choice([2, 3, 3]), []))
        else:
            body.append(('s', s, int(r.random() < 0.6), int(r.random() < 0.2), rand_body(r, sets, depth - 1, throw_p, nested_p * 0.5)))
    return body


def gen_directed_cancel(r):
    """aimed at the case splits of C04: fill a set beyond its load factor with force-queued tasks, cancel (directly, through a parent or through a throwing
    task), then submit through every non-forced path"""
    nthr = r.choice([1, 1, 2])
    conc = r.choice([0, 1, 1])
    heavy = int(conc and r.random() < 0.5)
    sets = [(conc, heavy, 1, -1, 0)]
    target = 0
    if r.random() < 0.3:
        sets = [(1, 0, 1, -1, 0), (conc, heavy, 1, 0, 0)]
        target = 1
    fill = [('s', target, 1, 0, [])] * (nthr + 1 + r.choice([0, 1, 2])) if r.random() < 0.8 else []
    how = r.random()
    if how < 0.6:
        canc = [('c', 0 if len(sets) > 1 and r.random() < 0.6 else target)]
    elif how < 0.8:
        canc = [('s', target, 1, 0, [('t',)]), ('k',)] + ([('k',)] * len(fill))
    else:
        canc = []
        sets[target] = sets[target][:4] + (1,)
    sub = []
    for _ in range(r.randint(1, 3)):
        x = r.random()
        if x < 0.6:
            sub.append(('s', target, 0, int(r.random() < 0.3), []))
        elif x < 0.85:
            sub.append(('b', target, 0, r.choice([1, 2, 3]), []))
        else:
            sub.append(('s', target, 1, 0, []))
    ops = fill + canc + sub + ([('w', target)] if r.random() < 0.7 else [])
    threads = [(int(r.random() < 0.3), 0, ops)] + [(int(r.random() < 0.7), 0, [('k',)] * r.randint(1, 4)) for _ in range(r.choice([0, 1, 2]))]
    budget = 110
    return {'budget': budget, 'nthr': nthr, 'plf': r.choice([0, 1, 32]), 'wr': r.choice([0, 0, 2, 40]), 'sets': sets, 'threads': threads,
            'sched': [r.randrange(0, 60) for _ in range(budget)] if r.random() < 0.5 else [0] * budget}


POLLS = [('y', 0), ('y', 1), ('y', 50), ('w',)]


def exc_probe(kind, order, nthrow=1, nplain=1, via_worker=False):
    """deterministic probe family of C05: some tasks throw, ALL tasks finish, then the set is polled with tryWait(0) / tryWait(1) / tryWait(large) /
    wait() in the given order (every poll observes completion; the first one has to rethrow)"""
    conc, heavy = {'tsk': (0, 0), 'light': (1, 0), 'heavy': (1, 1)}[kind]
    subs = [('s', 0, 1, 0, [('t',)])] * nthrow + [('s', 0, 1, 0, [])] * nplain
    polls = [(('y', 0, p[1]) if p[0] == 'y' else ('w', 0)) for p in order]
    run_all = [('k',)] * (nthrow + nplain)
    if via_worker:
        threads = [(0, 0, subs + polls), (1, 0, run_all)]
        sched = [0] * (1 + 2 * (nthrow + nplain)) + [1] * 60 + [0] * 60       # submit everything, let the worker finish everything, then poll
    else:
        threads = [(0, 0, subs + run_all + polls)]
        sched = [0] * 120
    return {'budget': 120, 'nthr': 1, 'plf': 32, 'wr': 0, 'sets': [(conc, heavy, 4, -1, 0)], 'threads': threads, 'sched': sched[:120]}


def exc_probes():
    import itertools
    out = []
    for kind in ('tsk', 'light', 'heavy'):
        for order in itertools.permutations(POLLS, 2):
            out.append(exc_probe(kind, list(order) + [('w',)]))
        out.append(exc_probe(kind, [('y', 0), ('y', 0), ('y', 1), ('w',)], nthrow=2))
        out.append(exc_probe(kind, [('y', 0), ('w',)], via_worker=True))
        out.append(exc_probe(kind, [('y', 1), ('y', 0), ('w',)], via_worker=True))
    return out


def gen_directed_exc(r):
    """random member of the probe family: throwing and plain tasks, all executed, then a random poll sequence"""
    kind = r.choice(['tsk', 'light', 'heavy'])
    order = [r.choice(POLLS) for _ in range(r.randint(1, 4))]
    c = exc_probe(kind, order, nthrow=r.choice([1, 1, 2]), nplain=r.choice([0, 1, 2]), via_worker=r.random() < 0.5)
    if r.random() < 0.5:
        c['sched'] = [r.randrange(0, 60) for _ in range(c['budget'])]
        if len(c['threads']) == 2:
            c['threads'][1] = (1, 0, c['threads'][1][2] + [('k',)] * 2)
    return c


def c02_probes():
    """probe family of C02: a force-queued task whose body bulk-schedules children with ForceQueuingTag onto its own ConcurrentTaskSet (numThreads_ = 1, so the
    chunks are single tasks: a worker can run child 1 before child 2 is enqueued), workers, and a thread that polls with tryWait(0) / waits"""
    import random
    out = []
    for heavy in (0, 1):
        progs = [[(0, 0, [('s', 0, 1, 0, [('b', 0, 1, 3, [])])] + [('k',)] * 4), (1, 0, [('k',)] * 3), (0, 0, [('y', 0, 0)] * 6 + [('w', 0)])],
                 [(0, 0, [('s', 0, 1, 0, [('b', 0, 1, 3, [])]), ('w', 0)]), (1, 0, [('k',)] * 3), (1, 0, [('k',)] * 4)],
                 [(0, 0, [('b', 0, 1, 2, [('b', 0, 1, 2, [])])] + [('k',)] * 3), (1, 0, [('k',)] * 4), (0, 0, [('y', 0, 0)] * 5 + [('y', 0, 1), ('w', 0)])]]
        for pi, threads in enumerate(progs):
            for j in range(5):
                rr = random.Random(7000 + 100 * heavy + 10 * pi + j)
                sched = [rr.randrange(0, 60) for _ in range(120)]
                out.append({'budget': 120, 'nthr': 1, 'plf': 32, 'wr': 0, 'sets': [(1, heavy, 4, -1, 0)], 'threads': threads, 'sched': sched})
    return out


def exc_barrier_probes():
    """a task of the set throws while ANOTHER task of the set, scheduled before the wait, is in the middle of its body on a worker (its body
    contains a scheduling call, so it can be held there): wait() must not return -- normally or by rethrowing -- before that body has ended"""
    import random
    out = []
    for conc, heavy in ((0, 0), (1, 0), (1, 1)):
        for variant in range(2):
            slow = ('s', 0, 1, 0, [('s', 0, 1, 0, []), ('s', 0, 1, 0, [])])
            thrower = ('s', 0, 1, 0, [('t',)])
            t0 = [slow, thrower, ('w', 0)] if variant == 0 else [thrower, slow, ('k',), ('w', 0)]
            threads = [(0, 0, t0), (1, 0, [('k',)] * 4)]
            for j in range(12):
                rr = random.Random(9100 + 100 * conc + 10 * heavy + 1000 * variant + j)
                if j < 4:      # directed: T0 submits both, the worker gets into the slow body, T0 waits (helps: runs the thrower), the worker finishes last
                    sched = [0] * (6 + j) + [1] * (5 + j) + [0] * 40 + [1] * 60
                else:
                    sched = []
                    while len(sched) < 120:
                        sched += [rr.randrange(0, 2)] * rr.randint(1, 9)
                out.append({'budget': 120, 'nthr': 1, 'plf': 32, 'wr': 0, 'sets': [(conc, heavy, 4, -1, 0)], 'threads': threads, 'sched': sched[:120]})
    return out


def exc_after_cancel_probes():
    """a queued task is in the middle of its body on a worker when the set is cancelled (cancel(), or the cascade from a cancelled parent), and
    then throws: the set holds no exception yet, so this one must be captured and rethrown by the next wait()"""
    import random
    out = []
    for conc, heavy in ((0, 0), (1, 0), (1, 1)):
        for casc in (0, 1):
            thrower = ('s', casc, 1, 0, [('s', casc, 1, 0, []), ('t',)])
            t0 = [thrower, ('c', 0), ('w', casc)] + ([('w', 0)] if casc else [])
            sets = [(conc, heavy, 4, -1, 0)] if not casc else [(1, 0, 4, -1, 0), (conc, heavy, 4, 0, 0)]
            threads = [(0, 0, t0), (1, 0, [('k',)] * 3)]
            for j in range(8):
                rr = random.Random(9500 + 100 * conc + 10 * heavy + 1000 * casc + j)
                if j < 4:      # directed: submit, the worker gets into the body, cancel, the worker throws, wait
                    sched = [0] * (3 + j) + [1] * (4 + j) + [0] * 3 + [1] * 30 + [0] * 80
                else:
                    sched = []
                    while len(sched) < 120:
                        sched += [rr.randrange(0, 2)] * rr.randint(1, 7)
                out.append({'budget': 120, 'nthr': 1, 'plf': 32, 'wr': 0, 'sets': sets, 'threads': threads, 'sched': sched[:120]})
    return out


def depthcap_probes():
    """a caller already kMaxInlineDepth deep submits to an overloaded set (outstanding above every task-set threshold): the functor must be queued, never dropped"""
    out = []
    for conc, heavy in ((1, 0), (1, 1), (0, 0)):
        ops = [('s', 0, 1, 0, [])] * 4 + [('s', 0, 0, 0, []), ('s', 0, 0, 1, []), ('b', 0, 0, 2, []), ('w', 0)]
        out.append({'budget': 120, 'nthr': 1, 'plf': 32, 'wr': 0, 'sets': [(conc, heavy, 1, -1, 0)], 'threads': [(0, 32, ops)], 'sched': [0] * 120})
        out.append({'budget': 120, 'nthr': 1, 'plf': 32, 'wr': 0, 'sets': [(conc, heavy, 1, -1, 0)], 'threads': [(1, 32, ops), (1, 0, [('k',)] * 3)],
                    'sched': [0] * 8 + [1] * 6 + [0, 1] * 53})
    return out


def c04_cascade_probes():
    """probe family of C04: a cascading child (TaskSet / ConcurrentTaskSet light / heavy); a task of the parent throws and completes (the parent's flag is set
    through the exception path, which does not cascade); then cancel() on the parent (or on the grandparent); bodies scheduled to the child afterwards must not start"""
    out = []
    for conc, heavy in ((0, 0), (1, 0), (1, 1)):
        after = lambda c: [('s', c, 1, 0, []), ('k',), ('s', c, 0, 0, []), ('b', c, 0, 2, []), ('k',), ('k',), ('w', c)]
        out.append({'budget': 120, 'nthr': 1, 'plf': 32, 'wr': 0, 'sets': [(1, 0, 4, -1, 0), (conc, heavy, 4, 0, 0)],
                    'threads': [(0, 0, [('s', 0, 1, 0, [('t',)]), ('k',), ('c', 0)] + after(1))], 'sched': [0] * 120})
        out.append({'budget': 120, 'nthr': 1, 'plf': 32, 'wr': 0, 'sets': [(1, 0, 4, -1, 0), (conc, heavy, 4, 0, 0)],
                    'threads': [(0, 0, [('c', 0)] + after(1))], 'sched': [0] * 120})
        out.append({'budget': 120, 'nthr': 1, 'plf': 32, 'wr': 0, 'sets': [(1, 1, 4, -1, 0), (1, 0, 4, 0, 0), (conc, heavy, 4, 1, 0)],
                    'threads': [(0, 0, [('s', 1, 1, 0, [('t',)]), ('k',), ('c', 0)] + after(2))], 'sched': [0] * 120})
        out.append({'budget': 120, 'nthr': 2, 'plf': 64, 'wr': 0, 'sets': [(1, 0, 4, -1, 0), (conc, heavy, 4, 0, 0)],
                    'threads': [(0, 0, [('s', 0, 1, 0, [('t',)]), ('k',), ('c', 0)] + after(1)), (1, 0, [('k',)] * 3)], 'sched': [0] * 14 + [1, 0] * 53})
    return out


def gen_case(r, flavour='mixed'):
    """flavours bias the generator at the case splits of the proofs: 'barrier' (C02), 'cancel' (C04), 'exc' (C05), 'force' (C47)"""
    if flavour == 'cancel' and r.random() < 0.4:
        if r.random() < 0.3:
            c = dict(r.choice(c04_cascade_probes()))
            if r.random() < 0.5:
                c['sched'] = [r.randrange(0, 60) for _ in range(c['budget'])]
            return c
        return gen_directed_cancel(r)
    if flavour == 'barrier' and r.random() < 0.2:
        c = dict(r.choice(c02_probes() + depthcap_probes()))
        c['sched'] = [r.randrange(0, 60) for _ in range(c['budget'])]
        return c
    if flavour == 'exc' and r.random() < 0.35:
        return gen_directed_exc(r)
    nthr = r.choice([0, 1, 1, 2, 2, 3])
    if flavour in ('force',) and r.random() < 0.8:
        nthr = r.choice([1, 1, 2, 3])
    plf = r.choice([0, 1, 2, 4, 32, 32 * max(nthr, 1)])
    wr = r.choice([0, 0, 0, 1, 2, 3, 5, 40]) if r.random() < 0.5 else 0
    nsets = r.choice([1, 1, 2, 2, 3])
    sets = []
    for i in range(nsets):
        conc = int(r.random() < 0.6)
        heavy = int(conc and r.random() < 0.5)
        mult = r.choice([1, 1, 2, 4])
        parent = r.choice(list(range(i))) if i > 0 and r.random() < (0.6 if flavour == 'cancel' else 0.25) else -1
        canc0 = int(r.random() < (0.15 if flavour == 'cancel' else 0.04))
        sets.append((conc, heavy, mult, parent, canc0))
    sidx = list(range(nsets))
    throw_p = {'exc': 0.6, 'mixed': 0.25}.get(flavour, 0.12)
    nested_p = 0.35
    threads = []
    nt = r.choice([2, 2, 3, 3, 4])
    cancellers = {}             # a set with children is cancelled by one thread only (cancelChildren holds a real mutex across hook points)
    has_kids = set(s[3] for s in sets if s[3] >= 0)
    waited_tsk = {}             # a TaskSet (not concurrent) is driven by one thread only
    waiter = {}                 # one thread waits on a given set (concurrent wait()/tryWait() calls on one set race in testAndResetException: outside C05's domain)
    for t in range(nt):
        role = r.random()
        ops = []
        if role < 0.3 and t > 0:
            ops = [('k',)] * r.randint(1, 4)
            threads.append((int(r.random() < 0.7), 0, ops))
            continue
        mine = [s for s in sidx if sets[s][0] or waited_tsk.setdefault(s, t) == t]
        conc_sets = [s for s in sidx if sets[s][0]]
        if not mine:
            threads.append((0, 0, [('k',)] * r.randint(1, 3)))
            continue
        for _ in range(r.randint(1, 4)):
            s = r.choice(mine)
            x = r.random()
            force_p = {'force': 0.7}.get(flavour, 0.4)
            if x < 0.45:
                ops.append(('s', s, int(r.random() < force_p), int(r.random() < 0.2), rand_body(r, conc_sets, 1, throw_p, nested_p if conc_sets else 0)))
            elif x < 0.6:
                ops.append(('b', s, int(r.random() < force_p), r.choice([1, 2, 2, 3, 4]), rand_body(r, conc_sets, 0, throw_p * 0.7, 0)))
            elif x < 0.75:
                ops.append(('w', s) if waiter.setdefault(s, t) == t else ('k',))
            elif x < 0.83:
                ops.append(('y', s, r.choice([0, 0, 1, 2, 3, 50])) if waiter.setdefault(s, t) == t else ('k',))
            elif x < (0.97 if flavour == 'cancel' else 0.88):
                if s in has_kids and cancellers.setdefault(s, t) != t:
                    ops.append(('k',))
                else:
                    ops.append(('c', s))
            else:
                ops.append(('k',))
        for rep in range(2):
            if (flavour in ('barrier', 'exc', 'mixed') and r.random() < 0.8) if rep == 0 else (flavour == 'exc' and r.random() < 0.5):
                cand = [s for s in mine if waiter.setdefault(s, t) == t]
                if cand:
                    sw = r.choice(cand)
                    if flavour == 'exc' and r.random() < 0.5:
                        ops.append(('y', sw, r.choice([0, 0, 1, 50])))
                    ops.append(('w', sw))
        dep0 = 32 if r.random() < 0.05 else 0
        threads.append((int(r.random() < 0.25), dep0, ops))
    budget = 110
    sched = [r.randrange(0, 60) for _ in range(budget)]
    if r.random() < 0.3:          # long bursts of one thread (PCT-like)
        sched = []
        while len(sched) < budget:
            sched += [r.randrange(0, 60)] * r.randint(1, 12)
        sched = sched[:budget]
    return {'budget': budget, 'nthr': nthr, 'plf': plf, 'wr': wr, 'sets': sets, 'threads': threads, 'sched': sched}


def witness_c04():
    """regression (former C04_refuted witness): workRemaining_ 40 > poolLoadFactor_ 32, cts.cancel(); cts.schedule(f) must not run f"""
    return {'budget': 30, 'nthr': 1, 'plf': 32, 'wr': 40, 'sets': [(1, 0, 4, -1, 0)], 'threads': [(0, 0, [('c', 0), ('s', 0, 0, 0, [])])], 'sched': [0] * 30}


def run_lockstep(ctx, exe, cases, judge, timeout=900):
    """runs the cases on the real code, evaluates `judge` in Coq; returns list of (case, parsed, output, verdict)"""
    outs = ls_common.run_cases(exe, [case_line(c) for c in cases])
    terms, kept = [], []
    for c, o in zip(cases, outs):
        p = parse_out(o)
        if p is None or 'error' in p:
            if (o or '').startswith('CRASH'):
                ctx.violation('the real code crashed (%s) under this program and schedule: %s' % (o.strip(), case_line(c)[:400]),
                              {'case': case_line(c), 'output': o, 'cmd': 'echo "<case>" | build/harness/h_taskset-*'})
            else:
                ctx.broken.append('lockstep harness output unreadable for %s: %s' % (case_line(c)[:200], (o or '')[:200]))
            continue
        terms.append(case_term(c, p))
        kept.append((c, p, o))
    verdicts = judge_parallel(ctx, IMPORTS, judge, terms, shard_size=60)
    if verdicts is None:
        # the model side does not evaluate: still judge the implementation's own log (verdicts 0 / 2 only)
        ctx.broken.append('correspondence L: the model no longer evaluates; judging the implementation log alone (%s_impl)' % judge)
        verdicts = judge_parallel(ctx, IMPORTS, judge + '_impl', terms, shard_size=60)
        if verdicts is None:
            return None
    # a disagreement on a trace with skipped (cancelled) dequeues may only mean that the oracle guessed the unobservable task wrongly:
    # the model is non-deterministic there, so look for another oracle under which it produces the implementation's trace
    verdicts = list(verdicts)
    amb = [i for i, ((c, p, o), v) in enumerate(zip(kept, verdicts)) if v == 1 and skipped_dequeues(p) > 0]
    if amb:
        alts = [(i, a) for i in amb[:40] for a in range(1, 10)]
        v2 = judge_parallel(ctx, IMPORTS, judge, [case_term(kept[i][0], kept[i][1], a) for i, a in alts], shard_size=60)
        if v2 is not None:
            for (i, a), v in zip(alts, v2):
                if v == 0 and verdicts[i] == 1:
                    verdicts[i] = 0
                    ctx.cov['agree_under_alternative_dequeue_oracle'] = ctx.cov.get('agree_under_alternative_dequeue_oracle', 0) + 1
    return [(c, p, o, v) for (c, p, o), v in zip(kept, verdicts)]


# ------------------------------------------------------------------------------------------------ decisions under forced load (D)
def d_line(d):
    return 'D %d %d %d %d %d %d %d %d %d %d %d %d %d' % (d['cls'], d['force'], d['skip'], d['nthr'], d['blockers'], d['preOut'], d['canceled'], d['recursive'],
                                                         d['depth'], d['prlf2'], d['mult'], d['bulk'], d.get('casc', 0))


def d_parse(o):
    m = re.match(r'D out=(-?\d+) wr=(-?\d+) n=(\d+) plf=(\d+) lf=(-?\d+) canc=(\d) \| incall=(\d+) fout=(-?\d+) aout=(-?\d+) ran=(\d+) api=(\d)', o or '')
    return [int(x) for x in m.groups()] if m else None


def d_term(d, v):
    out, wr, n, plf, lf, canc, incall, fout, aout, ran, api = v
    return '(DC %d %s %s %s %d %d %d %s %s %d %d %s %s %d %s %s %d %s)' % (
        d['cls'], cb(d['force']), cb(d['skip']), cb(d['recursive'] and d['nthr'] > 0), d['depth'], d['prlf2'], d['bulk'],
        dv.zlit(out), dv.zlit(wr), n, plf, dv.zlit(lf), cb(canc), incall, dv.zlit(fout), dv.zlit(aout), ran, cb(api))


def gen_dcase(r, want=None):
    nthr = r.choice([0, 1, 1, 2, 3])
    cls = r.choice([0, 1, 2, 3])
    d = {'cls': cls, 'force': int(r.random() < 0.4), 'skip': int(r.random() < 0.25), 'nthr': nthr, 'blockers': 0, 'preOut': 0,
         'canceled': int(cls != 3 and r.random() < 0.35), 'recursive': int(nthr > 0 and r.random() < 0.3), 'depth': 32 if r.random() < 0.12 else 0,
         'prlf2': r.choice([2, 3, 3, 6]), 'mult': r.choice([1, 2, 4]), 'bulk': 0}
    if nthr > 0:
        # load levels around the two thresholds: numThreads*prlf (recursive) and poolLoadFactor = 32*numThreads
        d['blockers'] = r.choice([0, nthr, nthr + 1, 2 * nthr, 3 * nthr + 1, 32 * nthr, 32 * nthr + 1, 33 * nthr + 2])
        if d['blockers'] >= nthr:
            d['preOut'] = r.choice([0, 0, d['mult'] * nthr, d['mult'] * nthr + 1, nthr + 2])
    if cls != 3 and d['force'] and r.random() < 0.4:
        d['bulk'] = r.choice([1, 2, 5])
    if want == 'known':
        d.update({'cls': r.choice([1, 2]), 'force': 0, 'skip': 0, 'nthr': 1, 'blockers': 40, 'preOut': 0, 'canceled': 1, 'recursive': 0, 'depth': 0, 'bulk': 0})
    if want == 'depthcap':         # caller at the inline-depth cap, set overloaded (outstanding above every task-set threshold), pool not overloaded
        n = r.choice([1, 2])
        d.update({'cls': r.choice([1, 1, 2]), 'force': 0, 'skip': int(r.random() < 0.3), 'nthr': n, 'blockers': n, 'preOut': d['mult'] * n + 2, 'canceled': 0,
                  'recursive': int(r.random() < 0.3), 'depth': 32, 'bulk': 0})
    if want == 'cascade':          # the set is a cascading child; cancellation through the parent, optionally after a task of the parent has thrown
        d.update({'cls': r.choice([0, 1, 2]), 'casc': r.choice([1, 2, 2]), 'canceled': 1, 'bulk': 0})
        if d['nthr'] > 0 and r.random() < 0.5:
            d['blockers'] = d['nthr']
    if want == 'cancel_over':      # cancelled set whose outstanding count exceeds every task-set threshold, pool not overloaded
        n = r.choice([1, 2])
        d.update({'cls': r.choice([0, 0, 1, 2]), 'force': 0, 'skip': int(r.random() < 0.3), 'nthr': n, 'blockers': n, 'preOut': d['mult'] * n + 2, 'canceled': 1,
                  'recursive': 0, 'depth': 0, 'bulk': 0})
    return d


def witness_d_c04():
    return {'cls': 1, 'force': 0, 'skip': 0, 'nthr': 1, 'blockers': 40, 'preOut': 0, 'canceled': 1, 'recursive': 0, 'depth': 0, 'prlf2': 3, 'mult': 4, 'bulk': 0}


def d_fallback(ctx, exe, dcases, on_verdict):
    """the Coq judge does not evaluate (e.g. the translator rejected a changed function): still look for a concrete failing input by evaluating the
    implementation-side properties directly on the harness output (mirror of d_check_C04 / d_check_C47 / d_bulk_ok of Model/TaskSetCheck.v)"""
    outs = ls_common.run_cases(exe, [d_line(d) for d in dcases], jobs=4)
    for d, o in zip(dcases, outs):
        v = d_parse(o)
        if v is None:
            continue
        out, wr, n, plf, lf, canc, incall, fout, aout, ran, api = v
        if (canc or api) and d['cls'] != 3 and (incall or ran):
            on_verdict(2, d, v, o)
        elif d['force'] and n >= 1 and incall:
            on_verdict(2, d, v, o)


def run_decisions(ctx, exe, dcases, judge):
    outs = ls_common.run_cases(exe, [d_line(d) for d in dcases], jobs=4)
    terms, kept = [], []
    for d, o in zip(dcases, outs):
        v = d_parse(o)
        if v is None:
            ctx.broken.append('decision harness output unreadable for %s: %s' % (d_line(d), (o or '')[:200]))
            continue
        terms.append(d_term(d, v))
        kept.append((d, v, o))
    verdicts = judge_parallel(ctx, IMPORTS_D, judge, terms, shard_size=200)
    if verdicts is None:
        # Gen/GenTaskSet.v (or the tie) is broken: the differential is not disabled, the implementation-only judge still evaluates
        ctx.broken.append('correspondence D: %s does not evaluate against the regenerated decision functions; judging the implementation alone (%s_impl)' % (judge, judge))
        verdicts = judge_parallel(ctx, IMPORTS, judge + '_impl', terms, shard_size=200)
        if verdicts is None:
            return None
    return [(d, v, o, x) for (d, v, o), x in zip(kept, verdicts)]


# ------------------------------------------------------------------------------------------------ the common check driver
NOTE = ('Trusted: Coq kernel; SC interleaving of the atomic accesses (memory orders not modelled); the pool abstracted to a bag of packaged tasks with an arbitrary '
        'dequeue order (C01 is the pool\'s theorem), its workRemaining_/numThreads_/poolLoadFactor_ reads fused with the preceding hooked access; harness/vsched.h; '
        'tools/gen_taskset.py + clang AST for the decision trees (float factor hand-modelled as prim_fscale). No axioms.')
ASSUME = ['sequentially consistent interleaving of the atomic accesses of TaskSetBase / TaskSet / ConcurrentTaskSet (one step per DISPENSO_VERIF_POINT); compare_exchange_strong modelled exactly',
          'the thread pool is abstract: a bag of packaged tasks, each dequeued at most once, any order (C01); numThreads_ and poolLoadFactor_ constant during a run (resize is C03)',
          'lockstep runs use a ThreadPool(0) whose numThreads_/poolLoadFactor_/workRemaining_ are set through private access, enrolled harness threads play the workers; numRings_ = 0 there (ring fast path of scheduleBulk covered by the model and the proofs only)',
          'futures / continuations bound to a task set are not operations of the model']


def prove_and_build(ctx, pid):
    rep = dv.gen(['taskset'])
    errs = rep.get('taskset', rep.get('_crash', ['translator crashed']))
    if errs:
        ctx.broken.append('translator T(taskset): ' + '; '.join(errs)[:400])
    ctx.cov['translated_functions'] = 21 - len(errs)
    ctx.prove(tie_files=['GenTie/TaskSetGenTie.v'], models=CHECK_MODELS)
    exe = dv.build_harness('h_taskset', ['h_taskset.cpp'])
    ctx.phase('build')
    return exe


def lockstep_phase(ctx, exe, judge, flavours, n, witnesses=(), on_verdict=None, what='property'):
    """generic lockstep phase; on_verdict(v, c, p, o) handles verdicts 2 and 4"""
    r = ctx.rng
    if ctx.broken and ctx.quick:      # something no longer checks: search harder for a concrete failing input
        n *= 3
    cases = list(witnesses) + [gen_case(r, flavours[i % len(flavours)]) for i in range(n)]
    res = run_lockstep(ctx, exe, cases, judge)
    if res is None:
        ctx.broken.append('correspondence L: the model no longer evaluates (see coq_eval_errors)')
        return []
    hist = {}
    distinct = set()
    for c, p, o, v in res:
        hist[v] = hist.get(v, 0) + 1
        if len(p['steps']) > len(c['threads']) + 3:
            distinct.add(o.split('| status')[0])
        if v in (2, 4):
            on_verdict(v, c, p, o)
        elif v == 1:
            if trailing_dequeue(p):
                # a thread was never scheduled again after a dequeue point: which task it took is not observable, the model cannot be driven to the same choice.
                # Inconclusive (like an exhausted budget), never a failure.
                ctx.cov['inconclusive_trailing_dequeue'] = ctx.cov.get('inconclusive_trailing_dequeue', 0) + 1
                hist[1] -= 1
                continue
            ctx.broken.append('correspondence L: real trace differs from the model on ' + case_line(c)[:300] + ' -> ' + o[:300])
    # search ladder (DESIGN 5): model and implementation disagree but no property failure seen yet -> re-run the disagreeing programs under many more
    # schedules (fixed-priority, bursty, random) looking for a concrete failing input
    differ = [c for c, p, o, v in res if v == 1 and not trailing_dequeue(p)]
    if differ and not any(v == 2 for _, _, _, v in res):
        extra = []
        for c in differ[:6]:
            for j in range(36):
                c2 = dict(c)
                if j < 6:
                    c2['sched'] = [j] * c['budget']
                elif j < 20:
                    sched = []
                    while len(sched) < c['budget']:
                        sched += [r.randrange(0, 60)] * r.randint(2, 15)
                    c2['sched'] = sched[:c['budget']]
                else:
                    c2['sched'] = [r.randrange(0, 60) for _ in range(c['budget'])]
                extra.append(c2)
        res2 = run_lockstep(ctx, exe, extra, judge) or []
        ctx.cov['ladder_runs'] = len(res2)
        ctx.cov['evaluations'] += len(extra)
        found = False
        for c, p, o, v in res2:
            if v == 2 and not found:
                found = True
                on_verdict(v, c, p, o)
        hist[2] = hist.get(2, 0) + sum(1 for _, _, _, v in res2 if v == 2)
    ctx.cov['evaluations'] += len(cases)
    ctx.cov['distinct_nontrivial'] += len(distinct)
    ctx.cov['traces_validated_against_impl'] += hist.get(0, 0) + hist.get(4, 0)
    ctx.cov['lockstep_verdicts'] = {'agree': hist.get(0, 0), 'differ_property_holds': hist.get(1, 0), 'property_fails': hist.get(2, 0), 'fails_in_known_domain': hist.get(4, 0)}
    ctx.cov['lockstep_status'] = {k: sum(1 for _, p, _, _ in res if p['status'] == v) for k, v in (('done', 0), ('deadlock', 1), ('budget', 2))}
    ctx.cov['lockstep_steps_total'] = sum(len(p['steps']) for _, p, _, _ in res)
    ctx.cov['rule'] = ('lockstep: random programs (2-4 enrolled threads: submitters / waiters / cancellers / workers calling pool.tryExecuteNext(); 1-3 task sets TaskSet / '
                       'ConcurrentTaskSet kLightweight / kHeavy with parent-child cascades; schedule, ForceQueuingTag, scheduleBulk, wait, tryWait, cancel, throwing and nested bodies; '
                       'numThreads_ 0-3, poolLoadFactor_ and workRemaining_ around the decision thresholds, inline depth 0 or 32) x random / bursty schedules under vsched, one fork per case; '
                       'compared: step trace (site, set), per-thread logs with clock stamps, final counters/flags/guards, workRemaining_, queue size; '
                       'non-trivial = more steps than threads + 3; distinct = distinct (trace, log) strings')
    if res:
        ctx.sample({'case': case_line(res[min(1, len(res) - 1)][0])[:300], 'impl': res[min(1, len(res) - 1)][2][:400]})
    ctx.phase('lockstep')
    return res


def decision_phase(ctx, exe, judge, n, witnesses=(), on_verdict=None):
    r = ctx.rng
    if ctx.broken and ctx.quick:      # something no longer checks: search harder for a concrete failing input
        n *= 3
    wants = {5: 'known', 2: 'cancel_over', 3: 'cascade', 8: 'cascade', 6: 'depthcap'}
    ds = list(witnesses) + [gen_dcase(r, wants.get(i % 10)) for i in range(n)]
    res = run_decisions(ctx, exe, ds, judge)
    if res is None:
        ctx.broken.append('correspondence D: the decision judge no longer evaluates')
        d_fallback(ctx, exe, ds, on_verdict)
        return []
    hist = {}
    for d, v, o, x in res:
        hist[x] = hist.get(x, 0) + 1
        if x in (2, 4):
            on_verdict(x, d, v, o)
        elif x == 1:
            ctx.broken.append('correspondence D: decision of the real code differs from the regenerated decision function on ' + d_line(d) + ' -> ' + o[:200])
    ctx.cov['evaluations'] += len(ds)
    ctx.cov['distinct_nontrivial'] += len(set(o for _, _, o, _ in res))
    ctx.cov['decision_verdicts'] = {'agree': hist.get(0, 0), 'differ': hist.get(1, 0), 'property_fails': hist.get(2, 0), 'fails_in_known_domain': hist.get(4, 0)}
    ctx.cov['decision_rule'] = ('D: real pool with 0-3 threads, load forced by parking blocker tasks (force-queued tasks spinning on a flag) and pre-queued set tasks; every overload '
                                '(TaskSet / ConcurrentTaskSet light+heavy / ThreadPool; plain, skipRecheck, ForceQueuingTag, bulk ForceQueuingTag; caller external or on a pool thread; '
                                'inline depth 0/32; poolRecursiveLoadFactor 1.0/1.5/3.0; cancelled or not); inputs read on the real objects right before the call; observation = functor ran on '
                                'the caller during the call (raw vs wrapped via the outstanding count it saw) / queued / never; compared with gen_* of Gen/GenTaskSet.v')
    if res:
        ctx.sample({'case': d_line(res[0][0]), 'impl': res[0][2]})
    ctx.phase('decisions')
    return res
