"""Shared by C18 / C19: case generation, harness I/O and Coq terms for harness/h_future.cpp vs Model/FutureModel.v."""
import dv, ls_common, re

SITES = ['start', 'fut.run.cas', 'h.func', 'ce.notify.store', 'futex.wake', 'fut.run.tsc', 'fut.chain.load', 'fut.chain.cas',
         'h.dispatch', 'fut.decRef', 'fut.waitCommon.load', 'ce.wait.load', 'futex.wait', 'futex.woken', 'futex.timeout',
         'ce.waitFor.load0', 'ce.waitFor.load', 'ce.waitUntil.load', 'fut.get.result', 'fut.ready.load', 'fut.incRef',
         'fut.then.load0', 'fut.then.loadhead', 'fut.then.cas', 'fut.then.recheck', 'h.ts.load', 'futex.spurious']
TAGS = {'wait': 1, 'get': 2, 'getx': 3, 'waitfor': 4, 'ready': 5, 'func': 6, 'disp': 7, 'dealloc': 8, 'tswait': 9}
MODES = {'ls': 0, 'im': 1, 'nt': 2}


def op_txt(o):
    return o[0] + (str(int(o[1])) if len(o) > 1 else '')


def op_coq(o):
    k = o[0]
    if k == 'F': return '(OWaitFor %s)' % ('true' if o[1] else 'false')
    if k == 'U': return '(OWaitUntil %s)' % ('true' if o[1] else 'false')
    if k == 'T': return '(OThen %d)' % o[1]
    return {'R': 'ORun', 'W': 'OWait', 'G': 'OGet', 'Q': 'OIsReady', 'C': 'OCopy', 'D': 'ODrop', 'S': 'OTsWait'}[k]


def gen_prog(r, h0, n, then_ids, p_then, tsc, timed_pos):
    """random program that never uses a handle it does not hold"""
    p, h = [], h0
    for _ in range(n):
        if h == 0:
            break
        x = r.random()
        if x < p_then and then_ids:
            p.append(('T', then_ids.pop()))
        elif x < p_then + 0.18: p.append(('G',))
        elif x < p_then + 0.30: p.append(('W',))
        elif x < p_then + 0.42: p.append(('F', 1 if (timed_pos and r.random() < 0.5) else 0))
        elif x < p_then + 0.48: p.append(('U', 1 if (timed_pos and r.random() < 0.5) else 0))
        elif x < p_then + 0.60: p.append(('Q',))
        elif x < p_then + 0.72: p.append(('C',)); h += 1
        elif x < p_then + 0.94: p.append(('D',)); h -= 1
        elif tsc: p.append(('S',))
        else: p.append(('Q',))
    return p


def gen_case(r, p_then=0.1, force_mode=None):
    mode = force_mode or r.choice(['ls'] * 15 + ['im'] * 3 + ['nt'] * 2)
    nt = r.choice([2, 2, 3, 3, 4])
    allow = r.choice([1, 1, 0])
    tsc = 1 if (mode == 'ls' and r.random() < 0.3) else 0
    exc = 1 if r.random() < 0.15 else 0
    tmo = 1 if (mode != 'nt' and r.random() < 0.3) else 0
    val = r.randint(1, 90)
    ids = list(range(1, 9)); r.shuffle(ids)
    runner = r.randrange(nt) if (mode == 'ls' and r.random() < 0.9) else -1
    ths = []
    for t in range(nt):
        h0 = r.choice([1, 1, 1, 2, 0 if t == runner else 1])
        prog = gen_prog(r, h0, r.randint(1, 4), ids, p_then, tsc, tmo or mode == 'nt' and False, )
        if t == runner:
            prog.insert(r.randint(0, len(prog)), ('R',))
        ths.append({'h0': h0, 'tok': 1 if t == runner else 0, 'prog': prog})
    budget = 90
    sched = [r.randrange(0, 100) for _ in range(budget + 12)]
    return {'mode': mode, 'allow': allow, 'tsc': tsc, 'val': val, 'exc': exc, 'tmo': tmo, 'budget': budget, 'ths': ths, 'sched': sched,
            'orphan': 1 if (mode == 'ls' and runner < 0) else 0}


def line_of(c):
    return '%s %d %d %d %d %d %d ; %s ; S %s' % (
        c['mode'], c['allow'], c['tsc'], c['val'], c['exc'], c['tmo'], c['budget'],
        ' ; '.join('%d %d : %s' % (t['h0'], t['tok'], ' '.join(op_txt(o) for o in t['prog'])) for t in c['ths']),
        ' '.join(map(str, c['sched'])))


def b(x):
    return 'true' if x else 'false'


def term_of(c, p):
    n = len(c['ths'])
    m = re.search(r'fc (\d+) early (\d+) cont(.*)', p['extra'])
    conts = []
    for tok in m.group(3).split():
        k, d, rn, rd = map(int, tok.split(':'))
        conts.append('(%d,(%d,(%d,%d)))' % (k, d, rn, rd))
    cfg = '(CFG %s %s %d %s false %s %d)' % (b(c['allow']), b(c['tsc']), c['val'], b(c['exc']), b(c['tmo']), c['orphan'])
    ds = dv.coq_list(['(%d,%d,%s)' % (t['h0'], t['tok'], dv.coq_list([op_coq(o) for o in t['prog']])) for t in c['ths']])
    res = dv.coq_list([ls_common.zpairs(p['results'].get(t, [])) for t in range(n)])
    return '(FC %d %s %s %d%%nat %s %s %s %d %s %s %s)' % (
        c.get('judge_mode', MODES[c['mode']]), cfg, ds, ls_common.fuel_of(c['budget'], p['status']), dv.coq_list([str(x) for x in c['sched']]),
        ls_common.zpairs(p['steps']), res, p['status'], m.group(1), m.group(2), dv.coq_list(conts))


IMPORTS = 'From DV Require Import Base.Sched Model.FutureModel Model.C18Check.'
