"""C18 -- a Future's functor runs once and every getter sees its result.   Tie: lockstep (L) under harness/vsched.h."""
import dv, ls_common, fut_common as fc

META = {
    'category': 'proof',
    'technique': 'Coq inductive invariant over all interleavings of a step-level model of FutureImplBase (one step per atomic access / futex call; '
                 'any number of threads, programs, schedules; spurious CAS failures and futex time-outs as oracle choices) + lockstep replay of '
                 'generated programs x schedules on the real hooked code under a cooperative scheduler',
    'text': 'Kernel-checked (Props/Properties_C18.v): C18_functor_runs_once (#executions + #CAS winners about to execute = [status<>NotStarted] <= 1; Ready => executed once, cell = result), '
            'C18_get_after_ready (a result read happens only with status=Ready and returns the unique stored value / exception id), C18_refcount_safe (no access after dealloc; dealloc iff '
            'refCount reached 0, at most once; refCount = #handles + [OnceFunction unreleased] + #continuation copies; every thread inside an operation holds a reference). '
            'Tie: real Future objects driven by random per-thread programs (run/wait/get/wait_for/wait_until/is_ready/copy/drop/then/task-set wait) under random schedules '
            '(hooks before every atomic access, futex served by the harness); trace, per-thread results, functor count and dispatch counts compared with the model evaluated in Coq; '
            'the executable property (functor count <= 1 and = 1 when readiness was observed, every get = stored value, result destroyed at most once) is evaluated on the implementation output. '
            'ImmediateInvoker futures are constructed on the unenrolled main thread (model: the runner executed alone) and then lockstepped; NewThreadInvoker futures run natively (history-level acceptance only).',
    'note': 'Trusted: Coq kernel; futex semantics (compare-and-block, wake-all); harness/vsched.h; SC interleaving of atomics; Linux CompletionEventImpl. No axioms.',
}

ASSUMPTIONS = [
    'sequentially consistent interleaving of the atomic accesses (weak-memory reorderings not modelled); futex = compare-and-block / wake-all, no spurious futex wake-ups (they only cause a re-load)',
    'fewer than 2^32 references to one future (refCount_ is uint32): hypothesis wf_init bounds initial references + copy/then operations by B < 2^32',
    'callers respect the Future contract encoded in wf_init: a thread only uses/copies/drops handles it owns; the OnceFunction is invoked at most once, by its owner',
    'one antecedent future is modelled at step level; the futures returned by then() are separate objects whose scheduling is abstracted to a dispatch event (recording schedulable in the harness)',
    'spurious compare_exchange_weak failures are covered by the theorems (oracle) but cannot be forced on x86 in the lockstep runs (spur=false there)',
    'link identity = address: no then-chain link address is reused while a stale head pointer is held (justified in C19 notes: links are allocated only before Ready and freed only after)',
    'NewThreadInvoker cases run natively without the scheduler (its thread is not enrolled): property evaluated on results only, no trace comparison',
    'thread pools / TaskSet schedulables are out of scope here (covered by C01-C06); the task-set counter protocol is exercised through detail::TaskSetInterceptionInvoker with a fake task set',
]


def run(ctx, props_file=None, judge='judge_c18', imports=fc.IMPORTS, p_then=0.1, check='Model/C18Check.v'):
    ctx.prove(models=[check])
    exe = dv.build_harness('h_future', ['h_future.cpp'])
    ctx.phase('build')
    r = ctx.rng
    n = (160 if ctx.pid == 'C18' else 120) if ctx.quick else 4000
    cases = [fc.gen_case(r, p_then) for _ in range(n)]
    outs = ls_common.run_cases(exe, [fc.line_of(c) for c in cases])
    terms, kept, distinct = [], [], set()
    for c, o in zip(cases, outs):
        p = ls_common.parse_vsched(o, fc.SITES, fc.TAGS)
        if p is None or 'error' in p:
            ctx.broken.append('harness output unreadable for %s: %s' % (fc.line_of(c)[:200], (o or '')[:200]))
            continue
        terms.append(fc.term_of(c, p)); kept.append((c, p, o))
        if len(p['steps']) > len(c['ths']) + 4 or c['mode'] == 'nt':
            distinct.add(o.split('| status')[0])
    ctx.cov['evaluations'] += len(cases)
    ctx.cov['distinct_nontrivial'] += len(distinct)
    ctx.cov['rule'] = ('random programs (2-4 threads, 1-5 ops each; modes ls/im/nt) x random schedules (decision list), one fork per case; '
                       'non-trivial = more steps than thread starts + 4 (or a native run); distinct = distinct (trace, results) strings')
    verdicts = ls_common.judge_parallel(ctx, imports, judge, terms, shard_size=60)
    if verdicts is None:
        ctx.broken.append('correspondence L(%s): the model no longer evaluates' % ctx.pid)
        return
    hist = {}
    for v, (c, p, o) in zip(verdicts, kept):
        hist[v] = hist.get(v, 0) + 1
        if v == 2:
            ctx.violation('%s fails on the implementation: %s -> %s' % (ctx.pid, fc.line_of(c)[:200], o[:400]),
                          {'case': fc.line_of(c), 'output': o, 'cmd': 'echo "<case>" | build/harness/h_future-*'})
        elif v == 1:
            ctx.broken.append('correspondence L(%s): real trace differs from the model on %s -> %s' % (ctx.pid, fc.line_of(c)[:300], o[:400]))
    ctx.cov['verdict_histogram'] = {'agree': hist.get(0, 0), 'differ_property_holds': hist.get(1, 0), 'property_fails': hist.get(2, 0)}
    ctx.cov['traces_validated_against_impl'] += sum(1 for v, (c, p, o) in zip(verdicts, kept) if v == 0 and c['mode'] != 'nt')
    ctx.cov['status_histogram'] = {k: sum(1 for _, p, _ in kept if p['status'] == v) for k, v in (('done', 0), ('deadlock', 1), ('budget', 2))}
    # how the then() registrations in the lockstepped runs were timed relative to completion
    tim = {'after_ready_direct': 0, 'pushed_then_recheck_saw_ready_and_drained': 0, 'pushed_before_ready': 0}
    i_l0, i_disp, i_re, i_cl = (fc.SITES.index(x) for x in ('fut.then.load0', 'h.dispatch', 'fut.then.recheck', 'fut.chain.load'))
    for c, p, o in kept:
        per = {}
        for t, st in p['steps']:
            per.setdefault(t, []).append(st)
        for seq in per.values():
            for a, b in zip(seq, seq[1:] + [-1]):
                if a == i_l0 and b == i_disp: tim['after_ready_direct'] += 1
                if a == i_re and b == i_cl: tim['pushed_then_recheck_saw_ready_and_drained'] += 1
                if a == i_re and b != i_cl: tim['pushed_before_ready'] += 1
    ctx.cov['then_registration_timing'] = tim
    ctx.cov['mode_histogram'] = {m: sum(1 for c, _, _ in kept if c['mode'] == m) for m in ('ls', 'im', 'nt')}
    ctx.sample({'case': fc.line_of(cases[0])[:200], 'impl': outs[0][:400]})
    ctx.phase('correspond')
    # ---- implementation-only probes: futex waits that return although nobody woke them (EINTR / spurious wake-up; the kernel allows both).
    # The model has no such step, so these runs are judged on their results alone (judge mode 2: the executable property, no trace comparison).
    ns = 80 if ctx.quick else 2000
    sp = []
    while len(sp) < ns:
        c = fc.gen_case(r, p_then, force_mode='ls')
        if c['orphan']:
            continue
        c['tmo'] = 2
        c['judge_mode'] = 2
        sp.append(c)
    souts = ls_common.run_cases(exe, [fc.line_of(c) for c in sp])
    sterms, skept = [], []
    for c, o in zip(sp, souts):
        p = ls_common.parse_vsched(o, fc.SITES, fc.TAGS)
        if p is None or 'error' in p:
            ctx.broken.append('harness output unreadable for %s: %s' % (fc.line_of(c), (o or '')[:200]))
            continue
        sterms.append(fc.term_of(c, p)); skept.append((c, p, o))
    sverd = ls_common.judge_parallel(ctx, imports, judge, sterms, shard_size=60)
    if sverd is None:
        ctx.broken.append('spurious-wake probes (%s): the judge no longer evaluates' % ctx.pid)
    else:
        i_sp = fc.SITES.index('futex.spurious')
        for v, (c, p, o) in zip(sverd, skept):
            if v == 2:
                ctx.violation('%s fails on the implementation when a futex wait returns spuriously: %s -> %s' % (ctx.pid, fc.line_of(c), o[:400]),
                              {'case': fc.line_of(c), 'output': o, 'cmd': 'echo "<case>" | build/harness/h_future-*'})
        ctx.cov['spurious_wake_probes'] = {'cases': len(skept), 'with_spurious_return': sum(1 for c, p, o in skept if any(st == i_sp for _, st in p['steps'])),
                                           'property_fails': sum(1 for v in sverd if v == 2)}
    ctx.cov['evaluations'] += len(sp)
    ctx.phase('spurious')
