"""C18 -- a Future's functor runs once and every getter sees its result.   Tie: lockstep (L) under harness/vsched.h."""
import dv, ls_common, fut_common as fc

META = {
    'category': 'proof',
    'technique': 'Coq invariants over all interleavings of a step-level model of FutureImplBase + lockstep replay on the real hooked code',
    'text': 'see coq/Props/Properties_C18.v',
    'note': 'Trusted: Coq kernel; futex semantics; harness/vsched.h; SC interleaving of atomics. No axioms.',
}
ASSUMPTIONS = ['sequentially consistent interleaving of the atomic accesses (weak-memory reorderings not modelled)']


def run(ctx, props_file=None, judge='judge_c18', imports=fc.IMPORTS, p_then=0.1, check='Model/C18Check.v'):
    ctx.prove(models=[check])
    exe = dv.build_harness('h_future', ['h_future.cpp'])
    ctx.phase('build')
    r = ctx.rng
    n = 500 if ctx.quick else 8000
    cases = [fc.gen_case(r, p_then) for _ in range(n)]
    outs = ls_common.run_cases(exe, [fc.line_of(c) for c in cases])
    terms, kept, distinct = [], [], set()
    for c, o in zip(cases, outs):
        p = ls_common.parse_vsched(o, fc.SITES, fc.TAGS)
        if p is None or 'error' in p:
            ctx.broken.append('harness output unreadable for %s: %s' % (fc.line_of(c)[:200], (o or '')[:200]))
            continue
        terms.append(fc.term_of(c, p)); kept.append((c, p, o))
        if len(p['steps']) > len(c['ths']) + 4 or c['mode'] == 'nt':
            distinct.add(o.split('| status')[0])
    ctx.cov['evaluations'] += len(cases)
    ctx.cov['distinct_nontrivial'] += len(distinct)
    verdicts = ls_common.judge_parallel(ctx, imports, judge, terms)
    if verdicts is None:
        ctx.broken.append('correspondence L(%s): the model no longer evaluates' % ctx.pid)
        return
    hist = {}
    for v, (c, p, o) in zip(verdicts, kept):
        hist[v] = hist.get(v, 0) + 1
        if v == 2:
            ctx.violation('%s fails on the implementation: %s -> %s' % (ctx.pid, fc.line_of(c)[:200], o[:400]),
                          {'case': fc.line_of(c), 'output': o, 'cmd': 'echo "<case>" | build/harness/h_future-*'})
        elif v == 1:
            ctx.broken.append('correspondence L(%s): real trace differs from the model on %s -> %s' % (ctx.pid, fc.line_of(c)[:300], o[:400]))
    ctx.cov['verdict_histogram'] = {'agree': hist.get(0, 0), 'differ_property_holds': hist.get(1, 0), 'property_fails': hist.get(2, 0)}
    ctx.cov['traces_validated_against_impl'] += sum(1 for v, (c, p, o) in zip(verdicts, kept) if v == 0 and c['mode'] != 'nt')
    ctx.cov['status_histogram'] = {k: sum(1 for _, p, _ in kept if p['status'] == v) for k, v in (('done', 0), ('deadlock', 1), ('budget', 2))}
    ctx.cov['mode_histogram'] = {m: sum(1 for c, _, _ in kept if c['mode'] == m) for m in ('ls', 'im', 'nt')}
    ctx.sample({'case': fc.line_of(cases[0])[:200], 'impl': outs[0][:400]})
    ctx.phase('correspond')
