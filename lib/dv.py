"""Shared machinery for the per-property checks (see DESIGN.md §2).

Every check is `./check <ID> [--tier quick|thorough] [--replay file]`; it
  1. regenerates coq/Gen from /repo (translator T) when the property uses it,
  2. (re)builds the property's theorems with `make` (full .vo build, never -vos),
  3. builds the implementation harness from /repo's working tree with -DDISPENSO_VERIF,
  4. runs the correspondence: real code vs. the Gallina model evaluated *inside Coq* (vm_compute) on the same cases,
  5. decides, writes evidence/<ID>.json, prints KNOWN-FINDING / VIOLATION lines.
"""
import os, sys, json, re, time, subprocess, hashlib, random, fcntl, glob, shutil

VERIF = os.path.dirname(os.path.dirname(os.path.abspath(__file__)))
REPO = os.environ.get('VERIF_REPO', '/repo')
COQ = os.path.join(VERIF, 'coq')
BUILD = os.path.join(VERIF, 'build')
REPLAYS = os.path.join(VERIF, 'replays')
EVID = os.path.join(VERIF, 'evidence')
GUARD = 'DISPENSO_VERIF'
NCPU = 16
CXX = ['g++', '-std=c++14', '-O1', '-g', '-pthread', '-D' + GUARD, '-I' + REPO, '-isystem', REPO + '/dispenso/third-party',
       '-I' + os.path.join(VERIF, 'harness')]

FORBIDDEN = r'\b(Admitted|admit|Axiom|Axioms|Parameter|Parameters|Conjecture|Conjectures|Admit Obligations|bypass_check|native_compute)\b|Unset Guard|Unset Positivity|Unset Universe|type-in-type|impredicative-set'

TRUSTED_BASE = [
    'Coq 8.16.1 kernel (coqc, full .vo build; vm_compute used, native_compute not used)',
    'model<->code tie: tools/translate.py + clang 14 JSON AST (translator T) and/or the correspondence harness under /verif/harness run against /repo (g++ 12, -DDISPENSO_VERIF)',
    'python orchestration (lib/dv.py, props/*.py) for building, case generation and reading Coq output',
]


def log(*a):
    print(*a, flush=True)


def sh(cmd, timeout=600, cwd=None, env=None, inp=None):
    """run, return (rc, stdout+stderr)"""
    try:
        r = subprocess.run(cmd, stdout=subprocess.PIPE, stderr=subprocess.STDOUT, universal_newlines=True, timeout=timeout,
                           cwd=cwd, env=env, input=inp, errors='replace')
        return r.returncode, r.stdout
    except subprocess.TimeoutExpired as e:
        out = e.stdout or ''
        if isinstance(out, bytes):
            out = out.decode(errors='replace')
        return 124, out + '\n[timeout after %ss]' % timeout


class Lock:
    def __init__(self, name):
        os.makedirs(BUILD, exist_ok=True)
        self.path = os.path.join(BUILD, name + '.lock')

    def __enter__(self):
        self.f = open(self.path, 'w')
        fcntl.flock(self.f, fcntl.LOCK_EX)
        return self

    def __exit__(self, *a):
        fcntl.flock(self.f, fcntl.LOCK_UN)
        self.f.close()


# ------------------------------------------------------------------------------------------------ Coq project

def coq_files():
    out = []
    for d in ('Base', 'Model', 'Proofs', 'Gen', 'GenTie', 'Props'):
        out += sorted(glob.glob(os.path.join(COQ, d, '*.v')))
    return [os.path.relpath(p, COQ) for p in out]


def coq_project():
    """(re)write _CoqProject from the files on disk; re-run coq_makefile when the list changed"""
    txt = '-Q . DV\n-arg -w -arg -notation-overridden,-deprecated-hint-without-locality,-deprecated-instance-without-locality,-deprecated-hint-rewrite-without-locality\n'
    txt += '\n'.join(coq_files()) + '\n'
    p = os.path.join(COQ, '_CoqProject')
    old = open(p).read() if os.path.exists(p) else None
    if old != txt or not os.path.exists(os.path.join(COQ, 'Makefile')):
        open(p, 'w').write(txt)
        rc, out = sh(['coq_makefile', '-f', '_CoqProject', '-o', 'Makefile'], cwd=COQ)
        if rc != 0:
            raise RuntimeError('coq_makefile failed: ' + out)


def dv_deps(vfiles):
    """transitive closure of `From DV Require ... X.Y` / `Require Import DV.X.Y` dependencies of the given coq/ relative files"""
    seen, todo = set(), list(vfiles)
    while todo:
        f = todo.pop()
        if f in seen or not os.path.exists(os.path.join(COQ, f)):
            continue
        seen.add(f)
        txt = open(os.path.join(COQ, f)).read()
        txt = re.sub(r'\(\*.*?\*\)', '', txt, flags=re.S)
        for m in re.finditer(r'From\s+DV\s+Require\s+(?:Import\s+|Export\s+)?(.*?)\.(?:\s|$)', txt, flags=re.S):
            for mod in m.group(1).split():
                todo.append(mod.replace('.', '/') + '.v')
        for m in re.finditer(r'\bDV\.([A-Za-z0-9_]+)\.([A-Za-z0-9_]+)', txt):
            todo.append('%s/%s.v' % (m.group(1), m.group(2)))
    return sorted(seen)


def forbidden_scan(files=None):
    """the development declares no axioms and switches off no checks (files: coq/ relative paths; default = everything)"""
    bad = []
    for f in (files if files is not None else coq_files()):
        if not os.path.exists(os.path.join(COQ, f)):
            continue
        txt = open(os.path.join(COQ, f)).read()
        txt = re.sub(r'\(\*.*?\*\)', '', txt, flags=re.S)
        for m in re.finditer(FORBIDDEN, txt):
            bad.append('%s: %s' % (f, m.group(0)))
    return bad


def gen(groups):
    """translator T: regenerate coq/Gen/*.v for the given groups from /repo's working tree"""
    with Lock('gen'):
        rc, out = sh([sys.executable, os.path.join(VERIF, 'tools', 'gen.py')] + list(groups), timeout=300)
    try:
        rep = json.loads(out[out.index('{'):])
    except Exception:
        rep = {'_crash': [out[-2000:]]}
    return rep


def coq_make(targets, timeout=900):
    """make -k the given .vo targets.  Returns (ok, log).
    First attempt under a SHARED lock (several builders may run at once: their targets rarely overlap); if it fails, one
    retry under the EXCLUSIVE lock, so that a clash between concurrent builders is never mistaken for a broken proof."""
    os.makedirs(BUILD, exist_ok=True)
    cmd = ['timeout', str(timeout), 'make', '-k', '-j%d' % NCPU, 'COQC=timeout 600 coqc'] + list(targets)
    lockf = open(os.path.join(BUILD, 'coq.lock'), 'w')
    try:
        with Lock('coqproject'):
            coq_project()
        fcntl.flock(lockf, fcntl.LOCK_SH)
        rc, out = sh(cmd, timeout=timeout + 30, cwd=COQ)
        if rc != 0:
            fcntl.flock(lockf, fcntl.LOCK_UN)
            fcntl.flock(lockf, fcntl.LOCK_EX)
            with Lock('coqproject'):
                coq_project()
            rc, out2 = sh(cmd, timeout=timeout + 30, cwd=COQ)
            out = out2 if rc == 0 else out + '\n--- retry under exclusive lock ---\n' + out2
    finally:
        fcntl.flock(lockf, fcntl.LOCK_UN)
        lockf.close()
    return rc == 0, out


def theorem_names(vfile):
    txt = open(os.path.join(COQ, vfile)).read()
    txt = re.sub(r'\(\*.*?\*\)', '', txt, flags=re.S)
    return re.findall(r'^\s*(?:Theorem|Lemma|Corollary|Example|Fact|Proposition)\s+([A-Za-z0-9_\']+)', txt, flags=re.M)


def parse_assumptions(makelog):
    """Print Assumptions output per theorem, as coqc printed it while compiling Props files"""
    res = []
    for m in re.finditer(r'(Closed under the global context|Axioms:\n(?:.+\n)+?)(?=\n|\Z|COQC|make)', makelog):
        res.append(m.group(1).strip())
    return res


def coq_eval(workdir, name, body, timeout=600):
    """compile a scratch file against the built development and return coqc's stdout.  `body` is Coq source."""
    os.makedirs(workdir, exist_ok=True)
    name = '%s_p%d' % (name, os.getpid())     # concurrent runs of the same check must not share scratch files
    p = os.path.join(workdir, name + '.v')
    open(p, 'w').write(body)
    # big case lists are single Gallina terms of a megabyte or more: coqc's parser/printer recurse on the system stack
    rc, out = sh(['bash', '-c', 'ulimit -s unlimited 2>/dev/null || ulimit -s $(ulimit -Hs) 2>/dev/null; exec "$@"', 'coqc-wrap',
                  'timeout', str(timeout), 'coqc', '-q', '-Q', COQ, 'DV', '-w', '-all', p], timeout=timeout + 30, cwd=workdir)
    for ext in ('.vo', '.vos', '.vok', '.glob'):
        q = os.path.join(workdir, name + ext)
        if os.path.exists(q):
            os.unlink(q)
    aux = os.path.join(workdir, '.' + name + '.aux')
    if os.path.exists(aux):
        os.unlink(aux)
    if rc == 0 and os.path.exists(p):
        os.unlink(p)
    return rc, out


def eval_results(out):
    """split coqc output of several `Eval vm_compute in` commands into the printed values (strings)"""
    vals = []
    for m in re.finditer(r'^\s*= (.*?)\n\s*: ', out, flags=re.S | re.M):
        vals.append(re.sub(r'\s+', ' ', m.group(1)).strip())
    return vals


def zlit(n):
    return '(%d)' % n if n < 0 else '%d' % n


def coq_list(items):
    return '[' + '; '.join(items) + ']'


def parse_zlist(s):
    """'[1; -2; 3]' -> [1,-2,3]   (also nested via python eval after rewriting)"""
    t = s.replace(';', ',').replace('%Z', '').replace('%nat', '').replace('%N', '').replace('true', 'True').replace('false', 'False')
    return eval(t, {'__builtins__': {}}, {})


# ------------------------------------------------------------------------------------------------ implementation side

def repo_hash(paths=('dispenso',)):
    h = hashlib.sha1()
    for base in paths:
        for root, dirs, files in os.walk(os.path.join(REPO, base)):
            dirs[:] = sorted(d for d in dirs if d not in ('third-party',) or True)
            for f in sorted(files):
                if f.endswith(('.h', '.cpp', '.hpp', '.inl')):
                    p = os.path.join(root, f)
                    h.update(p.encode())
                    h.update(open(p, 'rb').read())
    return h.hexdigest()[:16]


def repo_lib(extra_flags=(), tag='std'):
    """static library of /repo's current working tree, hooks on.  Cached by content hash.  Returns path or raises."""
    hh = repo_hash() + '-' + hashlib.sha1((' '.join(extra_flags) + tag).encode()).hexdigest()[:8]
    d = os.path.join(BUILD, 'repolib', hh)
    lib = os.path.join(d, 'libdispenso.a')
    with Lock('repolib-' + hh):
        if os.path.exists(lib):
            try:
                os.utime(d, None)      # mark as in use
            except OSError:
                pass
            return lib
        # drop older caches (disk is limited) -- but never one that a concurrent run (another source root through VERIF_REPO, or other
        # compiler flags) may be linking against right now: only those not used for an hour, and the 4 most recent ones always stay
        par = os.path.join(BUILD, 'repolib')
        if os.path.isdir(par):
            olds = sorted((os.path.getmtime(os.path.join(par, x)), x) for x in os.listdir(par))
            for mt, x in olds[:-4]:
                if time.time() - mt > 3600:
                    shutil.rmtree(os.path.join(par, x), ignore_errors=True)
        os.makedirs(d, exist_ok=True)
        srcs = sorted(glob.glob(os.path.join(REPO, 'dispenso', '*.cpp')) + glob.glob(os.path.join(REPO, 'dispenso', 'detail', '*.cpp')))
        cmds = []
        for s in srcs:
            o = os.path.join(d, os.path.basename(s).replace('.cpp', '.o'))
            cmds.append(CXX + list(extra_flags) + ['-c', s, '-o', o])
        procs = [subprocess.Popen(c, stdout=subprocess.PIPE, stderr=subprocess.STDOUT, universal_newlines=True) for c in cmds]
        errs = ''
        for p in procs:
            o, _ = p.communicate()
            if p.returncode != 0:
                errs += o
        if errs:
            shutil.rmtree(d, ignore_errors=True)
            raise RuntimeError('building /repo failed:\n' + errs[-3000:])
        objs = sorted(glob.glob(os.path.join(d, '*.o')))
        rc, out = sh(['ar', 'rcs', lib] + objs)
        if rc != 0:
            raise RuntimeError('ar failed: ' + out)
        for o in objs:
            os.unlink(o)
        return lib


def build_harness(name, sources, need_lib=True, extra_flags=(), lib_flags=(), timeout=600):
    """compile harness/<sources> against /repo's working tree.  Cached by hash of (harness sources, repo).  Returns exe path."""
    srcs = [os.path.join(VERIF, 'harness', s) for s in sources]
    h = hashlib.sha1()
    h.update(repo_hash().encode())
    for s in srcs + sorted(glob.glob(os.path.join(VERIF, 'harness', '*.h'))):
        h.update(open(s, 'rb').read())
    h.update(' '.join(extra_flags).encode())
    d = os.path.join(BUILD, 'harness')
    os.makedirs(d, exist_ok=True)
    exe = os.path.join(d, '%s-%s' % (name, h.hexdigest()[:12]))
    with Lock('harness-' + name):
        if os.path.exists(exe):
            return exe
        for old in glob.glob(os.path.join(d, name + '-*')):
            try:      # keep recent binaries: a concurrent run against another source root (VERIF_REPO) may be using them
                if time.time() - os.path.getmtime(old) > 3600:
                    os.unlink(old)
            except OSError:
                pass
        lib = [repo_lib(lib_flags)] if need_lib else []
        rc, out = sh(CXX + list(extra_flags) + srcs + lib + ['-o', exe, '-latomic'], timeout=timeout)
        if rc != 0:
            raise RuntimeError('building harness %s failed:\n%s' % (name, out[-4000:]))
    return exe


# ------------------------------------------------------------------------------------------------ context / verdict

class Ctx:
    def __init__(self, pid, tier, seed, replay=None):
        self.pid, self.tier, self.seed, self.replay = pid, tier, seed, replay
        self.rng = random.Random(seed * 1000003 + sum(ord(c) for c in pid))
        self.t0 = time.time()
        self.work = os.path.join(BUILD, pid)
        os.makedirs(self.work, exist_ok=True)
        self.cov = {'samples': [], 'evaluations': 0, 'distinct_nontrivial': 0, 'obligations': 0, 'discharged': 0,
                    'checker_cmd': 'make -C /verif/coq -k Props/Properties_%s.vo (coqc 8.16.1, full .vo build)' % pid,
                    'trusted_base': list(TRUSTED_BASE), 'traces_validated_against_impl': 0}
        self.assumptions = []
        self.violations = []     # (replay_path, text, concrete?)
        self.known_hits = []
        self.level = 'proof'
        self.broken = []         # names of obligations / correspondences that no longer check
        self.kf = load_known().get(pid, [])

    @property
    def quick(self):
        return self.tier == 'quick'

    def sample(self, x):
        if len(self.cov['samples']) < 6:
            self.cov['samples'].append(x)

    # ---- proofs
    def phase(self, name):
        now = time.time()
        self.cov.setdefault('phase_s', {})[name] = round(now - getattr(self, '_pt', self.t0), 1)
        self._pt = now

    def prove(self, props_file=None, tie_files=(), models=(), timeout=900):
        """build the property's theorem file; count obligations; capture Print Assumptions.  Returns True when all discharged."""
        props_file = props_file or 'Props/Properties_%s.v' % self.pid
        files = [props_file] + list(tie_files)
        closure = dv_deps(files + list(models))
        self.cov['development_files_in_closure'] = len(closure)
        bad = forbidden_scan(closure)
        if bad:
            self.broken.append('forbidden construct in development: ' + '; '.join(bad[:5]))
        names = []
        for f in files:
            if os.path.exists(os.path.join(COQ, f)):
                names += ['%s:%s' % (f, n) for n in theorem_names(f)]
            else:
                self.broken.append('missing ' + f)
        self.cov['obligations'] = len(names)
        ok, out = coq_make([f + 'o' for f in files], timeout)
        open(os.path.join(self.work, 'make.log'), 'w').write(out)
        if models:
            okm, outm = coq_make([f + 'o' for f in models], timeout)
            if not okm:
                self.cov.setdefault('model_build_errors', []).append(outm[-1500:])
        if ok and not bad:
            self.cov['discharged'] = len(names)
        else:
            # which file / line failed
            failed = re.findall(r'File "\./([^"]+)", line (\d+)', out)
            failed_files = set(f for f, _ in failed)
            m2 = re.findall(r'\*\*\* \[[^\]]*?([A-Za-z]+/[A-Za-z0-9_]+)\.vo\]', out)
            failed_files |= set(x + '.v' for x in m2)
            n_ok = 0
            for f in files:
                if f in failed_files or not os.path.exists(os.path.join(COQ, f + 'o')):
                    continue
                n_ok += len(theorem_names(f))
            self.cov['discharged'] = n_ok
            errs = re.findall(r'(File "[^\n]+\n(?:.*\n){0,12}?Error:(?:.*\n){1,8})', out)
            self.broken.append('proof obligations no longer check: ' + ('; '.join('%s line %s' % x for x in failed[:4]) or 'see make.log') +
                               (' :: ' + errs[0][:600] if errs else ' :: ' + out[-600:]))
        # Print Assumptions: re-run is unnecessary when make did not rebuild; read from a dedicated query
        self.assumptions = self.print_assumptions(props_file) if ok else []
        self.phase('prove')
        return ok and not bad

    def print_assumptions(self, props_file):
        names = [n for n in theorem_names(props_file) if not n.endswith('_nonvacuous')]
        mod = 'DV.' + props_file[:-2].replace('/', '.')
        body = 'Require Import %s.\n' % mod
        for n in names:
            body += 'Print Assumptions %s.\n' % n
        rc, out = coq_eval(self.work, 'assum', body, 300)
        res = []
        chunks = re.split(r'(?=Closed under the global context|Axioms:)', out)
        chunks = [c.strip() for c in chunks if c.strip().startswith(('Closed', 'Axioms'))]
        for n, c in zip(names, chunks):
            res.append('%s: %s' % (n, re.sub(r'\s+', ' ', c)[:400]))
        self.cov['print_assumptions'] = res
        return res

    # ---- verdicts
    def violation(self, text, replay_obj, concrete=True):
        """register a violation unless a known finding covers it"""
        key = replay_obj.get('finding_key') if isinstance(replay_obj, dict) else None
        for k in self.kf:
            if k.get('status') == 'known' and key and key == k.get('key'):
                if k['key'] not in [h['key'] for h in self.known_hits]:
                    self.known_hits.append(k)
                return False
        self.nviol = getattr(self, 'nviol', 0) + 1
        if len(self.violations) >= 5:       # keep the output readable; evidence carries the count
            return True
        os.makedirs(os.path.join(REPLAYS, self.pid), exist_ok=True)
        p = os.path.join(REPLAYS, self.pid, 'replay-%d-%d.json' % (self.seed, len(self.violations)))
        obj = {'property': self.pid, 'seed': self.seed, 'tier': self.tier, 'what': text, 'concrete_failing_input': concrete}
        obj.update(replay_obj if isinstance(replay_obj, dict) else {'replay': replay_obj})
        json.dump(obj, open(p, 'w'), indent=1, default=str)
        self.violations.append((p, text, concrete))
        return True

    def known(self, key, text=None):
        """the run reproduced a finding listed in known_findings.json"""
        for k in self.kf:
            if k.get('status') == 'known' and k.get('key') == key:
                if key not in [h['key'] for h in self.known_hits]:
                    self.known_hits.append(k)
                return True
        return False

    def is_known(self, key):
        return any(k.get('status') == 'known' and k.get('key') == key for k in self.kf)

    def finish(self, assumptions=()):
        # broken obligations / correspondences with no concrete failing input found
        if self.broken and not any(c for _, _, c in self.violations):
            os.makedirs(os.path.join(REPLAYS, self.pid), exist_ok=True)
            p = os.path.join(REPLAYS, self.pid, 'broken-%d.json' % self.seed)
            json.dump({'property': self.pid, 'no_longer_checks': self.broken, 'searched': self.cov.get('evaluations', 0),
                       'note': 'no failing input found by the search ladder; the property is no longer shown to hold'},
                      open(p, 'w'), indent=1)
            self.violations.append((p, 'broken: ' + self.broken[0][:200], False))
        ev = {'property_id': self.pid, 'tier': self.tier, 'seed': self.seed, 'level': self.level, 'coverage': self.cov,
              'assumptions': list(assumptions) + ['Print Assumptions: ' + a for a in self.assumptions],
              'wall_s': round(time.time() - self.t0, 2), 'violations': max(len(self.violations), getattr(self, 'nviol', 0)),
              'known_findings_reproduced': [k['key'] for k in self.known_hits]}
        if not self.cov['samples']:
            self.cov['samples'] = ['(no case reached)']
        os.makedirs(EVID, exist_ok=True)
        json.dump(ev, open(os.path.join(EVID, self.pid + '.json'), 'w'), indent=1, default=str)
        for k in self.known_hits:
            log('KNOWN-FINDING: property=%s %s' % (self.pid, k['what']))
        for p, text, concrete in self.violations:
            log('VIOLATION property=%s replay=%s%s' % (self.pid, p, '' if concrete else ' no-failing-input-found'))
            log('  ' + text[:500])
        if not self.violations:
            log('OK property=%s tier=%s seed=%d obligations=%d/%d evaluations=%d wall=%.1fs' % (
                self.pid, self.tier, self.seed, self.cov['discharged'], self.cov['obligations'], self.cov['evaluations'], time.time() - self.t0))
        return 1 if self.violations else 0


def load_known():
    p = os.path.join(VERIF, 'known_findings.json')
    if not os.path.exists(p):
        return {}
    d = json.load(open(p))
    out = {}
    for e in d.get('findings', []):
        out.setdefault(e['property'], []).append(e)
    return out
