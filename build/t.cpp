#include <dispenso/platform.h>
