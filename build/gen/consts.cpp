
#include <cstdio>
#include <dispenso/platform.h>
int main(){
  printf("{\"kCacheLineSize\": %zu}\n", (size_t)dispenso::kCacheLineSize);
}
