#include <dispenso/parallel_for.h>
template struct dispenso::detail::StaticChunkMapper<int8_t>;
template struct dispenso::detail::StaticChunkMapper<uint16_t>;
