#!/bin/sh
# Run once after a fresh restore, offline: regenerate coq/Gen from /repo, full Coq build (.vo), forbidden-construct gate.
set -e
cd "$(dirname "$0")"
mkdir -p build evidence replays
python3 tools/gen.py > build/gen_report.json || true
python3 -c "import sys; sys.path.insert(0,'lib'); import dv; dv.coq_project(); b=dv.forbidden_scan(); print('forbidden constructs:', b); sys.exit(1 if b else 0)"
cd coq
timeout 3000 make -k -j16 'COQC=timeout 600 coqc' > ../build/setup_make.log 2>&1 || { tail -40 ../build/setup_make.log; echo "setup: some Coq files failed to build (the per-property checks report which)"; }
echo "setup done"
