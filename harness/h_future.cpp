// Lockstep / history harness for dispenso::Future (C18, C19) under harness/vsched.h.
// One case per line:
//   <ls|im|nt> <allowInline 0|1> <hasTsc 0|1> <val> <exc 0|1> <timeouts 0|1> <budget> ; <h0> <tok> : <ops> ; ... ; S <schedule ints>
//   ls: future created with a manually driven schedulable (detail::InterceptionInvoker, or
//       detail::TaskSetInterceptionInvoker<FakeTS> when hasTsc); the thread with tok=1 invokes the OnceFunction (op R).
//   im: future created with kImmediateInvoker on the (unenrolled) main thread, then the threads run under vsched.
//   nt: future created with kNewThreadInvoker; threads run natively (no scheduler): history-level only.
// ops: R run  W wait  G get  F<0|1> wait_for(0 | 1000s)  U<0|1> wait_until(past | far future)  Q is_ready  C copy  D drop
//      T<k> then(cont k, recording schedulable k)  S taskset-wait (spin on the counter, then sample readiness)
// Output: steps t:site ... | results t:tag=v ... | blocked t ... | fc N early N cont k:dispatched:runs:ready ... | status S
#include <atomic>
#include <chrono>
#include <cstdio>
#include <cstdlib>
#include <iostream>
#include <sstream>
#include <string>
#include <vector>
#include <sys/wait.h>
#include <unistd.h>
#define private public
#define protected public
#include <dispenso/future.h>
#undef private
#undef protected
#include "vsched.h"

using dispenso::Future;
static const int kMaxK = 16;
static vs::Sched* g_S = nullptr;
static thread_local int t_native = -1;
static std::vector<std::vector<std::string>> g_nativeRes;
static std::atomic<int> g_fcount{0}, g_early{0};
static std::atomic<int> g_dispatched[kMaxK], g_contRuns[kMaxK], g_contReady[kMaxK];

static void logres(const char* tag, long v) {
  if (vs::t_self >= 0 && g_S) {
    g_S->result(tag, v);
  } else if (t_native >= 0) {
    g_nativeRes[static_cast<size_t>(t_native)].push_back(std::string(tag) + "=" + std::to_string(v));
  }
}

struct Tracked {
  long v;
  bool live;
  explicit Tracked(long x) : v(x), live(true) {}
  Tracked(Tracked&& o) noexcept : v(o.v), live(o.live) { o.live = false; }
  Tracked(const Tracked& o) : v(o.v), live(false) {}
  ~Tracked() {
    if (live) logres("dealloc", 1);
  }
};
struct Ex {
  long id;
};
using Fut = Future<Tracked>;
using Impl = dispenso::detail::FutureImplBase<Tracked>;
static Impl* g_impl = nullptr;

struct FakeTS {
  std::atomic<ssize_t> outstandingTaskCount_{0};
};

// schedulable used for continuations: records the dispatch, keeps the OnceFunction for after the scheduled run
struct RecSched {
  long k = 0;
  dispenso::OnceFunction saved;
  std::atomic<bool> has{false};   // set by the dispatching thread, which in nt mode is the unenrolled NewThreadInvoker thread
  void doit(dispenso::OnceFunction f) {
    dispenso_verif_point("h.dispatch", this);
    logres("disp", k);
    if (g_impl->status_.intrusiveStatus().load() != Impl::kReady) g_early.fetch_add(1);
    g_dispatched[k].fetch_add(1);
    saved = std::move(f);
    has.store(true, std::memory_order_release);
  }
  void schedule(dispenso::OnceFunction f) { doit(std::move(f)); }
  void schedule(dispenso::OnceFunction f, dispenso::ForceQueuingTag) { doit(std::move(f)); }
};

struct Op {
  char k;
  long a = 0;
};
struct ThreadDesc {
  int h0 = 0, tok = 0;
  std::vector<Op> prog;
};

struct Case {
  std::string mode;
  int allowInline = 1, hasTsc = 0, exc = 0, timeouts = 0;
  long val = 7, budget = 100;
  std::vector<ThreadDesc> ths;
  std::vector<long> sched;
};

struct World {
  Case& c;
  FakeTS ts;
  dispenso::detail::TaskSetInterceptionInvoker<FakeTS> tinv{ts};
  dispenso::detail::InterceptionInvoker inv;
  std::vector<std::vector<Fut>> mine;
  RecSched recs[kMaxK];
  Future<int> conts[kMaxK];
  explicit World(Case& cc) : c(cc) {}

  void runProg(size_t t) {
    std::vector<Fut>& my = mine[t];
    for (const Op& o : c.ths[t].prog) {
      switch (o.k) {
        case 'R':
          if (c.hasTsc) tinv.savedOffFn(); else inv.savedOffFn();
          break;
        case 'W': my.back().wait(); logres("wait", 1); break;
        case 'G':
          try {
            logres("get", my.back().get().v);
          } catch (const Ex& e) {
            logres("getx", e.id);
          }
          break;
        case 'F': {
          auto r = my.back().wait_for(std::chrono::duration<double>(o.a ? 1000.0 : 0.0));
          logres("waitfor", r == std::future_status::ready ? 1 : 0);
          break;
        }
        case 'U': {
          auto tp = std::chrono::steady_clock::now() + std::chrono::seconds(o.a ? 1000 : -1000);
          auto r = my.back().wait_until(tp);
          logres("waitfor", r == std::future_status::ready ? 1 : 0);
          break;
        }
        case 'Q': logres("ready", my.back().is_ready() ? 1 : 0); break;
        case 'C': my.push_back(Fut(my.back())); break;
        case 'D': my.pop_back(); break;
        case 'T': {
          long k = o.a;
          recs[k].k = k;
          conts[k] = my.back().then(
              [k](Fut&& a) {
                g_contRuns[k].fetch_add(1);
                g_contReady[k].store(a.is_ready() ? 1 : 0);
                return 0;
              },
              recs[k], dispenso::kNotAsync, std::launch::deferred);
          break;
        }
        case 'S':
          dispenso_verif_point("h.ts.load", &ts);
          while (ts.outstandingTaskCount_.load(std::memory_order_acquire) != 0) {
            dispenso_verif_point("h.ts.load", &ts);
          }
          logres("tswait", g_impl->status_.intrusiveStatus().load() == Impl::kReady ? 1 : 0);
          break;
        default: break;
      }
    }
  }
};

static Tracked functorBody(const Case& c) {
  dispenso_verif_point("h.func", nullptr);
  int n = g_fcount.fetch_add(1) + 1;
  logres("func", n);
  if (c.exc) throw Ex{c.val};
  return Tracked(c.val + 1000L * (n - 1));
}

struct Fn {
  const Case* c;
  Tracked operator()() { return functorBody(*c); }
};

static std::string extraOf(const Case& c) {
  std::ostringstream ex;
  ex << "fc " << g_fcount.load() << " early " << g_early.load() << " cont";
  for (const ThreadDesc& td : c.ths)
    for (const Op& o : td.prog)
      if (o.k == 'T')
        ex << " " << o.a << ":" << g_dispatched[o.a].load() << ":" << g_contRuns[o.a].load() << ":" << g_contReady[o.a].load();
  return ex.str();
}

// hand every thread its initial handles (main thread: hook points are no-ops here), then drop main's own handle
static void distribute(World& w, Fut& f) {
  g_impl = reinterpret_cast<dispenso::detail::FutureBase<Tracked>&>(f).impl_;   // Future's only base
  w.mine.resize(w.c.ths.size());
  for (size_t t = 0; t < w.c.ths.size(); ++t)
    for (int i = 0; i < w.c.ths[t].h0; ++i) w.mine[t].push_back(Fut(f));
}

static void runContinuations(World& w) {
  for (int k = 0; k < kMaxK; ++k)
    if (w.recs[k].has.load(std::memory_order_acquire)) w.recs[k].saved();
}

static void runScheduled(Case& c) {
  World* w = new World(c);   // leaked on purpose: parked threads may still reference it at _exit
  std::launch def = c.allowInline ? std::launch::deferred : dispenso::kNotDeferred;
  Fut f;
  if (c.mode == "im") {
    f = Fut(Fn{&c}, dispenso::kImmediateInvoker, dispenso::kNotAsync, def);
  } else if (c.hasTsc) {
    f = Fut(Fn{&c}, w->tinv, dispenso::kNotAsync, def);
  } else {
    f = Fut(Fn{&c}, w->inv, dispenso::kNotAsync, def);
  }
  distribute(*w, f);
  f = Fut();
  vs::Sched* S = new vs::Sched(c.sched, c.budget, c.timeouts != 0);
  if (c.timeouts == 2) S->setSpurious(true);   // timeouts field 2: futex waits may also return spuriously (property judged on results only)
  g_S = S;
  for (size_t t = 0; t < c.ths.size(); ++t) S->spawn([w, t]() { w->runProg(t); });
  S->run();
  if (S->status() == "done") {
    S->joinAll();
    g_S = nullptr;   // results of the post-run phase are not part of the compared history
    runContinuations(*w);
  }
  S->print(extraOf(c));
}

static void runNative(Case& c) {
  World* w = new World(c);
  std::launch def = c.allowInline ? std::launch::deferred : dispenso::kNotDeferred;
  Fut f(Fn{&c}, dispenso::kNewThreadInvoker, dispenso::kNotAsync, def);
  distribute(*w, f);
  g_nativeRes.resize(c.ths.size());
  std::vector<std::thread> thr;
  for (size_t t = 0; t < c.ths.size(); ++t)
    thr.emplace_back([w, t]() {
      t_native = static_cast<int>(t);
      w->runProg(t);
    });
  for (auto& x : thr) x.join();
  f.wait();
  // The functor's thread (NewThreadInvoker, not ours to join) publishes Ready BEFORE it drains the then-chain, so wait() can return
  // while that thread is still dispatching: let it finish before the counters are read.  Every then() op has returned (its thread is
  // joined), so a correct implementation dispatches each registered continuation; the cap only matters for one that never does.
  {
    auto t0 = std::chrono::steady_clock::now();
    auto pending = [&]() {
      for (auto& th : c.ths)
        for (auto& o : th.prog)
          if (o.k == 'T' && !w->recs[o.a].has.load(std::memory_order_acquire)) return true;
      return false;
    };
    while (pending() && std::chrono::steady_clock::now() - t0 < std::chrono::seconds(5)) std::this_thread::yield();
  }
  runContinuations(*w);
  printf("steps | results");
  for (size_t t = 0; t < g_nativeRes.size(); ++t)
    for (auto& r : g_nativeRes[t]) printf(" %zu:%s", t, r.c_str());
  printf(" | blocked | %s | status done\n", extraOf(c).c_str());
}

// ---------------------------------------------------------------------------------------------------------------
// when_all / when_any (history level).  Case: <wa|wy> <variant 0 vec|1 tuple3> <ts 0|1> <pre 0|1> <n> 0 <budget> ; <prog> ; ... ; S ...
// (fields reuse Case: allowInline=variant, hasTsc=ts, val=pre, exc=n).  ops: K<i> run input i's OnceFunction, A create the
// combinator (when pre=0), G get() on the result (spins until created), S task-set wait then sample result readiness.
using FL = Future<long>;
struct CombWorld {
  Case& c;
  int n;
  std::vector<dispenso::detail::InterceptionInvoker> inv;
  std::vector<FL> in;
  std::vector<dispenso::detail::FutureImplBase<long>*> impl;
  FakeTS ts;
  dispenso::detail::TaskSetInterceptionInvoker<FakeTS> tinv{ts};
  Future<std::vector<FL>> rall;
  Future<std::tuple<FL, FL, FL>> rallT;
  Future<size_t> rany;
  std::atomic<int> created{0};
  std::atomic<int> infc[8];
  explicit CombWorld(Case& cc) : c(cc), n(cc.exc), inv(static_cast<size_t>(cc.exc)) {
    for (auto& x : infc) x.store(0);
    for (int i = 0; i < n; ++i) {
      CombWorld* self = this;
      in.push_back(FL([self, i]() { self->infc[i].fetch_add(1); return 100L + i; }, inv[static_cast<size_t>(i)], dispenso::kNotAsync, std::launch::deferred));
      impl.push_back(reinterpret_cast<dispenso::detail::FutureBase<long>&>(in.back()).impl_);
    }
  }
  bool rdy(int i) { return impl[static_cast<size_t>(i)]->status_.intrusiveStatus().load() == 2; }
  bool any() const { return c.mode == "wy"; }
  void create() {
    bool tup = c.allowInline != 0, t = c.hasTsc != 0;
    if (!any()) {
      if (tup) rallT = t ? dispenso::detail::whenAllTuple(tinv, in[0], in[1], in[2]) : dispenso::when_all(in[0], in[1], in[2]);
      else rall = t ? dispenso::detail::whenAllIterators(tinv, in.begin(), in.end()) : dispenso::when_all(in.begin(), in.end());
    } else {
      if (tup) rany = t ? dispenso::detail::whenAnyTuple(tinv, in[0], in[1], in[2]) : dispenso::when_any(in[0], in[1], in[2]);
      else rany = t ? dispenso::detail::whenAnyIterators(tinv, in.begin(), in.end()) : dispenso::when_any(in.begin(), in.end());
    }
    created.store(1);
  }
  void waitCreated() {
    dispenso_verif_point("h.spin", this);
    while (!created.load()) dispenso_verif_point("h.spin", this);
  }
  bool resultReady() {
    if (any()) return rany.is_ready();
    return c.allowInline ? rallT.is_ready() : rall.is_ready();
  }
  void runProg(size_t t) {
    for (const Op& o : c.ths[t].prog) {
      if (o.k == 'K') {
        inv[static_cast<size_t>(o.a)].savedOffFn();
      } else if (o.k == 'A') {
        create();
      } else if (o.k == 'S') {
        waitCreated();
        dispenso_verif_point("h.ts.load", &ts);
        while (ts.outstandingTaskCount_.load(std::memory_order_acquire) != 0) dispenso_verif_point("h.ts.load", &ts);
        logres("tswait", resultReady() ? 1 : 0);
      } else if (o.k == 'G') {
        waitCreated();
        if (any()) {
          size_t idx = rany.get();
          logres("wany", idx == SIZE_MAX ? -1 : static_cast<long>(idx));
          logres("wanyr", (n == 0 && idx == SIZE_MAX) || (idx < static_cast<size_t>(n) && rdy(static_cast<int>(idx))) ? 1 : 0);
        } else {
          long notReady = 0, order = 1, size = 0;
          if (c.allowInline) {
            const auto& tp = rallT.get();
            for (int i = 0; i < n; ++i) notReady += rdy(i) ? 0 : 1;
            size = 3;
            order = (std::get<0>(tp).get() == 100 && std::get<1>(tp).get() == 101 && std::get<2>(tp).get() == 102) ? 1 : 0;
          } else {
            const auto& v = rall.get();
            for (int i = 0; i < n; ++i) notReady += rdy(i) ? 0 : 1;
            size = static_cast<long>(v.size());
            for (size_t i = 0; i < v.size(); ++i) order = (order && v[i].get() == 100 + static_cast<long>(i)) ? 1 : 0;
          }
          logres("wall", notReady);
          logres("wsize", size);
          logres("worder", order);
        }
      }
    }
  }
};

static void runComb(Case& c) {
  CombWorld* w = new CombWorld(c);
  if (c.val) w->create();   // registration before any completion, on the unenrolled main thread
  vs::Sched* S = new vs::Sched(c.sched, c.budget, false);
  g_S = S;
  for (size_t t = 0; t < c.ths.size(); ++t) S->spawn([w, t]() { w->runProg(t); });
  S->run();
  std::ostringstream ex;
  ex << "infc";
  for (int i = 0; i < w->n; ++i) ex << " " << w->infc[i].load();
  S->print(ex.str());
}

static Case parseCase(const std::string& line) {
  Case c;
  std::vector<std::string> parts;
  std::stringstream ss(line);
  std::string part;
  while (std::getline(ss, part, ';')) parts.push_back(part);
  std::istringstream hd(parts[0]);
  hd >> c.mode >> c.allowInline >> c.hasTsc >> c.val >> c.exc >> c.timeouts >> c.budget;
  for (size_t i = 1; i < parts.size(); ++i) {
    std::istringstream ps(parts[i]);
    std::string first;
    ps >> first;
    if (first == "S") {
      long x;
      while (ps >> x) c.sched.push_back(x);
      continue;
    }
    ThreadDesc td;
    std::string tok;
    if (c.mode == "wa" || c.mode == "wy") {
      ps.clear();
      ps.str(parts[i]);
    } else {
      td.h0 = atoi(first.c_str());
      ps >> td.tok >> tok;   // tok == ":"
    }
    while (ps >> tok) {
      Op o;
      o.k = tok[0];
      if (tok.size() > 1) o.a = atol(tok.c_str() + 1);
      td.prog.push_back(o);
    }
    c.ths.push_back(td);
  }
  return c;
}

int main() {
  std::string line;
  while (std::getline(std::cin, line)) {
    if (line.empty()) continue;
    fflush(stdout);
    pid_t pid = fork();
    if (pid == 0) {
      alarm(20);
      Case c = parseCase(line);
      if (c.mode == "nt") runNative(c); else if (c.mode == "wa" || c.mode == "wy") runComb(c); else runScheduled(c);
      fflush(stdout);
      _exit(0);
    }
    int st = 0;
    waitpid(pid, &st, 0);
    if (!WIFEXITED(st) || WEXITSTATUS(st) != 0) {
      printf("CRASH status %d\n", st);
      fflush(stdout);
    }
  }
  return 0;
}
