// Harness for dispenso::TimedTask / TimedTaskScheduler / detail::TimedTaskImpl (C26).  One case per line, fork per case.
//
// Lockstep cases (under harness/vsched.h):
//   ls <timesToRun> <npool> <budget> ; R <0|1 ...> ; U <ops...> ; S <schedule ints...>
//     R: return values of the successive invocations of the functor (true when exhausted)
//     U: operations of the user thread on the TimedTask handle: C cancel()  D detach()  L calls()  X ~TimedTask (last op)
//   threads: 0 = scheduler role: the run loop's "pick the due task" (harness point h.pick) followed by the REAL
//                TimedTaskScheduler::kickOffTask on the real TimedTaskImpl, repeated while kickOffTask re-queued the task;
//            1 = user thread; 2.. = pool threads: take the `wrap` closures that TimedTaskImpl::func handed to the
//                Schedulable (harness point h.poll) and run them.
//   The TimedTaskScheduler object is real (its own background thread stays asleep: nothing is ever added to its queue
//   for longer than the instant between kickOffTask's push and the harness's pop, and nextAbsTime is ~3e10 years away).
//   Output: steps t:site ... | results t:tag=v ... | blocked ... | ttr T flags F inprog I count C alive A q Q copies K | status S
//   status: done | budget | deadlock | crash (SIGSEGV/SIGBUS/SIGABRT in the child) | asan (AddressSanitizer report, ASan build)
//
// Native cases (real scheduler thread, real clock):
//   nat <delay_us> <period_us> <timesToRun> <steady 0|1> <pool 0|1> <wait_ms>
//   Output: nat count C starts K t <start_k - requested_first, ns> ...
#include <atomic>
#include <cerrno>
#include <chrono>
#include <climits>
#include <cstring>
#include <condition_variable>
#include <csignal>
#include <cstdio>
#include <cstdlib>
#include <deque>
#include <functional>
#include <iostream>
#include <memory>
#include <mutex>
#include <queue>
#include <sstream>
#include <string>
#include <thread>
#include <vector>
#include <sys/wait.h>
#include <unistd.h>
#define private public
#define protected public
#include <dispenso/timed_task.h>
#include <dispenso/thread_pool.h>
#include <dispenso/schedulable.h>
#include "vsched.h"   // included with private->public as well: the crash/ASan handlers set Sched::status_
#undef private
#undef protected

#if defined(__SANITIZE_ADDRESS__)
extern "C" void __sanitizer_set_death_callback(void (*callback)(void));
#endif

namespace {

struct Globals {
  std::atomic<int> starts{0};
  std::atomic<bool> fDestroyed{false};
  std::atomic<int> copies{0};
  std::vector<int> rets;
  std::mutex qmu;
  std::deque<std::function<void()>> q;
  std::atomic<bool> schedDone{false};
  vs::Sched* S = nullptr;
  std::shared_ptr<dispenso::detail::TimedTaskImpl> impl;
  // native mode
  std::vector<double> times;
};
Globals* G = nullptr;

// The user's functor.  It owns one byte of state so that calling it after its closure was freed is a heap
// use-after-free that AddressSanitizer sees; without ASan that read is harmless and the canary (fDestroyed) reports it.
struct Fn {
  bool live;
  volatile char tag;
  Fn() : live(true), tag(7) {}
  Fn(Fn&& o) noexcept : live(o.live), tag(7) { o.live = false; }
  Fn(const Fn& o) : live(o.live), tag(7) { G->copies.fetch_add(1); }
  ~Fn() {
    if (live) G->fDestroyed.store(true);
  }
  bool operator()() const {
    int i = G->starts.fetch_add(1);
    bool dead = G->fDestroyed.load();
    char t = tag;
    (void)t;
    G->S->result("start", i);
    if (dead) G->S->result("uafcall", 1);
    return static_cast<size_t>(i) < G->rets.size() ? G->rets[static_cast<size_t>(i)] != 0 : true;
  }
};

// Schedulable that hands the closures to the harness's pool threads.  Stateless: a dangling reference to it is never dereferenced.
struct HSched {
  template <typename F>
  void schedule(F&& f, dispenso::ForceQueuingTag) {
    std::lock_guard<std::mutex> lk(G->qmu);
    G->q.emplace_back(std::function<void()>(f));
  }
  template <typename F>
  void schedule(F&& f) {
    schedule(std::forward<F>(f), dispenso::ForceQueuingTag());
  }
};

std::string stateString() {
  std::ostringstream ex;
  auto& im = *G->impl;
  size_t qn;
  {
    std::lock_guard<std::mutex> lk(G->qmu);
    qn = G->q.size();
  }
  ex << "ttr " << im.timesToRun.load() << " flags " << im.flags.load() << " inprog " << im.inProgress.load() << " count "
     << im.count.load() << " alive " << (im.func ? 1 : 0) << " q " << qn << " copies " << G->copies.load();
  return ex.str();
}

void dieWith(const char* status) {
  // every other enrolled thread is parked; print what happened so far
  vs::Sched* S = G->S;
  if (S) {
    S->status_ = status;
    S->print(stateString());
  }
  _exit(0);
}
void onSignal(int) { dieWith("crash"); }
void onAsanDeath() { dieWith("asan"); }

}  // namespace

static void runLockstep(const std::string& line) {
  std::vector<std::string> parts;
  {
    std::stringstream ss(line);
    std::string part;
    while (std::getline(ss, part, ';')) parts.push_back(part);
  }
  std::istringstream hd(parts[0]);
  std::string mode;
  unsigned long long n;
  int npool;
  long budget;
  hd >> mode >> n >> npool >> budget;
  std::vector<char> uops;
  std::vector<long> sched;
  for (size_t i = 1; i < parts.size(); ++i) {
    std::istringstream ps(parts[i]);
    std::string first;
    ps >> first;
    if (first == "R") {
      int x;
      while (ps >> x) G->rets.push_back(x);
    } else if (first == "U") {
      std::string o;
      while (ps >> o) uops.push_back(o[0]);
    } else if (first == "S") {
      long x;
      while (ps >> x) sched.push_back(x);
    }
  }
  const double kFar = 1e18;  // "never due" for the real (idle) scheduler thread, should it ever look
  static HSched hs;
  auto* tts = new dispenso::TimedTaskScheduler();
  std::unique_ptr<dispenso::TimedTask> task(
      new dispenso::TimedTask(hs, Fn(), kFar, 1.0, static_cast<size_t>(n), dispenso::TimedTaskType::kSteady));
  G->impl = task->impl_;
  vs::Sched S(sched, budget, false);
  G->S = &S;
  signal(SIGSEGV, onSignal);
  signal(SIGBUS, onSignal);
  signal(SIGABRT, onSignal);
#if defined(__SANITIZE_ADDRESS__)
  __sanitizer_set_death_callback(onAsanDeath);
#endif
  // thread 0: scheduler role
  S.spawn([&]() {
    std::shared_ptr<dispenso::detail::TimedTaskImpl> cur = G->impl;
    while (cur) {
      S.point("h.pick", nullptr);
      try {
        tts->kickOffTask(std::move(cur), kFar);
      } catch (const std::bad_function_call&) {
        S.result("badcall", 1);
        break;
      }
      cur.reset();
      std::lock_guard<std::mutex> lk(tts->queueMutex_);
      if (!tts->tasks_.empty()) {
        cur = tts->tasks_.top();
        tts->tasks_.pop();
      }
    }
    G->schedDone.store(true);
  });
  // thread 1: user
  S.spawn([&]() {
    bool detached = false;
    for (char o : uops) {
      if (o == 'C') {
        task->cancel();
      } else if (o == 'D') {
        task->detach();
        detached = true;
      } else if (o == 'L') {
        S.result("calls", static_cast<long>(task->calls()));
      } else if (o == 'X') {
        task.reset();
        // where in the trace the destructor of a NON-detached task returned (index of the next step): every later step that touches
        // the closure is "after the destructor returned", whatever path the destructor took
        if (!detached) S.result("dret", S.nsteps());
        break;
      }
    }
  });
  // threads 2..: pool
  for (int p = 0; p < npool; ++p) {
    S.spawn([&]() {
      while (true) {
        S.point("h.poll", nullptr);
        std::function<void()> w;
        bool have = false;
        {
          std::lock_guard<std::mutex> lk(G->qmu);
          if (!G->q.empty()) {
            w = std::move(G->q.front());
            G->q.pop_front();
            have = true;
          }
        }
        if (have) {
          w();
        } else if (G->schedDone.load()) {
          break;
        }
      }
    });
  }
  S.run();
  S.print(stateString());
  fflush(stdout);
  _exit(0);  // never run ~TimedTask / ~TimedTaskScheduler on the main thread: parked threads never resume
}

// Native run: the real scheduler thread and the real clock.  One-sided observations only.
struct NatFn {
  bool operator()() const {
    double t = dispenso::getTime();
    int i = G->starts.fetch_add(1);
    if (static_cast<size_t>(i) < G->times.size()) G->times[static_cast<size_t>(i)] = t;
    return true;
  }
};

static void runNative(const std::string& line) {
  std::istringstream hd(line);
  std::string mode;
  long delayUs, periodUs, waitMs;
  unsigned long long n;
  int steady, usePool;
  hd >> mode >> delayUs >> periodUs >> n >> steady >> usePool >> waitMs;
  G->times.assign(static_cast<size_t>(n) + 8, 0.0);
  dispenso::TimedTaskScheduler tts;
  dispenso::ThreadPool pool(2);
  dispenso::ImmediateInvoker imm;
  // let the scheduler thread reach its idle wait
  std::this_thread::sleep_for(std::chrono::milliseconds(2));
  double t0 = dispenso::getTime() + 1e-6 * static_cast<double>(delayUs);
  auto type = steady ? dispenso::TimedTaskType::kSteady : dispenso::TimedTaskType::kNormal;
  size_t calls = 0;
  {
    dispenso::TimedTask task = usePool
        ? tts.schedule(pool, NatFn(), t0, 1e-6 * static_cast<double>(periodUs), static_cast<size_t>(n), type)
        : tts.schedule(imm, NatFn(), t0, 1e-6 * static_cast<double>(periodUs), static_cast<size_t>(n), type);
    std::this_thread::sleep_for(std::chrono::milliseconds(waitMs));
    calls = task.calls();
  }
  int k = G->starts.load();
  printf("nat count %zu starts %d t", calls, k);
  for (int i = 0; i < k && static_cast<size_t>(i) < G->times.size(); ++i) {
    printf(" %lld", static_cast<long long>((G->times[static_cast<size_t>(i)] - t0) * 1e9));
  }
  printf("\n");
}

int main() {
  std::string line;
  while (std::getline(std::cin, line)) {
    if (line.empty()) continue;
    fflush(stdout);
    pid_t pid = fork();
    if (pid == 0) {
      alarm(30);
      G = new Globals();
      if (line.compare(0, 3, "nat") == 0) {
        runNative(line);
      } else {
        runLockstep(line);
      }
      fflush(stdout);
      _exit(0);
    }
    int st = 0;
    waitpid(pid, &st, 0);
    if (!WIFEXITED(st) || WEXITSTATUS(st) != 0) {
      printf("CRASH status %d\n", st);
      fflush(stdout);
    }
  }
  return 0;
}
