// Correspondence harness for the parallel loops (C12, C13, C14, C15, C17, C48): drives the REAL
// dispenso::parallel_for / for_each_n / staticChunkSize from /repo on cases read from stdin, one per line,
// and prints one canonical result line per case.
//
//   scs <items> <chunks>                         -> "scs t c"
//   scg <items> <chunks> <g>                     -> "scg t c"
//   pf <kn> <start> <end> <mode> <chunk> <N> <maxThreads> <minItems> <gran> <wait> <rdv> <reuse> [<inpool>]
//        kn: 0..7 = i8 u8 i16 u16 i32 u32 i64 u64;  mode: s(tatic) a(daptive) c(explicit chunk)
//        rdv: 0 = plain bodies; k>0 = every body waits (<= 20 ms) until k bodies are inside at once
//        inpool (optional, default 0): k>0 = issue the parallel_for from inside a task running on the worker of the pool under
//              test whose ring index is k-1 (all N workers are first parked in force-queued tasks, so every ring index can be
//              chosen deterministically; the main thread never runs the task)
//      -> "pf n a0 b0 s0 a1 b1 s1 ... | maxconc M stateconc S nstates K ring R"   (chunks sorted by (a,b); R = ring index of
//         the thread that called parallel_for, -1 = not a pool thread)
//   fe <cat> <n> <N> <maxThreads> <wait>         -> "fe cnt0 cnt1 ... | maxconc M"   (per-element call counts)
//   l3                                           -> "l3 <CpuSet::l3CacheGroups().size()>"  (machine parameter of the dynamic path)
#include <dispenso/parallel_for.h>
#include <dispenso/for_each.h>
#include <dispenso/thread_pool.h>
#include <dispenso/task_set.h>
#include <algorithm>
#include <atomic>
#include <chrono>
#include <cstdio>
#include <cstdlib>
#include <cstring>
#include <iostream>
#include <list>
#include <map>
#include <memory>
#include <mutex>
#include <sstream>
#include <string>
#include <thread>
#include <vector>
#include <unistd.h>

static std::map<int, std::unique_ptr<dispenso::ThreadPool>> g_pools;
static dispenso::ThreadPool& poolFor(int n) {
  auto& p = g_pools[n];
  if (!p) p.reset(new dispenso::ThreadPool(static_cast<size_t>(n)));
  return *p;
}

struct Rec {
  std::string a, b;
  long long sa, sb;  // for sorting (as signed 128 would be nicer; we sort by string-parsed long double)
  int state;
};

struct State {
  std::atomic<int> inUse{0};
  int idx = -1;
  State() {}
  State(const State& o) : inUse(0), idx(o.idx) {}
};

static std::mutex g_mu;
static std::atomic<long> g_calls{0};
static const long kCallCap = 200000;
static long g_caseNo = 0;

template <typename T>
static std::string tostr(T v) {
  std::ostringstream os;
  if (sizeof(T) == 1) os << static_cast<int>(v);
  else os << v;
  return os.str();
}

template <typename T>
static T parseT(const std::string& s) {
  if (std::is_signed<T>::value) return static_cast<T>(strtoll(s.c_str(), nullptr, 10));
  return static_cast<T>(strtoull(s.c_str(), nullptr, 10));
}

template <typename T>
static void runPf(std::istringstream& in) {
  std::string ss, es, mode, chs;
  int N, wait, rdv, reuse, inpool = 0;
  long long maxThreads, minItems, gran;
  in >> ss >> es >> mode >> chs >> N >> maxThreads >> minItems >> gran >> wait >> rdv >> reuse;
  if (!(in >> inpool)) inpool = 0;
  T s = parseT<T>(ss), e = parseT<T>(es);
  dispenso::ThreadPool& pool = poolFor(N);
  std::vector<std::pair<std::pair<T, T>, int>> recs;
  std::list<State> states;
  int nextState = 0;
  std::atomic<int> inside{0}, maxInside{0}, stateConc{0};
  g_calls = 0;
  dispenso::ParForOptions opt;
  opt.maxThreads = static_cast<uint32_t>(maxThreads);
  opt.minItemsPerChunk = static_cast<uint32_t>(minItems);
  opt.granularity = static_cast<uint32_t>(gran);
  opt.wait = wait != 0;
  opt.reuseExistingState = reuse != 0;
  auto body = [&](State& st, T a, T b) {
    if (g_calls.fetch_add(1) > kCallCap) {
      printf("OVERRUN %ld\n", g_caseNo);
      fflush(stdout);
      _exit(3);
    }
    int u = st.inUse.fetch_add(1) + 1;
    int sc = stateConc.load();
    while (u > sc && !stateConc.compare_exchange_weak(sc, u)) {
    }
    int now = inside.fetch_add(1) + 1;
    int m = maxInside.load();
    while (now > m && !maxInside.compare_exchange_weak(m, now)) {
    }
    if (rdv > 0) {
      auto t0 = std::chrono::steady_clock::now();
      while (inside.load() < rdv && maxInside.load() < rdv &&
             std::chrono::steady_clock::now() - t0 < std::chrono::milliseconds(20)) {
        std::this_thread::yield();
      }
    }
    {
      std::lock_guard<std::mutex> lk(g_mu);
      recs.push_back({{a, b}, st.idx});
    }
    inside.fetch_sub(1);
    st.inUse.fetch_sub(1);
  };
  auto gen = [&]() {
    State st;
    st.idx = nextState++;
    return st;
  };
  int callerRing = -1;
  auto core = [&]() {
    callerRing = dispenso::detail::PerPoolPerThreadInfo::ringIndex(&pool);
    dispenso::TaskSet ts(pool);
    if (mode == "s") {
      auto r = dispenso::makeChunkedRange(s, e, dispenso::ParForChunking::kStatic);
      dispenso::parallel_for(ts, states, gen, r, body, opt);
    } else if (mode == "a") {
      auto r = dispenso::makeChunkedRange(s, e, dispenso::ParForChunking::kAdaptive);
      dispenso::parallel_for(ts, states, gen, r, body, opt);
    } else {
      T ch = parseT<T>(chs);
      auto r = dispenso::makeChunkedRange(s, e, ch);
      dispenso::parallel_for(ts, states, gen, r, body, opt);
    }
    ts.wait();
  };
  if (inpool > 0 && N > 0) {
    // park every worker in one force-queued task; the one with the wanted ring index issues the parallel_for
    const int want = (inpool - 1) % N;
    std::atomic<int> arrived{0}, finished{0};
    std::atomic<bool> claimed{false};
    for (int i = 0; i < N; ++i) {
      pool.schedule(
          [&]() {
            int ring = dispenso::detail::PerPoolPerThreadInfo::ringIndex(&pool);
            arrived.fetch_add(1);
            auto t0 = std::chrono::steady_clock::now();
            bool all = true;
            while (arrived.load() < N) {
              if (std::chrono::steady_clock::now() - t0 > std::chrono::milliseconds(200)) {
                all = false;
                break;
              }
              std::this_thread::yield();
            }
            bool mine = all ? (ring == want) : true;   // rendezvous failed: whoever comes first
            bool expected = false;
            if (mine && claimed.compare_exchange_strong(expected, true)) core();
            finished.fetch_add(1);
          },
          dispenso::ForceQueuingTag());
    }
    while (finished.load() < N) std::this_thread::yield();
    if (!claimed.load()) core();   // cannot happen with distinct ring indices 0..N-1; keep the case judged anyway
  } else {
    core();
  }
  std::sort(recs.begin(), recs.end());
  printf("pf %zu", recs.size());
  for (auto& r : recs) printf(" %s %s %d", tostr(r.first.first).c_str(), tostr(r.first.second).c_str(), r.second);
  printf(" | maxconc %d stateconc %d nstates %zu ring %d\n", maxInside.load(), stateConc.load(), states.size(), callerRing);
}

struct Elem {
  std::atomic<int> cnt{0};
};

template <typename It>
static void runFeIt(It begin, size_t n, int N, long long maxThreads, int wait, std::vector<Elem>& elems,
                    std::atomic<int>& maxInside) {
  dispenso::ThreadPool& pool = poolFor(N);
  std::atomic<int> inside{0};
  dispenso::ForEachOptions opt;
  opt.maxThreads = static_cast<uint32_t>(maxThreads);
  opt.wait = wait != 0;
  dispenso::TaskSet ts(pool);
  dispenso::for_each_n(ts, begin, n, [&](Elem& el) {
    int now = inside.fetch_add(1) + 1;
    int m = maxInside.load();
    while (now > m && !maxInside.compare_exchange_weak(m, now)) {
    }
    el.cnt.fetch_add(1);
    inside.fetch_sub(1);
  }, opt);
  ts.wait();
  (void)elems;
}

static void runFe(std::istringstream& in) {
  std::string cat;
  size_t n;
  int N, wait;
  long long maxThreads;
  in >> cat >> n >> N >> maxThreads >> wait;
  std::atomic<int> maxInside{0};
  if (cat == "ra") {
    std::vector<Elem> v(n);
    runFeIt(v.begin(), n, N, maxThreads, wait, v, maxInside);
    printf("fe");
    for (auto& el : v) printf(" %d", el.cnt.load());
  } else {
    std::list<Elem> l(n);
    std::vector<Elem> dummy;
    runFeIt(l.begin(), n, N, maxThreads, wait, dummy, maxInside);
    printf("fe");
    for (auto& el : l) printf(" %d", el.cnt.load());
  }
  printf(" | maxconc %d\n", maxInside.load());
}

int main() {
  std::string line;
  while (std::getline(std::cin, line)) {
    ++g_caseNo;
    std::istringstream in(line);
    std::string cmd;
    in >> cmd;
    if (cmd == "scs") {
      long long items, chunks;
      in >> items >> chunks;
      auto c = dispenso::detail::staticChunkSize(items, chunks);
      printf("scs %lld %lld\n", (long long)c.transitionTaskIndex, (long long)c.ceilChunkSize);
    } else if (cmd == "scg") {
      long long items, chunks, g;
      in >> items >> chunks >> g;
      auto c = dispenso::detail::staticChunkSizeGranular(items, chunks, static_cast<uint32_t>(g));
      printf("scg %lld %lld\n", (long long)c.transitionTaskIndex, (long long)c.ceilChunkSize);
    } else if (cmd == "pf") {
      int kn;
      in >> kn;
      switch (kn) {
        case 0: runPf<int8_t>(in); break;
        case 1: runPf<uint8_t>(in); break;
        case 2: runPf<int16_t>(in); break;
        case 3: runPf<uint16_t>(in); break;
        case 4: runPf<int32_t>(in); break;
        case 5: runPf<uint32_t>(in); break;
        case 6: runPf<int64_t>(in); break;
        default: runPf<uint64_t>(in); break;
      }
    } else if (cmd == "fe") {
      runFe(in);
    } else if (cmd == "l3") {
      printf("l3 %zu\n", dispenso::CpuSet::l3CacheGroups().size());
    } else if (cmd.empty()) {
      continue;
    } else {
      printf("ERR unknown %s\n", cmd.c_str());
    }
    fflush(stdout);
  }
  g_pools.clear();
  return 0;
}
