// Event-level lockstep harness for dispenso::ThreadPool (C01, C03, C08) under harness/vsched_pool.h.
// One case per line:
//   <n0> <budget> [<finalq 0|1>] ; <prog of producer 0> ; <prog of producer 1> ; ... ; S <decision ints...>
// prog tokens (k = body kind: 0 plain, 1 body schedules one child with schedule(), 2 child with ForceQueuingTag):
//   s<k>  pool.schedule(task)                 f<k>  pool.schedule(task, ForceQueuingTag)
//   b<n>  pool.scheduleBulk(n, gen)           t<n>  TaskSet(pool).scheduleBulk(n, gen)   (ring fast path when n*4>=threads, n<=threads)
//   p<k>  pool.schedulePlaced(task, Force)    P<n>  pool.scheduleBulkPlaced(n, gen)      (friend-only API: steal rings)
//   r<n>  pool.resize(n)                      q     wait for quiescence (snapshot)
//   h<n>  hold: block (cooperatively) until n worker batch flushes ("pool.wr.sub" site 3) have been logged in total -- used by the
//         deterministic probes that must keep workers parked right after their flush (awake, counted as working)
// After its program producer 0 waits for the other producers, then (finalq = 1, default) waits for quiescence (snapshot), disposes of the task sets
// (the harness polls the central queue and rings [0, numRings_) exactly like TaskSet::wait; a set whose outstanding count is still not zero
// when nothing pollable is left is reported as "wait would hang" and leaked; every other set is destroyed) and destroys the pool.  With finalq = 0 the pool is destroyed right after the other producers
// finished, while work may still be queued (the destructor's drains run it); task sets are then leaked, never waited for.
// Output (one line):
//   events t:name:a:b ... | counts c0 c1 ... | snaps <Q|F>pos:wr:nthreads:nrings:nsteal:central:r0,r1,..:s0,s1,.. ... | ts hang=<n> |
//   n0 <n0> caps <ring cap> <steal cap> <sharing> timeouts <k> steps <k> | status S
#include <atomic>
#include <chrono>
#include <cstdio>
#include <cstdlib>
#include <deque>
#include <iostream>
#include <iterator>
#include <map>
#include <memory>
#include <sstream>
#include <string>
#include <vector>
#include <sys/wait.h>
#include <unistd.h>
#include "vsched_pool.h"
#define private public
#define protected public
#include <dispenso/thread_pool.h>
#include <dispenso/task_set.h>
#undef private
#undef protected

static vsp::PoolSched* S = nullptr;
static dispenso::ThreadPool* g_pool = nullptr;
static std::atomic<int> g_nextTask{0};
static std::vector<int> g_counts(4096, 0);
static std::vector<std::string> g_snaps;
static std::map<long, int> g_tok;

static int tokId(long p) {
  if (!p) return 0;
  auto it = g_tok.find(p);
  if (it != g_tok.end()) return it->second;
  int id = static_cast<int>(g_tok.size()) + 1;
  g_tok[p] = id;
  return id;
}

static int newTask() {
  int id = g_nextTask.fetch_add(1);
  S->logEvent("gen", id, 0, false);
  return id;
}

struct Task {
  int id, kind;
  void operator()() const {
    S->logEvent("body.begin", id, 0, true);
    g_counts[static_cast<size_t>(id)]++;
    if (kind == 1) {
      int c = newTask();
      g_pool->schedule(Task{c, 0});
    } else if (kind == 2) {
      int c = newTask();
      g_pool->schedule(Task{c, 0}, dispenso::ForceQueuingTag());
    }
    S->logEvent("body.end", id, 0, true);
  }
};

static void snapshotK(const char* kind) {
  dispenso::ThreadPool& p = *g_pool;
  std::ostringstream o;
  o << kind << S->trace.size() << ":" << p.workRemaining_.load() << ":" << p.numThreads_.load() << ":" << p.numRings_.load() << ":"
    << p.numStealRings_.load() << ":" << p.work_.size_approx() << ":";
  for (size_t i = 0; i < p.rings_.size(); ++i) o << (i ? "," : "") << p.rings_[i].size();
  o << ":";
  for (size_t i = 0; i < p.stealRings_.size(); ++i) o << (i ? "," : "") << p.stealRings_[i].size();
  g_snaps.push_back(o.str());
}

static void snapshot() { snapshotK("Q"); }

static bool polledWork() {
  dispenso::ThreadPool& p = *g_pool;
  size_t nt = static_cast<size_t>(p.numThreads_.load());
  if (nt == 0) return false;
  if (p.work_.size_approx() != 0) return true;
  for (size_t i = 0; i < p.rings_.size() && i < nt; ++i)
    if (p.rings_[i].size() != 0) return true;
  size_t ns = p.numStealRings_.load();
  for (size_t i = 0; i < p.stealRings_.size() && i < ns; ++i)
    if (p.stealRings_[i].size() != 0) return true;
  return false;
}

struct Op {
  char k;
  long a;
};

static std::vector<Op> parseProg(const std::string& s) {
  std::vector<Op> v;
  std::istringstream in(s);
  std::string tok;
  while (in >> tok) v.push_back(Op{tok[0], tok.size() > 1 ? atol(tok.c_str() + 1) : 0});
  return v;
}

static std::vector<dispenso::TaskSet*> g_sets;
static long g_finalq = 1;
static std::atomic<long> g_flushes{0};

static void runProg(size_t me, const std::vector<Op>& prog, size_t nprod, const std::vector<int>& prodTids) {
  dispenso::ThreadPool& pool = *g_pool;
  for (const Op& o : prog) {
    switch (o.k) {
      case 's': { int id = newTask(); pool.schedule(Task{id, static_cast<int>(o.a)}); break; }
      case 'f': { int id = newTask(); pool.schedule(Task{id, static_cast<int>(o.a)}, dispenso::ForceQueuingTag()); break; }
      case 'p': { int id = newTask(); pool.schedulePlaced(Task{id, static_cast<int>(o.a)}, dispenso::ForceQueuingTag()); break; }
      case 'b': pool.scheduleBulk(static_cast<size_t>(o.a), [](size_t) { return Task{newTask(), 0}; }); break;
      case 'P': pool.scheduleBulkPlaced(static_cast<size_t>(o.a), [](size_t) { return Task{newTask(), 0}; }); break;
      case 't': {
        if (!g_sets[me]) g_sets[me] = new dispenso::TaskSet(pool);
        g_sets[me]->scheduleBulk(static_cast<size_t>(o.a), [](size_t) { return Task{newTask(), 0}; });
        break;
      }
      case 'r': pool.resize(static_cast<ssize_t>(o.a)); break;
      case 'q': S->waitQuiescent(); break;
      case 'h': { long n = o.a; S->blockUntil([n]() { return g_flushes.load() >= n; }, "hold.done"); break; }
      default: break;
    }
  }
  if (me != 0) return;
  std::vector<int> others(prodTids.begin() + 1, prodTids.end());
  S->blockUntil([others]() {
    for (int t : others)
      if (!S->finished(t)) return false;
    return true;
  }, "producers.joined");
  if (g_finalq) S->waitQuiescent();
  // TaskSet::wait polls the central queue and rings [0, numRings_) itself until the set's outstanding count is zero.  The same polling
  // is done here with the pool's own functions; if the count is still not zero when nothing pollable is left, wait() would spin forever
  // (task stranded or lost): count it and leak the set.  Otherwise the set is destroyed for real (its destructor's wait returns at once).
  int hang = 0;
  for (size_t i = 0; i < nprod && g_finalq; ++i) {
    if (!g_sets[i]) continue;
    size_t startRing = 0;
    while (g_sets[i]->outstandingTaskCount_.load() != 0) {
      if (!(g_pool->tryExecuteNext() || g_pool->tryExecuteNextFromRings(startRing))) break;
    }
    if (g_sets[i]->outstandingTaskCount_.load() != 0) ++hang;
    else delete g_sets[i];
  }
  g_snaps.push_back("hang=" + std::to_string(hang));
  delete g_pool;
}

static void runCase(const std::string& line) {
  std::vector<std::string> parts;
  std::stringstream ss(line);
  std::string part;
  while (std::getline(ss, part, ';')) parts.push_back(part);
  std::istringstream hd(parts[0]);
  long n0, budget;
  hd >> n0 >> budget;
  if (!(hd >> g_finalq)) g_finalq = 1;
  std::vector<std::vector<Op>> progs;
  std::vector<long> sched;
  for (size_t i = 1; i < parts.size(); ++i) {
    std::istringstream ps(parts[i]);
    std::string first;
    ps >> first;
    if (first == "S") {
      long x;
      while (ps >> x) sched.push_back(x);
    } else {
      progs.push_back(parseProg(parts[i]));
    }
  }
  vsp::PoolSched sch(sched, budget);
  S = &sch;
  sch.onQuiescent = snapshot;
  sch.polledWork = polledWork;
  sch.onEvent = [](const vsp::Ev& e) {
    if (e.name == "pool.dtor.end") snapshotK("F");
    if (e.name == "pool.wr.sub" && e.b == 3) g_flushes.fetch_add(1);
  };
  g_sets.assign(progs.size(), nullptr);
  // producers first (tids 0..P-1), then the pool (its workers enrol as P, P+1, ...)
  std::vector<int> prodTids;
  for (size_t t = 0; t < progs.size(); ++t) prodTids.push_back(static_cast<int>(t));
  for (size_t t = 0; t < progs.size(); ++t)
    sch.spawn([&progs, t, &prodTids]() { runProg(t, progs[t], progs.size(), prodTids); });
  g_pool = new dispenso::ThreadPool(static_cast<size_t>(n0));
  sch.runPool();
  // output (every thread is parked or finished)
  printf("events");
  for (auto& e : sch.trace) {
    long a = e.a;
    if (e.name == "pool.enq.central") a = tokId(a);
    printf(" %d:%s:%ld:%ld", e.tid, e.name.c_str(), a, e.b);
  }
  printf(" | counts");
  int nt = g_nextTask.load();
  for (int i = 0; i < nt; ++i) printf(" %d", g_counts[static_cast<size_t>(i)]);
  printf(" | snaps");
  int hang = -1;
  for (auto& s : g_snaps) {
    if (s.compare(0, 5, "hang=") == 0) hang = atoi(s.c_str() + 5);
    else printf(" %s", s.c_str());
  }
  printf(" | ts hang=%d | n0 %ld caps %zu %zu %zu timeouts %ld steps %zu | status %s\n", hang, n0, dispenso::ThreadPool::Ring::capacity(),
         dispenso::ThreadPool::kStealRingCapacity, dispenso::ThreadPool::kStealRingSharing, sch.timeoutSteps, sch.steps_.size(), sch.status().c_str());
  fflush(stdout);
}

int main() {
  std::string line;
  while (std::getline(std::cin, line)) {
    if (line.empty()) continue;
    fflush(stdout);
    pid_t pid = fork();
    if (pid == 0) {
      alarm(30);
      runCase(line);
      fflush(stdout);
      _exit(0);
    }
    int st = 0;
    waitpid(pid, &st, 0);
    if (!WIFEXITED(st) || WEXITSTATUS(st) != 0) {
      printf("CRASH status %d\n", st);
      fflush(stdout);
    }
  }
  return 0;
}
