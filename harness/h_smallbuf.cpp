// Lockstep harness for detail::SmallBufferAllocator<kChunkSize> (C41) under harness/vsched.h.
// The real allocator code is compiled into this TU (dispenso/small_buffer_allocator.cpp is #included, not copied) with
// -DDISPENSO_VERIF -DDISPENSO_VERIF_SBA so that (a) its opt-in hook points are live and (b) classes with few chunks per slab
// (kChunkSize 4096: 3 ideal / 12 per slab; 8192: 1 / 6) can be instantiated next to the library's 256-byte class (32 / 128),
// which is driven through the public API allocSmallBuffer<256> / deallocSmallBuffer<256> / approxBytesAllocatedSmallBuffer<256>.
//
// One case per line:   <chunk 256|2048|4096|8192> <budget> ; <prog t0> ; <prog t1> ; ... ; S <schedule ints...>
//   or  probe <chunk 4..256|2048|4096|8192> <j> <n>   (implementation-only: helper thread allocates j and exits, a second thread allocates n and holds)
//   or  consts <chunk>                                (the class constants kIdealNumTLBuffers,kBuffersPerMalloc,kMallocBytes of the real code)
// prog tokens: A alloc   D<k> dealloc the (k mod #live)-th live block (any thread's)   B bytesAllocated   X thread exit
//   (a program is run on fresh OS threads: X ends the current one -- its thread_local destructors flush the cache -- and the rest
//    of the program continues on a new OS thread with empty thread-locals; every program ends with an X)
// Output: steps t:site ... | results t:tag=v ... | blocked | lock L slabs N maxocc M bad K consts I,P,M hints n,b,..;n,..; ev a<id> d<id> .. | status S
//   block ids = slab * perMalloc + index, slab = position in backingStore (never raw addresses);
//   maxocc = maximum number of threads simultaneously between a successful lock acquisition and their store(0), counted by this
//            harness at its own wrapper around the hook points;  bad = alloc results failing size/alignment/in-slab/ownership checks;
//   hints = for each executed sba.grab.dequeue step, in trace order, the blocks it obtained;  ev = global alloc/dealloc order.
#include <algorithm>
#include <array>
#include <atomic>
#include <cassert>
#include <chrono>
#include <climits>
#include <condition_variable>
#include <cstddef>
#include <cstdint>
#include <cstdio>
#include <cstdlib>
#include <cstring>
#include <functional>
#include <iostream>
#include <limits>
#include <map>
#include <memory>
#include <mutex>
#include <new>
#include <set>
#include <sstream>
#include <string>
#include <thread>
#include <tuple>
#include <type_traits>
#include <utility>
#include <vector>
#include <sys/wait.h>
#include <unistd.h>
#define private public
#define protected public
#include <dispenso/small_buffer_allocator.cpp>
#undef private
#undef protected
#define dispenso_verif_point vs_base_verif_point
#include "vsched.h"
#undef dispenso_verif_point

namespace {
std::mutex g_mu;   // harness-side bookkeeping (threads are serialised by vsched; the mutex is for hygiene)
int g_occ = 0, g_maxocc = 0, g_bad = 0;
std::vector<std::vector<long>> g_hints;   // per executed dequeue step
std::map<int, int> g_pendingDeq;          // tid -> index into g_hints of its unresolved dequeue
std::vector<std::string> g_ev;
std::vector<char*> g_live;                // live (user-owned) blocks in allocation order
std::set<char*> g_liveSet;
}  // namespace

extern "C" void dispenso_verif_point(const char* site, const void* addr) {
  if (!vs::g_sched || vs::t_self < 0) return;
  int t = vs::t_self;
  {
    std::lock_guard<std::mutex> lk(g_mu);
    if (strcmp(site, "sba.grab.fetch_add") == 0) {   // arriving here means the preceding dequeue got nothing
      auto it = g_pendingDeq.find(t);
      if (it != g_pendingDeq.end()) g_pendingDeq.erase(it);
    }
    if (strcmp(site, "sba.grab.push_back") == 0 || strcmp(site, "sba.bytes.size") == 0) {   // the lock was just acquired
      ++g_occ;
      if (g_occ > g_maxocc) g_maxocc = g_occ;
    }
  }
  vs::g_sched->point(site, addr);
  {
    std::lock_guard<std::mutex> lk(g_mu);
    if (strcmp(site, "sba.grab.dequeue") == 0) {
      g_pendingDeq[t] = static_cast<int>(g_hints.size());
      g_hints.emplace_back();
    }
    if (strcmp(site, "sba.grab.store") == 0 || strcmp(site, "sba.bytes.store") == 0) --g_occ;   // about to store(0)
  }
}

struct Op {
  char k;
  long a = 0;
};

static std::vector<Op> parseProg(const std::string& s) {
  std::vector<Op> v;
  std::istringstream in(s);
  std::string tok;
  while (in >> tok) {
    Op o;
    o.k = tok[0];
    if (tok.size() > 1) o.a = atol(tok.substr(1).c_str());
    v.push_back(o);
  }
  if (v.empty() || v.back().k != 'X') v.push_back(Op{'X', 0});
  return v;
}

template <size_t kChunk>
struct Api {   // library classes (<= 256 bytes) go through the public API (incl. getOrdinal dispatch); the extra classes directly
  using A = dispenso::detail::SmallBufferAllocator<kChunk>;
  using Lib = std::integral_constant<bool, (kChunk <= dispenso::kMaxSmallBufferSize)>;
  static char* alloc(std::true_type) { return dispenso::allocSmallBuffer<(kChunk <= 256 ? kChunk : 256)>(); }
  static char* alloc(std::false_type) { return A::alloc(); }
  static void dealloc(char* p, std::true_type) { dispenso::deallocSmallBuffer<(kChunk <= 256 ? kChunk : 256)>(p); }
  static void dealloc(char* p, std::false_type) { A::dealloc(p); }
  static size_t bytes(std::true_type) { return dispenso::approxBytesAllocatedSmallBuffer<(kChunk <= 256 ? kChunk : 256)>(); }
  static size_t bytes(std::false_type) { return A::bytesAllocated(); }
  static char* alloc() { return alloc(Lib()); }
  static void dealloc(char* p) { dealloc(p, Lib()); }
  static size_t bytes() { return bytes(Lib()); }
};

template <size_t kChunk>
static long blockId(char* p, bool* ok) {
  using A = typename Api<kChunk>::A;
  auto& g = dispenso::detail::getSmallBufferGlobals<kChunk>();
  for (size_t s = 0; s < g.backingStore.size(); ++s) {
    char* base = g.backingStore[s];
    if (p >= base && p < base + A::kMallocBytes) {
      size_t off = static_cast<size_t>(p - base);
      if (off % kChunk != 0 || off / kChunk >= A::kBuffersPerMalloc || reinterpret_cast<uintptr_t>(p) % kChunk != 0) *ok = false;
      return static_cast<long>(s * A::kBuffersPerMalloc + off / kChunk);
    }
  }
  *ok = false;
  return -1000000;
}

template <size_t kChunk>
static void runCase(long budget, const std::vector<std::vector<Op>>& progs, const std::vector<long>& sched) {
  using A = typename Api<kChunk>::A;
  vs::Sched S(sched, budget, false);
  for (size_t t = 0; t < progs.size(); ++t) {
    S.spawn([&S, &progs, t]() {
      const std::vector<Op>& prog = progs[t];
      size_t i = 0;
      while (i < prog.size()) {
        std::thread h([&]() {
          vs::t_self = static_cast<int>(t);
          while (i < prog.size()) {
            Op o = prog[i++];
            S.point("h.op", nullptr);
            if (o.k == 'X') return;   // OS thread exit: ~PerThreadQueuingData flushes the cache (if the thread registered)
            if (o.k == 'A') {
              auto bnc = A::buffersAndCount();
              bool refill = std::get<1>(bnc) == 0;
              char* p = Api<kChunk>::alloc();
              std::lock_guard<std::mutex> lk(g_mu);
              bool ok = true;
              if (refill) {   // what the refill put into the thread-local buffer, in buffer order (the returned block is the last)
                size_t cnt = std::get<1>(bnc) + 1;
                std::vector<long> got;
                for (size_t j = 0; j < cnt; ++j) got.push_back(blockId<kChunk>(std::get<0>(bnc)[j], &ok));
                for (long b : got) S.result("grab", b);
                auto it = g_pendingDeq.find(static_cast<int>(t));
                if (it != g_pendingDeq.end()) {   // the refill came from the last dequeue
                  g_hints[it->second] = got;
                  g_pendingDeq.erase(it);
                }
              }
              long id = blockId<kChunk>(p, &ok);
              if (p == nullptr) ok = false;
              if (g_liveSet.count(p)) ok = false;   // handed out while still live
              if (ok) memset(p, 0xA5, kChunk);      // the block must be writable over its whole size
              if (!ok) ++g_bad;
              g_live.push_back(p);
              g_liveSet.insert(p);
              g_ev.push_back("a" + std::to_string(id));
              S.result("alloc", id);
            } else if (o.k == 'D') {
              char* p = nullptr;
              long id = -1;
              {
                std::lock_guard<std::mutex> lk(g_mu);
                if (!g_live.empty()) {
                  size_t n = g_live.size();
                  size_t idx = static_cast<size_t>(((o.a % static_cast<long>(n)) + static_cast<long>(n)) % static_cast<long>(n));
                  p = g_live[idx];
                  g_live.erase(g_live.begin() + static_cast<long>(idx));
                  g_liveSet.erase(p);
                  bool ok = true;
                  id = blockId<kChunk>(p, &ok);
                  g_ev.push_back("d" + std::to_string(id));
                }
              }
              S.result("dealloc", id);
              if (p) Api<kChunk>::dealloc(p);
            } else if (o.k == 'B') {
              size_t b = Api<kChunk>::bytes();
              S.result("bytes", static_cast<long>(b));
            }
          }
        });
        h.join();
      }
    });
  }
  S.run();
  auto& g = dispenso::detail::getSmallBufferGlobals<kChunk>();
  std::ostringstream ex;
  ex << "lock " << g.backingStoreLock.load() << " slabs " << g.backingStore.size() << " maxocc " << g_maxocc << " bad " << g_bad
     << " consts " << A::kIdealNumTLBuffers << "," << A::kBuffersPerMalloc << "," << A::kMallocBytes << " hints ";
  for (auto& h : g_hints) {
    ex << h.size();
    for (long b : h) ex << "," << b;
    ex << ";";
  }
  ex << " ev";
  for (auto& e : g_ev) ex << " " << e;
  S.print(ex.str());
}

// implementation-only probe (no scheduler, no model): a helper OS thread allocates j blocks and exits (its partially filled cache is
// flushed into the central store), then a second thread allocates n blocks and HOLDS them all, draining the central store through
// several refills, the last of which is short.  Every block must be non-null, chunk-aligned, inside a slab and not live.
template <size_t kChunk>
static void probeCase(long j, long n) {
  using A = typename Api<kChunk>::A;
  std::set<char*> live;
  long bad = 0, firstbad = -1, idx = 0;
  const char* reason = "none";
  auto check = [&](char* p) {
    bool ok = true;
    const char* why = "none";
    if (p == nullptr) { ok = false; why = "null"; }
    else {
      bool inSlab = true;
      (void)blockId<kChunk>(p, &inSlab);
      if (!inSlab) { ok = false; why = "misaligned-or-outside-slab"; }
      else if (live.count(p)) { ok = false; why = "handed-out-while-live"; }
    }
    if (ok) { memset(p, 0xA5, kChunk); live.insert(p); }
    else { ++bad; if (firstbad < 0) { firstbad = idx; reason = why; } }
    ++idx;
  };
  std::thread helper([&]() { for (long k = 0; k < j; ++k) check(Api<kChunk>::alloc()); });
  helper.join();
  std::thread mainT([&]() { for (long k = 0; k < n; ++k) check(Api<kChunk>::alloc()); });
  mainT.join();
  auto& g = dispenso::detail::getSmallBufferGlobals<kChunk>();
  printf("probe chunk %zu consts %zu,%zu,%zu helper %ld allocs %ld bad %ld firstbad %ld reason %s slabs %zu\n", kChunk,
         A::kIdealNumTLBuffers, A::kBuffersPerMalloc, A::kMallocBytes, j, n, bad, firstbad, reason, g.backingStore.size());
  fflush(stdout);
}

template <size_t kChunk>
static void constsCase() {
  using A = typename Api<kChunk>::A;
  printf("consts chunk %zu %zu,%zu,%zu\n", kChunk, A::kIdealNumTLBuffers, A::kBuffersPerMalloc, A::kMallocBytes);
  fflush(stdout);
}

#define FOR_CHUNK(chunk, CALL)                     \
  switch (chunk) {                                 \
    case 4: CALL(4); break;                        \
    case 8: CALL(8); break;                        \
    case 16: CALL(16); break;                      \
    case 32: CALL(32); break;                      \
    case 64: CALL(64); break;                      \
    case 128: CALL(128); break;                    \
    case 256: CALL(256); break;                    \
    case 2048: CALL(2048); break;                  \
    case 8192: CALL(8192); break;                  \
    default: CALL(4096); break;                    \
  }

int main() {
  std::string line;
  while (std::getline(std::cin, line)) {
    if (line.empty()) continue;
    fflush(stdout);
    pid_t pid = fork();
    if (pid == 0) {
      alarm(20);
      if (line.compare(0, 5, "probe") == 0 || line.compare(0, 6, "consts") == 0) {
        bool isProbe = line[0] == 'p';
        std::istringstream hd(line.substr(isProbe ? 5 : 6));
        long chunk = 0, j = 0, n = 0;
        hd >> chunk >> j >> n;
#define CALL_PROBE(N) probeCase<N>(j, n)
#define CALL_CONSTS(N) constsCase<N>()
        if (isProbe) { FOR_CHUNK(chunk, CALL_PROBE) } else { FOR_CHUNK(chunk, CALL_CONSTS) }
        fflush(stdout);
        _exit(0);
      }
      std::vector<std::string> parts;
      std::stringstream ss(line);
      std::string part;
      while (std::getline(ss, part, ';')) parts.push_back(part);
      std::istringstream hd(parts[0]);
      long chunk, budget;
      hd >> chunk >> budget;
      std::vector<std::vector<Op>> progs;
      std::vector<long> sched;
      for (size_t i = 1; i < parts.size(); ++i) {
        std::istringstream ps(parts[i]);
        std::string first;
        ps >> first;
        if (first == "S") {
          long x;
          while (ps >> x) sched.push_back(x);
        } else {
          progs.push_back(parseProg(parts[i]));
        }
      }
      if (chunk == 256) runCase<256>(budget, progs, sched);
      else if (chunk == 8192) runCase<8192>(budget, progs, sched);
      else if (chunk == 2048) runCase<2048>(budget, progs, sched);
      else runCase<4096>(budget, progs, sched);
      fflush(stdout);
      _exit(0);
    }
    int st = 0;
    waitpid(pid, &st, 0);
    if (!WIFEXITED(st) || WEXITSTATUS(st) != 0) {
      printf("CRASH status %d\n", st);
      fflush(stdout);
    }
  }
  return 0;
}
