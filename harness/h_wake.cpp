// Lockstep harness for detail::PoolWakeState / detail::EpochWaiter (C07, C09) under harness/vsched.h.
// The REAL classes are used standalone; enrolled threads play workers and producers by running op scripts.
// One case per line:
//   <numThreads> <groupSize> <timeouts 0|1> <budget> ; <prog t0> ; <prog t1> ; ... ; S <schedule ints...>
// prog tokens (i = worker index, g = group):
//   E<i> enterSleep   X<i> exitSleep   R<i> running(i) load   W<i> ep = waiterFor(i).waitFor(ep)   U<i> ep = waiterFor(i).current()
//   K<i> park cycle as in threadLoopImpl: enterSleep; if(!running){exitSleep; end of script}; waitFor(ep); exitSleep
//   T<i> running(i) = false   C claimAndWakeOne   Y<i> tryClaimSleeper   D<c> cascadeWakeSeed(c)   G<c> wakeRange(c)
//   A wakeAll   Q<g> cascadeWake(g)   N totalSleeping()
//   r<i> push a task into locality ring i   c push to the central queue   s<j> push to steal ring j   p<i> worker i polls (own ring,
//   central, own steal ring) -- the tiers are harness-side counters (abstract "task placed in tier X" facts), one step each.
// Output (one line): steps t:site ... | results t:tag=v ... | blocked t ... |
//                    masks m.. epochs e.. total T next G cur t:opidx.. rings r.. central C steals s.. | status S
#include <atomic>
#include <chrono>
#include <cstdio>
#include <cstdlib>
#include <iostream>
#include <memory>
#include <sstream>
#include <string>
#include <vector>
#include <sys/wait.h>
#include <unistd.h>
#define private public
#define protected public
#include <dispenso/detail/thread_pool_wake.h>
#undef private
#undef protected
#include "vsched.h"

struct Op {
  char k;
  long a = 0;
};

static std::vector<Op> parseProg(const std::string& s) {
  std::vector<Op> v;
  std::istringstream in(s);
  std::string tok;
  while (in >> tok) {
    Op o;
    o.k = tok[0];
    if (tok.size() > 1) o.a = atol(tok.c_str() + 1);
    v.push_back(o);
  }
  return v;
}

struct World {
  dispenso::detail::PoolWakeState& ws;
  vs::Sched& S;
  int n, gs;
  std::vector<int> running;   // accessed only at h.* points (one thread runs at a time)
  std::vector<int> rings, steals;
  int central = 0;
  std::vector<std::atomic<int>> cur;
  World(dispenso::detail::PoolWakeState& w, vs::Sched& s, int n_, int gs_, size_t nthr)
      : ws(w), S(s), n(n_), gs(gs_), running(n_, 1), rings(n_, 0), steals((n_ + gs_ - 1) / gs_ + 1, 0), cur(nthr) {}

  void run(int tid, const std::vector<Op>& prog) {
    uint32_t ep = 0;
    const uint64_t kLong = 3600ull * 1000000ull;
    for (size_t k = 0; k < prog.size(); ++k) {
      cur[tid].store(static_cast<int>(k));
      const Op& o = prog[k];
      int i = static_cast<int>(o.a);
      switch (o.k) {
        case 'E': ws.enterSleep(i); break;
        case 'X': ws.exitSleep(i); break;
        case 'R': S.point("h.running.load", &running[i]); S.result("running", running[i]); break;
        case 'W': ep = ws.waiterFor(i).waitFor(ep, kLong); S.result("waitFor", ep); break;
        case 'U': ep = ws.waiterFor(i).current(); S.result("current", ep); break;
        case 'K': {
          ws.enterSleep(i);
          S.point("h.running.load", &running[i]);
          if (!running[i]) {
            ws.exitSleep(i);
            S.result("park", 0);
            cur[tid].store(static_cast<int>(prog.size()));
            return;
          }
          ep = ws.waiterFor(i).waitFor(ep, kLong);
          ws.exitSleep(i);
          S.result("park", 1);
          break;
        }
        case 'T': S.point("h.stop.store", &running[i]); running[i] = 0; break;
        case 'C': S.result("claim", ws.claimAndWakeOne()); break;
        case 'Y': S.result("tryclaim", ws.tryClaimSleeper(i) ? 1 : 0); break;
        case 'D': S.result("seed", ws.cascadeWakeSeed(i) ? 1 : 0); break;
        case 'G': ws.wakeRange(i); break;
        case 'A': ws.wakeAll(); break;
        case 'Q': ws.cascadeWake(i); break;
        case 'N': S.result("total", ws.totalSleeping()); break;
        case 'r': S.point("h.push", &rings[i]); rings[i]++; break;
        case 'c': S.point("h.push", &central); central++; break;
        case 's': S.point("h.push", &steals[i]); steals[i]++; break;
        case 'p': {
          S.point("h.poll", &rings[i]);
          int r = 0;
          if (rings[i] > 0) { rings[i]--; r = 1; }
          else if (central > 0) { central--; r = 2; }
          else if (steals[i / gs] > 0) { steals[i / gs]--; r = 3; }
          S.result("poll", r);
          break;
        }
        default: break;
      }
    }
    cur[tid].store(static_cast<int>(prog.size()));
  }
};

static void runCase(int n, int gs, int timeouts, long budget, const std::vector<std::vector<Op>>& progs, const std::vector<long>& sched) {
  dispenso::detail::PoolWakeState ws(n, gs);
  vs::Sched S(sched, budget, timeouts != 0);
  World W(ws, S, n, gs, progs.size());
  for (size_t t = 0; t < progs.size(); ++t) {
    W.cur[t].store(0);
    S.spawn([&W, &progs, t]() { W.run(static_cast<int>(t), progs[t]); });
  }
  S.run();
  std::ostringstream ex;
  ex << "masks";
  for (int g = 0; g < ws.numGroups(); ++g) ex << " " << ws.groupStates_[static_cast<size_t>(g)].sleepMask.load();
  ex << " epochs";
  for (int g = 0; g < ws.numGroups(); ++g) ex << " " << ws.waiterBlocks_[static_cast<size_t>(g)].waiter.epoch_.load();
  ex << " total " << ws.totalSleeping_.load() << " next " << ws.nextWakeGroup_.load() << " cur";
  for (size_t t = 0; t < progs.size(); ++t) ex << " " << t << ":" << W.cur[t].load();
  ex << " rings";
  for (int i = 0; i < n; ++i) ex << " " << W.rings[i];
  ex << " central " << W.central << " steals";
  for (int g = 0; g < ws.numGroups(); ++g) ex << " " << W.steals[g];
  S.print(ex.str());
}

int main() {
  std::string line;
  while (std::getline(std::cin, line)) {
    if (line.empty()) continue;
    fflush(stdout);
    pid_t pid = fork();
    if (pid == 0) {
      alarm(30);
      std::vector<std::string> parts;
      std::stringstream ss(line);
      std::string part;
      while (std::getline(ss, part, ';')) parts.push_back(part);
      std::istringstream hd(parts[0]);
      int n, gs, timeouts;
      long budget;
      hd >> n >> gs >> timeouts >> budget;
      std::vector<std::vector<Op>> progs;
      std::vector<long> sched;
      for (size_t i = 1; i < parts.size(); ++i) {
        std::istringstream ps(parts[i]);
        std::string first;
        ps >> first;
        if (first == "S") {
          long x;
          while (ps >> x) sched.push_back(x);
        } else {
          progs.push_back(parseProg(parts[i]));
        }
      }
      runCase(n, gs, timeouts, budget, progs, sched);
      fflush(stdout);
      _exit(0);
    }
    int st = 0;
    waitpid(pid, &st, 0);
    if (!WIFEXITED(st) || WEXITSTATUS(st) != 0) {
      printf("CRASH status %d\n", st);
      fflush(stdout);
    }
  }
  return 0;
}
