// Correspondence harness for the task graph (C30, C31): drives the REAL dispenso graph / executors /
// ForwardPropagator from /repo on cases read from stdin (one per line) and prints one canonical line per case.
//
// case  :=  ("N" | "B") op*          N = dispenso::Graph (Node), B = dispenso::BiPropGraph (BiPropNode)
// op    :=  s            graph.addSubgraph()
//           n <sg>       subgraph(sg).addNode(f)   (sg 0 == graph.addNode); the node gets the next id 1,2,3,...
//           d <a> <b>    node a .dependsOn(node b)            (edge b -> a)
//           b <a> <b>    node a .biPropDependsOn(node b)      (B only)
//           c <sg>       subgraph(sg).clear()
//           A            setAllNodesIncomplete(graph)
//           i <a> / k <a>   node a .setIncomplete() / .setCompleted()
//           P            ForwardPropagator()(graph)
//           x <e> <t>    execute: e = 0 SingleThreadExecutor, 1 ParallelForExecutor(TaskSet), 2 ConcurrentTaskSetExecutor,
//                        3 ParallelForExecutor(ConcurrentTaskSet); t = threads of a fresh ThreadPool
//           E <a>        run the case's single-thread executor with node a throwing; catch; setAllNodesIncomplete
//           F <e> <t> <a>  the same with the case's parallel executor e (1..3) on a fresh t-thread pool
//           S            dump the structure       (executor and propagator objects are per CASE, so every later run reuses them)
// output:   segments joined by " | ", in op order:
//           x ->  "X <e> <t> id:start:finish ..."  (records sorted by start sequence number)  followed by
//                 "C id:cnt ..."   (all live nodes in forEachNode order; cnt printed as signed: kCompleted = -1)
//           S ->  "G id:np:cnt:m1.m2.m3:d1.d2 ... / ..."  (subgraphs separated by "/", nodes in forEachNode order;
//                 m* = ids of the members of the set the node points to (sorted; 0 = dangling member), d* = dependents in order;
//                 empty lists printed as "-")
#include <algorithm>
#include <atomic>
#include <cstdio>
#include <cstdlib>
#include <iostream>
#include <map>
#include <memory>
#include <mutex>
#include <sstream>
#include <string>
#include <thread>
#include <vector>
#define private public
#define protected public
#include <stdexcept>
#include <dispenso/graph.h>
#include <dispenso/graph_executor.h>
#include <dispenso/task_set.h>
#include <dispenso/thread_pool.h>
#undef private
#undef protected

struct Rec {
  int id;
  long s, f;
};
static std::atomic<long> g_seq{0};
static std::mutex g_mu;
static std::vector<Rec> g_recs;
static const size_t kRecCap = 100000;

static std::atomic<int> g_throwId{0};   // op E: the node with this id throws (once) instead of running
struct Fn {
  int id;
  void operator()() const {
    if (id == g_throwId.load()) {
      g_throwId.store(0);
      throw std::runtime_error("node functor");
    }
    long s = g_seq.fetch_add(1);
    unsigned h = static_cast<unsigned>(id) * 2654435761u;
    if ((h >> 9) & 1) std::this_thread::yield();
    volatile unsigned spin = (h >> 11) & 255;
    while (spin) spin = spin - 1;
    long f = g_seq.fetch_add(1);
    std::lock_guard<std::mutex> l(g_mu);
    if (g_recs.size() < kRecCap) g_recs.push_back({id, s, f});
  }
};

static long long asSigned(size_t v) {
  return static_cast<long long>(v);
}

template <class N>
struct Members {
  static void print(std::ostream&, const N*, const std::map<const dispenso::Node*, int>&) {}
};
template <>
struct Members<dispenso::BiPropNode> {
  static void print(std::ostream& os, const dispenso::BiPropNode* n, const std::map<const dispenso::Node*, int>& idOf) {
    if (!n->biPropSet_ || n->biPropSet_->empty()) {
      os << "-";
      return;
    }
    std::vector<int> ids;
    for (const dispenso::BiPropNode* m : *n->biPropSet_) {
      auto it = idOf.find(m);
      ids.push_back(it == idOf.end() ? 0 : it->second);
    }
    std::sort(ids.begin(), ids.end());
    for (size_t i = 0; i < ids.size(); ++i) os << (i ? "." : "") << ids[i];
  }
};
template <>
struct Members<dispenso::Node> {
  static void print(std::ostream& os, const dispenso::Node*, const std::map<const dispenso::Node*, int>&) {
    os << "-";
  }
};

static void biprop(dispenso::Node&, dispenso::Node&) {}
static void biprop(dispenso::BiPropNode& a, dispenso::BiPropNode& b) {
  a.biPropDependsOn(b);
}

// ---- graph moves (ops M / m) ----
template <typename G>
__attribute__((noinline)) static void moveRoundTripAssign(G& g) {
  G tmp;
  tmp = std::move(g);
  g = std::move(tmp);
}
template <typename G>
__attribute__((noinline)) static void moveRoundTripConstruct(G& g) {
  G tmp(std::move(g));
  g = std::move(tmp);
}
__attribute__((noinline)) static void scrubStack() {
  volatile char buf[32768];
  for (size_t i = 0; i < sizeof(buf); ++i) buf[i] = 0;
}

template <class G>
static void runCase(std::istringstream& in, std::ostream& os) {
  using N = typename G::NodeType;
  G g;
  dispenso::SingleThreadExecutor stEx;   // ONE executor object for all single-thread runs of the case (op x 0 and op E): executors are reusable
  dispenso::ParallelForExecutor pfEx;    // likewise ONE object per case for x 1 / x 3 / F 1 / F 3 (its wave vectors survive an aborted run)
  dispenso::ConcurrentTaskSetExecutor ctsEx;  // and for x 2 / F 2
  dispenso::ForwardPropagator fpEx;      // and ONE propagator for every op P of the case (its work lists and group set persist)
  std::vector<std::vector<int>> sgIds(1);
  std::map<int, N*> ptr;
  std::map<const dispenso::Node*, int> idOf;
  int nextId = 1;
  bool first = true;
  auto sep = [&]() {
    if (!first) os << " | ";
    first = false;
  };
  auto dumpCnt = [&]() {
    os << "C";
    g.forEachNode([&](const N& n) {
      os << " " << idOf[&n] << ":" << asSigned(n.numIncompletePredecessors_.load());
    });
  };
  std::string op;
  while (in >> op) {
    if (op == "s") {
      g.addSubgraph();
      sgIds.emplace_back();
    } else if (op == "n") {
      size_t sg;
      in >> sg;
      int id = nextId++;
      N& n = g.subgraph(sg).addNode(Fn{id});
      ptr[id] = &n;
      idOf[&n] = id;
      sgIds[sg].push_back(id);
    } else if (op == "d") {
      int a, b;
      in >> a >> b;
      ptr.at(a)->dependsOn(*ptr.at(b));
    } else if (op == "b") {
      int a, b;
      in >> a >> b;
      biprop(*ptr.at(a), *ptr.at(b));
    } else if (op == "c") {
      size_t sg;
      in >> sg;
      g.subgraph(sg).clear();
      for (int id : sgIds[sg]) {
        idOf.erase(ptr[id]);
        ptr.erase(id);
      }
      sgIds[sg].clear();
    } else if (op == "E") {
      // a run of the (reused) single-thread executor in which node a throws; the exception is caught here and every node is then marked
      // incomplete again, so the graph is in the same state as after op A whatever the aborted run had done
      int a;
      in >> a;
      g_throwId.store(a);
      try {
        stEx(g);
      } catch (const std::runtime_error&) {
      }
      g_throwId.store(0);
      setAllNodesIncomplete(g);
    } else if (op == "F") {
      // the same with a (reused) parallel executor: F <e> <t> <a>, e as in op x (1..3).  The task set records the exception, lets the
      // other tasks finish and rethrows from its wait; the executor object is left mid-run (wave vectors not consumed)
      int e, t, a;
      in >> e >> t >> a;
      g_throwId.store(a);
      {
        dispenso::ThreadPool pool(static_cast<size_t>(t));
        try {
          if (e == 1) {
            dispenso::TaskSet ts(pool);
            pfEx(ts, g);
          } else if (e == 2) {
            dispenso::ConcurrentTaskSet ts(pool);
            ctsEx(ts, g);
          } else {
            dispenso::ConcurrentTaskSet ts(pool);
            pfEx(ts, g);
          }
        } catch (const std::runtime_error&) {
        }
      }
      g_throwId.store(0);
      setAllNodesIncomplete(g);
    } else if (op == "A") {
      setAllNodesIncomplete(g);  // declared only as a friend of Node: found by ADL
    } else if (op == "i") {
      int a;
      in >> a;
      ptr.at(a)->setIncomplete();
    } else if (op == "k") {
      int a;
      in >> a;
      ptr.at(a)->setCompleted();
    } else if (op == "P") {
      fpEx(g);
    } else if (op == "x") {
      int e, t;
      in >> e >> t;
      {
        std::lock_guard<std::mutex> l(g_mu);
        g_recs.clear();
      }
      g_seq.store(0);
      if (e == 0) {
        stEx(g);
      } else {
        dispenso::ThreadPool pool(static_cast<size_t>(t));
        if (e == 1) {
          dispenso::TaskSet ts(pool);
          pfEx(ts, g);
        } else if (e == 2) {
          dispenso::ConcurrentTaskSet ts(pool);
          ctsEx(ts, g);
        } else {
          dispenso::ConcurrentTaskSet ts(pool);
          pfEx(ts, g);
        }
      }
      std::vector<Rec> recs;
      {
        std::lock_guard<std::mutex> l(g_mu);
        recs = g_recs;
      }
      std::sort(recs.begin(), recs.end(), [](const Rec& a, const Rec& b) { return a.s < b.s; });
      sep();
      os << "X " << e << " " << t;
      for (const Rec& r : recs) os << " " << r.id << ":" << r.s << ":" << r.f;
      os << " | ";
      dumpCnt();
    } else if (op == "S" || op == "M" || op == "m") {
      // M / m: move the whole graph away and back (M: two move assignments; m: move construction + move assignment) in a deeper stack
      // frame, overwrite that dead frame, then dump: nodes keep their addresses, so the structure must read exactly as before, and every
      // later op (clear() walks graph_->subgraphs_) works on the moved-to object
      if (op == "M") moveRoundTripAssign(g);
      if (op == "m") moveRoundTripConstruct(g);
      if (op != "S") scrubStack();
      sep();
      os << "G";
      bool firstSg = true;
      for (const auto& sg : g.subgraphs_) {
        if (!firstSg) os << " /";
        firstSg = false;
        for (const N* n : sg.nodes_) {
          os << " " << idOf[n] << ":" << asSigned(n->numPredecessors_) << ":" << asSigned(n->numIncompletePredecessors_.load()) << ":";
          Members<N>::print(os, n, idOf);
          os << ":";
          if (n->dependents_.empty()) os << "-";
          size_t k = 0;
          for (const dispenso::Node* d : n->dependents_) {
            auto it = idOf.find(d);
            os << (k++ ? "." : "") << (it == idOf.end() ? 0 : it->second);
          }
        }
      }
    } else {
      sep();
      os << "BADOP " << op;
      return;
    }
  }
  if (first) os << "EMPTY";
}

int main() {
  std::string line;
  while (std::getline(std::cin, line)) {
    if (line.empty()) continue;
    std::istringstream in(line);
    std::string kind;
    in >> kind;
    std::ostringstream os;
    try {
      if (kind == "N") runCase<dispenso::Graph>(in, os);
      else if (kind == "B") runCase<dispenso::BiPropGraph>(in, os);
      else os << "BADKIND";
    } catch (const std::exception& e) {
      os << " | EXC " << e.what();
    }
    std::cout << os.str() << std::endl;
  }
  return 0;
}
