// Correspondence harness for C44 (bit-math helpers): drives the REAL functions of /repo
// (dispenso/detail/math.h, dispenso/platform.h, dispenso/util.h) on cases read from stdin, one per line, and
// prints one canonical result line per case.
//
//   u <fn> <v>                      -> "u <out>"       fn: 1 nextPow2(uint64_t)  2 log2const(uint64_t)  3 log2const(uint32_t)
//                                                          4 log2(uint64_t)  5 log2(uint32_t)  6 countTrailingZeros(uint64_t)
//                                                          7 countSetBits(uint64_t)  8 alignToCacheLine(uintptr_t) (public wrapper
//                                                          dispenso::alignToCacheLine and detail:: must agree, else "u MISMATCH")
//   am <mode> <off> <bytes> <align> -> "am <p> <req> <ret> <recov> <freed>"
//        the ::malloc / ::free calls inside alignedMalloc/alignedFree are intercepted (macro, see below):
//        mode 0: ::malloc returns arena+2^20+off (arena is 2^20-aligned; lets the test choose p's residue modulo the alignment;
//                the MiB below p absorbs stray writes of a broken implementation)
//        mode 1: ::malloc is the C library's;   mode +2: call the public wrappers dispenso::alignedMalloc/alignedFree
//        p = what ::malloc returned, req = what it was asked for, ret = alignedMalloc's result, recov = the word at
//        ret-8 read back AFTER all `bytes` user bytes were overwritten, freed = the pointer alignedFree gave to ::free
//   sweep32 <threads> <stride>      -> "sweep32 checked <n> mism <k> [<fn>:<v>:<out> ...]"   every stride-th block of 2^16
//        32-bit values, all 8 functions against naive reference loops written here (first <= 16 mismatches listed)
//   sweep64 <seed> <nrand>          -> "sweep64 checked <n> mism <k> [...]"   all two-bit / run-of-ones / 2^k+-1 patterns and
//        nrand xorshift values with random bit length, same references
#include <algorithm>
#include <atomic>
#include <cassert>
#include <cstdint>
#include <cstdio>
#include <cstdlib>
#include <cstring>
#include <iostream>
#include <memory>
#include <mutex>
#include <sstream>
#include <string>
#include <thread>
#include <type_traits>
#include <utility>
#include <vector>
#include <stdint.h>
#include <stdlib.h>

// ---- interception of the allocator calls made by alignedMalloc / alignedFree (after the standard headers, before dispenso's)
static void* (*const g_realMalloc)(size_t) = ::malloc;
static void (*const g_realFree)(void*) = ::free;
static thread_local int g_mode = 1;
static thread_local uintptr_t g_nextP = 0;
static thread_local uintptr_t g_lastP = 0;
static thread_local uint64_t g_lastReq = 0;
static thread_local uintptr_t g_lastFreed = 1;
static thread_local int g_nMalloc = 0, g_nFree = 0;
static void* verif_malloc(size_t n) {
  ++g_nMalloc;
  g_lastReq = n;
  void* p = (g_mode & 1) ? g_realMalloc(n) : reinterpret_cast<void*>(g_nextP);
  g_lastP = reinterpret_cast<uintptr_t>(p);
  return p;
}
static void verif_free(void* p) {
  ++g_nFree;
  g_lastFreed = reinterpret_cast<uintptr_t>(p);
  if (g_mode & 1) g_realFree(p);
}
#define malloc verif_malloc
#define free verif_free
#include <dispenso/detail/math.h>
#include <dispenso/platform.h>
#include <dispenso/util.h>
#undef malloc
#undef free

namespace dd = dispenso::detail;

// ---- the functions under test, by code
static bool g_wrapperMismatch = false;
static inline long long callFn(int fn, uint64_t v) {
  switch (fn) {
    case 1: return static_cast<long long>(dd::nextPow2(v));
    case 2: return dd::log2const(static_cast<uint64_t>(v));
    case 3: return dd::log2const(static_cast<uint32_t>(v));
    case 4: return dd::log2(static_cast<uint64_t>(v));
    case 5: return dd::log2(static_cast<uint32_t>(v));
    case 6: return dd::countTrailingZeros(v);
    case 7: return dd::countSetBits(v);
    case 8: {
      uintptr_t a = dd::alignToCacheLine(static_cast<uintptr_t>(v));
      uintptr_t b = dispenso::alignToCacheLine(static_cast<uintptr_t>(v));
      if (a != b) g_wrapperMismatch = true;
      return static_cast<long long>(a);
    }
  }
  return -1;
}
static std::string outStr(int fn, long long r) {
  char buf[64];
  if (fn == 1 || fn == 8)
    snprintf(buf, sizeof buf, "%llu", static_cast<unsigned long long>(r));
  else
    snprintf(buf, sizeof buf, "%lld", r);
  return buf;
}

// ---- naive references for the native sweeps (trusted, independent of the code under test)
static inline int refLog2(uint64_t v) { int r = 0; while (v >>= 1) ++r; return r; }
static inline uint64_t refNextPow2(uint64_t v) {
  if (v == 0 || v > (1ull << 63)) return 0;  // outside the documented domain: what the 64-bit wrap produces
  uint64_t p = 1; while (p < v) p <<= 1; return p;
}
static inline int refCtz(uint64_t v) { int r = 0; while (!(v & 1)) { v >>= 1; ++r; } return r; }
static inline int refPop(uint64_t v) { int r = 0; for (int i = 0; i < 64; ++i) r += (v >> i) & 1; return r; }
static inline uint64_t refAlign(uint64_t v) { return (v / 64 + (v % 64 ? 1 : 0)) * 64; }

struct Mism { int fn; uint64_t v; long long out; };
struct Acc {
  std::mutex mu; std::vector<Mism> first; uint64_t mism = 0, checked = 0;
  void add(int fn, uint64_t v, long long out) {
    std::lock_guard<std::mutex> l(mu);
    ++mism;
    if (first.size() < 16) first.push_back({fn, v, out});
  }
};

static void checkAll64(uint64_t v, Acc& acc, uint64_t& n) {
  // v != 0
  long long r;
  if ((r = callFn(1, v)) != static_cast<long long>(refNextPow2(v))) acc.add(1, v, r);
  if ((r = callFn(2, v)) != refLog2(v)) acc.add(2, v, r);
  if ((r = callFn(4, v)) != refLog2(v)) acc.add(4, v, r);
  if ((r = callFn(6, v)) != refCtz(v)) acc.add(6, v, r);
  if ((r = callFn(7, v)) != refPop(v)) acc.add(7, v, r);
  if (v <= UINT64_MAX - 63 && (r = callFn(8, v)) != static_cast<long long>(refAlign(v))) acc.add(8, v, r);
  n += 6;
  if (v <= UINT32_MAX) {
    if ((r = callFn(3, v)) != refLog2(v)) acc.add(3, v, r);
    if ((r = callFn(5, v)) != refLog2(v)) acc.add(5, v, r);
    n += 2;
  }
}

static void sweep32(int nthreads, uint64_t stride) {
  Acc acc;
  std::atomic<uint64_t> nextBlock{0};
  std::atomic<uint64_t> total{0};
  const uint64_t kBlocks = 1ull << 16;  // blocks of 2^16 values
  std::vector<std::thread> ts;
  for (int t = 0; t < nthreads; ++t)
    ts.emplace_back([&] {
      uint64_t n = 0;
      for (;;) {
        uint64_t b = nextBlock.fetch_add(stride);
        if (b >= kBlocks) break;
        uint64_t lo = b << 16, hi = lo + (1ull << 16);
        if (lo == 0) lo = 1;
        // incremental references: lg = floor(log2 v), np = least power of two >= v, pc = popcount
        int lg = refLog2(lo);
        uint64_t np = refNextPow2(lo);
        int pc = refPop(lo);
        for (uint64_t v = lo; v < hi; ++v) {
          if (v != lo) {
            if (v == (2ull << lg)) ++lg;
            if (v > np) np <<= 1;
            pc = pc + 1 - refCtz(v);
          }
          long long r;
          if ((r = callFn(1, v)) != static_cast<long long>(np)) acc.add(1, v, r);
          if ((r = callFn(2, v)) != lg) acc.add(2, v, r);
          if ((r = callFn(3, v)) != lg) acc.add(3, v, r);
          if ((r = callFn(4, v)) != lg) acc.add(4, v, r);
          if ((r = callFn(5, v)) != lg) acc.add(5, v, r);
          if ((r = callFn(6, v)) != refCtz(v)) acc.add(6, v, r);
          if ((r = callFn(7, v)) != pc) acc.add(7, v, r);
          if ((r = callFn(8, v)) != static_cast<long long>((v + 63) / 64 * 64)) acc.add(8, v, r);
          n += 8;
        }
      }
      total += n;
    });
  for (auto& t : ts) t.join();
  std::ostringstream os;
  os << "sweep32 checked " << total.load() << " mism " << acc.mism;
  for (auto& m : acc.first) os << ' ' << m.fn << ':' << m.v << ':' << outStr(m.fn, m.out);
  puts(os.str().c_str());
}

static void sweep64(uint64_t seed, uint64_t nrand) {
  Acc acc;
  uint64_t n = 0;
  for (int i = 0; i < 64; ++i) {
    uint64_t a = 1ull << i;
    checkAll64(a, acc, n);
    if (a - 1) checkAll64(a - 1, acc, n);
    checkAll64(a + 1, acc, n);
    checkAll64(~a, acc, n);
    for (int j = 0; j < i; ++j) {
      uint64_t b = 1ull << j;
      checkAll64(a | b, acc, n);          // two bits
      checkAll64(a - b, acc, n);          // run of ones j..i-1
      checkAll64((a | b) + 1, acc, n);
      if ((a | b) - 1) checkAll64((a | b) - 1, acc, n);
      checkAll64(~(a | b), acc, n);
    }
  }
  uint64_t s = seed * 0x9E3779B97F4A7C15ull + 0x1234567ull;
  for (uint64_t k = 0; k < nrand; ++k) {
    s ^= s << 13; s ^= s >> 7; s ^= s << 17;
    uint64_t v = s >> ((s >> 58) & 63);   // random bit length
    if (v) checkAll64(v, acc, n);
  }
  std::ostringstream os;
  os << "sweep64 checked " << n << " mism " << acc.mism;
  for (auto& m : acc.first) os << ' ' << m.fn << ':' << m.v << ':' << outStr(m.fn, m.out);
  puts(os.str().c_str());
}

// ---- alignedMalloc / alignedFree
static char* g_arena = nullptr;
static const size_t kArenaBytes = 10u << 20;
static const size_t kArenaLead = 1u << 20;
static void amCase(int mode, uint64_t off, uint64_t bytes, uint64_t align) {
  if (!g_arena) {
    void* a = nullptr;
    if (posix_memalign(&a, 1u << 20, kArenaBytes) != 0) { puts("am ERROR arena"); return; }
    g_arena = static_cast<char*>(a);
  }
  if (!(mode & 1) && kArenaLead + off + bytes + align + 64 > kArenaBytes) { puts("am ERROR case-too-big"); return; }
  g_mode = mode;
  g_nextP = reinterpret_cast<uintptr_t>(g_arena) + kArenaLead + off;
  g_lastFreed = 1; g_lastReq = 0; g_lastP = 0; g_nMalloc = 0; g_nFree = 0;
  void* ret = (mode & 2) ? dispenso::alignedMalloc(bytes, align) : dd::alignedMalloc(bytes, align);
  memset(ret, 0xA5, bytes);                                   // the user overwrites all of its bytes
  uintptr_t recov;
  memcpy(&recov, static_cast<char*>(ret) - sizeof(uintptr_t), sizeof recov);
  uintptr_t p = g_lastP; uint64_t req = g_lastReq;
  if (mode & 2) dispenso::alignedFree(ret); else dd::alignedFree(ret);
  if (g_nMalloc != 1 || g_nFree != 1) { printf("am ERROR calls malloc=%d free=%d\n", g_nMalloc, g_nFree); g_mode = 1; return; }
  g_mode = 1;
  printf("am %llu %llu %llu %llu %llu\n", (unsigned long long)p, (unsigned long long)req,
         (unsigned long long)reinterpret_cast<uintptr_t>(ret), (unsigned long long)recov, (unsigned long long)g_lastFreed);
}

int main() {
  // alignedFree(nullptr) must not reach ::free
  g_mode = 0; g_nFree = 0; dd::alignedFree(nullptr); dispenso::alignedFree(nullptr);
  if (g_nFree != 0) { puts("FATAL alignedFree(nullptr) called free"); return 2; }
  g_mode = 1;
  std::string line;
  while (std::getline(std::cin, line)) {
    std::istringstream is(line);
    std::string cmd;
    if (!(is >> cmd)) continue;
    if (cmd == "u") {
      int fn; uint64_t v;
      is >> fn >> v;
      g_wrapperMismatch = false;
      long long r = callFn(fn, v);
      if (g_wrapperMismatch) puts("u MISMATCH");
      else printf("u %s\n", outStr(fn, r).c_str());
    } else if (cmd == "am") {
      int mode; uint64_t off, bytes, align;
      is >> mode >> off >> bytes >> align;
      amCase(mode, off, bytes, align);
    } else if (cmd == "sweep32") {
      int th; uint64_t stride;
      is >> th >> stride;
      sweep32(th, stride ? stride : 1);
    } else if (cmd == "sweep64") {
      uint64_t seed, nr;
      is >> seed >> nr;
      sweep64(seed, nr);
    } else {
      puts("ERROR unknown command");
    }
    fflush(stdout);
  }
  return 0;
}
