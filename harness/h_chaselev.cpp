// Lockstep harness for dispenso::ChaseLevDeque (C36) under harness/vsched.h.
// One case per line:
//   <cap 1|2|4|8|16> <i0> <budget> ; <owner prog> ; <thief prog> ; ... ; S <schedule ints...>
// prog tokens: U<v> try_push(v)   O try_pop   T try_steal        (thread 0 = owner; thieves use T only)
// Output (one line): steps t:site ... | results t:tag=v ... | blocked | top T bot B rem v v ... | status S
//   rem = slots[top_ .. bottom_) read after the run (oldest first).
#include <atomic>
#include <cstdio>
#include <cstdlib>
#include <cstring>
#include <iostream>
#include <sstream>
#include <string>
#include <vector>
#include <sys/wait.h>
#include <unistd.h>
#define private public
#define protected public
#include <dispenso/chase_lev_deque.h>
#undef private
#undef protected
#include "vsched.h"

struct Op {
  char k;
  long a = 0;
};

static std::vector<Op> parseProg(const std::string& s) {
  std::vector<Op> v;
  std::istringstream in(s);
  std::string tok;
  while (in >> tok) {
    Op o;
    o.k = tok[0];
    if (tok.size() > 1) o.a = atol(tok.substr(1).c_str());
    v.push_back(o);
  }
  return v;
}

template <size_t Cap>
static void runCase(long i0, long budget, const std::vector<std::vector<Op>>& progs, const std::vector<long>& sched) {
  static dispenso::ChaseLevDeque<int64_t, Cap> dq;
  std::memset(dq.storage_, 0, sizeof(dq.storage_));
  dq.top_.store(i0);
  dq.bottom_.store(i0);
  vs::Sched S(sched, budget, false);
  for (size_t t = 0; t < progs.size(); ++t) {
    S.spawn([&S, &progs, t]() {
      for (const Op& o : progs[t]) {
        int64_t out = 0;
        switch (o.k) {
          case 'U':
            if (dq.try_push(static_cast<int64_t>(o.a))) S.result("pushok", o.a); else S.result("pushfull", o.a);
            break;
          case 'O':
            if (dq.try_pop(out)) S.result("popok", static_cast<long>(out)); else S.result("popfail", 0);
            break;
          case 'T':
            if (dq.try_steal(out)) S.result("stealok", static_cast<long>(out)); else S.result("stealfail", 0);
            break;
          default: break;
        }
      }
    });
  }
  S.run();
  std::ostringstream ex;
  int64_t tp = dq.top_.load(), bt = dq.bottom_.load();
  ex << "top " << tp << " bot " << bt << " rem";
  for (int64_t i = tp; i < bt && i < tp + 64; ++i) ex << " " << *dq.slotPtr(i);
  S.print(ex.str());
}

int main() {
  std::string line;
  while (std::getline(std::cin, line)) {
    if (line.empty()) continue;
    fflush(stdout);
    pid_t pid = fork();
    if (pid == 0) {
      alarm(20);
      std::vector<std::string> parts;
      std::stringstream ss(line);
      std::string part;
      while (std::getline(ss, part, ';')) parts.push_back(part);
      std::istringstream hd(parts[0]);
      long cap, i0, budget;
      hd >> cap >> i0 >> budget;
      std::vector<std::vector<Op>> progs;
      std::vector<long> sched;
      for (size_t i = 1; i < parts.size(); ++i) {
        std::istringstream ps(parts[i]);
        std::string first;
        ps >> first;
        if (first == "S") {
          long x;
          while (ps >> x) sched.push_back(x);
        } else {
          progs.push_back(parseProg(parts[i]));
        }
      }
      switch (cap) {
        case 1: runCase<1>(i0, budget, progs, sched); break;
        case 2: runCase<2>(i0, budget, progs, sched); break;
        case 4: runCase<4>(i0, budget, progs, sched); break;
        case 8: runCase<8>(i0, budget, progs, sched); break;
        default: runCase<16>(i0, budget, progs, sched); break;
      }
      fflush(stdout);
      _exit(0);
    }
    int st = 0;
    waitpid(pid, &st, 0);
    if (!WIFEXITED(st) || WEXITSTATUS(st) != 0) {
      printf("CRASH status %d\n", st);
      fflush(stdout);
    }
  }
  return 0;
}
