// Lockstep + native-stress harness for dispenso::ChaseLevDeque (C36) under harness/vsched.h.
//
// Element type: Elem<W> = W 64-bit words all holding the element id (so a torn / half-overwritten payload is visible), for
// W in {1, 3, 9, 17} (8, 24, 72 > one cache line, 136 > two cache lines of 64 bytes), capacities {1, 2, 4, 8, 16}.  Elem's copy
// constructor / assignment report every payload copy to the harness.  ChaseLevDeque demands a trivially copyable T; Elem is
// bit-copyable (plain words) and std::is_trivially_copyable is specialised for it here so that the tracked type is accepted.
//
// A. lockstep case (one per line):
//   <cap> <i0> <budget> <W> ; <owner prog> ; <thief prog> ; ... ; S <schedule ints...>
//   prog tokens: U<v> try_push(v)   O try_pop   T try_steal        (thread 0 = owner; thieves use T only)
//   Output: steps t:site ... | results t:tag=v ... | blocked | top T bot B stray N rem v v ... | status S
//     rem   = slots[top_ .. bottom_) read after the run (oldest first); a torn payload is reported as -777
//     stray = payload copies from / to a SLOT made by an enrolled thread whose last granted hook is not the matching
//             cl.pop.slot_read / cl.steal.slot_read (reads) or cl.push.slot_write (writes), or a second slot access under the
//             same grant: every slot access must be its own scheduled step, immediately preceded by its DISPENSO_VERIF_POINT
// B. native stress (unscheduled threads, one-sided search for a concrete witness):
//   stress <cap> <W> <nthieves> <millis>
//   Output: stress cap C w W thieves K pushed N returned R torn T dup D lost L unknown U firstdup X firstlost Y
//     the owner keeps the deque full with unique ids 1..N (and pops now and then), thieves steal; afterwards every id must have
//     been returned exactly once (pops + steals + final drain), untorn.
#include <atomic>
#include <chrono>
#include <cstdio>
#include <cstdlib>
#include <cstring>
#include <iostream>
#include <sstream>
#include <string>
#include <thread>
#include <type_traits>
#include <vector>
#include <sys/wait.h>
#include <unistd.h>

static void noteCopy(const void* dst, const void* src);

template <size_t W>
struct Elem {
  int64_t w[W];
  Elem() = default;
  Elem(const Elem& o) {
    noteCopy(this, &o);
    for (size_t i = 0; i < W; ++i) w[i] = o.w[i];
  }
  Elem& operator=(const Elem& o) {
    noteCopy(this, &o);
    for (size_t i = 0; i < W; ++i) w[i] = o.w[i];
    return *this;
  }
};
namespace std {
template <size_t W>
struct is_trivially_copyable<Elem<W>> : true_type {};
}  // namespace std

#define private public
#define protected public
#include <dispenso/chase_lev_deque.h>
#undef private
#undef protected
#define dispenso_verif_point vs_base_verif_point
#include "vsched.h"
#undef dispenso_verif_point

namespace {
const char* g_lo = nullptr;   // deque storage range
const char* g_hi = nullptr;
bool g_trackOn = false;
long g_stray = 0;
const char* g_last[64];       // per enrolled thread: the hook site it was last granted at
bool g_used[64];              // ... and whether a slot access already happened under that grant
}  // namespace

extern "C" void dispenso_verif_point(const char* site, const void* addr) {
  if (!vs::g_sched || vs::t_self < 0) return;
  vs::g_sched->point(site, addr);
  if (vs::t_self < 64) {
    g_last[vs::t_self] = site;
    g_used[vs::t_self] = false;
  }
}

static void noteCopy(const void* dst, const void* src) {
  if (!g_trackOn || vs::t_self < 0 || vs::t_self >= 64) return;
  const char* d = static_cast<const char*>(dst);
  const char* s = static_cast<const char*>(src);
  bool rd = s >= g_lo && s < g_hi, wr = d >= g_lo && d < g_hi;
  if (!rd && !wr) return;
  int t = vs::t_self;
  const char* ls = g_last[t] ? g_last[t] : "";
  bool ok = !g_used[t];
  if (rd && !(strcmp(ls, "cl.pop.slot_read") == 0 || strcmp(ls, "cl.steal.slot_read") == 0)) ok = false;
  if (wr && strcmp(ls, "cl.push.slot_write") != 0) ok = false;
  if (!ok) ++g_stray;
  g_used[t] = true;
}

template <size_t W>
static Elem<W> mkElem(long id) {
  Elem<W> e;
  for (size_t i = 0; i < W; ++i) e.w[i] = id;
  return e;
}
template <size_t W>
static long idOf(const Elem<W>& e) {
  for (size_t i = 1; i < W; ++i)
    if (e.w[i] != e.w[0]) return -777;
  return static_cast<long>(e.w[0]);
}

struct Op {
  char k;
  long a = 0;
};

static std::vector<Op> parseProg(const std::string& s) {
  std::vector<Op> v;
  std::istringstream in(s);
  std::string tok;
  while (in >> tok) {
    Op o;
    o.k = tok[0];
    if (tok.size() > 1) o.a = atol(tok.substr(1).c_str());
    v.push_back(o);
  }
  return v;
}

template <size_t Cap, size_t W>
static void runCase(long i0, long budget, const std::vector<std::vector<Op>>& progs, const std::vector<long>& sched) {
  static dispenso::ChaseLevDeque<Elem<W>, Cap> dq;
  std::memset(dq.storage_, 0, sizeof(dq.storage_));
  dq.top_.store(i0);
  dq.bottom_.store(i0);
  g_lo = dq.storage_;
  g_hi = dq.storage_ + sizeof(dq.storage_);
  g_trackOn = true;
  vs::Sched S(sched, budget, false);
  for (size_t t = 0; t < progs.size(); ++t) {
    S.spawn([&S, &progs, t]() {
      for (const Op& o : progs[t]) {
        Elem<W> out = mkElem<W>(0);
        switch (o.k) {
          case 'U': {
            Elem<W> item = mkElem<W>(o.a);
            if (dq.try_push(item)) S.result("pushok", o.a); else S.result("pushfull", o.a);
            break;
          }
          case 'O':
            if (dq.try_pop(out)) S.result("popok", idOf(out)); else S.result("popfail", 0);
            break;
          case 'T':
            if (dq.try_steal(out)) S.result("stealok", idOf(out)); else S.result("stealfail", 0);
            break;
          default: break;
        }
      }
    });
  }
  S.run();
  g_trackOn = false;
  std::ostringstream ex;
  int64_t tp = dq.top_.load(), bt = dq.bottom_.load();
  ex << "top " << tp << " bot " << bt << " stray " << g_stray << " rem";
  for (int64_t i = tp; i < bt && i < tp + 64; ++i) ex << " " << idOf(*dq.slotPtr(i));
  S.print(ex.str());
}

template <size_t Cap, size_t W>
static void stressCase(int nth, long ms) {
  static dispenso::ChaseLevDeque<Elem<W>, Cap> dq;
  std::memset(dq.storage_, 0, sizeof(dq.storage_));
  g_trackOn = false;
  std::atomic<bool> stop{false};
  std::vector<std::vector<long>> got(static_cast<size_t>(nth) + 1);
  std::vector<std::thread> ths;
  for (int k = 0; k < nth; ++k) {
    ths.emplace_back([&, k]() {
      std::vector<long>& mine = got[static_cast<size_t>(k) + 1];
      mine.reserve(1 << 20);
      while (!stop.load(std::memory_order_acquire)) {
        Elem<W> e = mkElem<W>(0);
        if (dq.try_steal(e)) mine.push_back(idOf(e));
      }
    });
  }
  long next = 1;
  {
    std::vector<long>& mine = got[0];
    mine.reserve(1 << 20);
    auto deadline = std::chrono::steady_clock::now() + std::chrono::milliseconds(ms);
    unsigned long it = 0;
    while (true) {
      if ((++it & 255) == 0 && std::chrono::steady_clock::now() >= deadline) break;
      Elem<W> item = mkElem<W>(next);
      if (dq.try_push(item)) {
        ++next;
      } else if ((it & 1023) == 1) {   // full: now and then take the newest one back
        Elem<W> e = mkElem<W>(0);
        if (dq.try_pop(e)) mine.push_back(idOf(e));
      }
    }
    stop.store(true, std::memory_order_release);
    for (auto& t : ths) t.join();
    Elem<W> e = mkElem<W>(0);
    while (dq.try_pop(e)) mine.push_back(idOf(e));
  }
  long n = next - 1, returned = 0, torn = 0, unknown = 0, dup = 0, lost = 0, firstdup = 0, firstlost = 0;
  std::vector<unsigned char> cnt(static_cast<size_t>(n) + 2, 0);
  for (auto& v : got)
    for (long id : v) {
      ++returned;
      if (id == -777) ++torn;
      else if (id < 1 || id > n) ++unknown;
      else if (cnt[static_cast<size_t>(id)] < 200) ++cnt[static_cast<size_t>(id)];
    }
  for (long id = 1; id <= n; ++id) {
    if (cnt[static_cast<size_t>(id)] > 1) { ++dup; if (!firstdup) firstdup = id; }
    if (cnt[static_cast<size_t>(id)] == 0) { ++lost; if (!firstlost) firstlost = id; }
  }
  printf("stress cap %zu w %zu thieves %d pushed %ld returned %ld torn %ld dup %ld lost %ld unknown %ld firstdup %ld firstlost %ld\n",
         Cap, W, nth, n, returned, torn, dup, lost, unknown, firstdup, firstlost);
  fflush(stdout);
}

template <size_t W>
static void dispatchCap(long cap, long i0, long budget, const std::vector<std::vector<Op>>& progs, const std::vector<long>& sched) {
  switch (cap) {
    case 1: runCase<1, W>(i0, budget, progs, sched); break;
    case 2: runCase<2, W>(i0, budget, progs, sched); break;
    case 4: runCase<4, W>(i0, budget, progs, sched); break;
    case 8: runCase<8, W>(i0, budget, progs, sched); break;
    default: runCase<16, W>(i0, budget, progs, sched); break;
  }
}
template <size_t W>
static void dispatchStress(long cap, int nth, long ms) {
  switch (cap) {
    case 1: stressCase<1, W>(nth, ms); break;
    case 2: stressCase<2, W>(nth, ms); break;
    case 4: stressCase<4, W>(nth, ms); break;
    default: stressCase<8, W>(nth, ms); break;
  }
}

int main() {
  std::string line;
  while (std::getline(std::cin, line)) {
    if (line.empty()) continue;
    fflush(stdout);
    pid_t pid = fork();
    if (pid == 0) {
      alarm(30);
      if (line.compare(0, 6, "stress") == 0) {
        std::istringstream hd(line.substr(6));
        long cap, w, nth, ms;
        hd >> cap >> w >> nth >> ms;
        switch (w) {
          case 1: dispatchStress<1>(cap, static_cast<int>(nth), ms); break;
          case 3: dispatchStress<3>(cap, static_cast<int>(nth), ms); break;
          case 9: dispatchStress<9>(cap, static_cast<int>(nth), ms); break;
          default: dispatchStress<17>(cap, static_cast<int>(nth), ms); break;
        }
        fflush(stdout);
        _exit(0);
      }
      std::vector<std::string> parts;
      std::stringstream ss(line);
      std::string part;
      while (std::getline(ss, part, ';')) parts.push_back(part);
      std::istringstream hd(parts[0]);
      long cap, i0, budget, w;
      hd >> cap >> i0 >> budget >> w;
      std::vector<std::vector<Op>> progs;
      std::vector<long> sched;
      for (size_t i = 1; i < parts.size(); ++i) {
        std::istringstream ps(parts[i]);
        std::string first;
        ps >> first;
        if (first == "S") {
          long x;
          while (ps >> x) sched.push_back(x);
        } else {
          progs.push_back(parseProg(parts[i]));
        }
      }
      switch (w) {
        case 1: dispatchCap<1>(cap, i0, budget, progs, sched); break;
        case 3: dispatchCap<3>(cap, i0, budget, progs, sched); break;
        case 9: dispatchCap<9>(cap, i0, budget, progs, sched); break;
        default: dispatchCap<17>(cap, i0, budget, progs, sched); break;
      }
      fflush(stdout);
      _exit(0);
    }
    int st = 0;
    waitpid(pid, &st, 0);
    if (!WIFEXITED(st) || WEXITSTATUS(st) != 0) {
      printf("CRASH status %d\n", st);
      fflush(stdout);
    }
  }
  return 0;
}
