// C43 harness: drives the REAL dispenso::CpuSet, detail::parseLinuxCpuList and detail::buildGroupsFromCacheTopology.
// One case per stdin line, one canonical result line per case.
//
//   ops <n> {a i | A s e | r i | R s e | c | q i | n}*n     -> "ops <k> <query results...> | <16 words>"
//   parse <n> <char codes...>                               -> "parse <16 words>"
//   ex <plen> <prefix codes...> <n>                          -> "ex <digest>"  (all strings prefix ++ s, |s| = n, over ALPHA)
//   grp <maxGroupSize> <nl2> {<k> cpus...} <nl3> {<k> cpus...}
//                                                            -> "grp <g> {<k> cpus...}*g | {<16 words>}*g"
#include <pthread.h>
#include <sched.h>

#include <cstdint>
#include <cstdio>
#include <cstdlib>
#include <cstring>
#include <iostream>
#include <sstream>
#include <string>
#include <thread>
#include <vector>

#define private public
#include <dispenso/cpu_set.h>
#undef private

static_assert(CPU_SETSIZE == 1024, "model assumes CPU_SETSIZE == 1024");
static_assert(sizeof(cpu_set_t) == 128, "model assumes 16 x 64-bit words");

static void printWords(std::ostream& os, const dispenso::CpuSet& s) {
  for (int w = 0; w < 16; ++w) {
    os << ' ' << static_cast<unsigned long long>(s.set_.__bits[w]);
  }
}

static const int kAlpha[13] = {48, 49, 50, 51, 52, 53, 54, 55, 56, 57, 44, 45, 32};

static uint64_t digestStep(uint64_t d, const dispenso::CpuSet& s) {
  unsigned __int128 fp = 0;
  for (int w = 0; w < 16; ++w) {
    fp += static_cast<unsigned __int128>(s.set_.__bits[w]) << w;
  }
  unsigned __int128 v = static_cast<unsigned __int128>(d) * 3 + fp + 1;
  return static_cast<uint64_t>(v);
}

int main() {
  std::ios::sync_with_stdio(false);
  std::string line;
  while (std::getline(std::cin, line)) {
    std::istringstream in(line);
    std::string cmd;
    if (!(in >> cmd)) {
      continue;
    }
    std::ostringstream out;
    if (cmd == "ops") {
      int n;
      in >> n;
      dispenso::CpuSet s;
      std::vector<long long> res;
      for (int k = 0; k < n; ++k) {
        std::string o;
        in >> o;
        long long a = 0, b = 0;
        if (o == "a") {
          in >> a;
          s.add(static_cast<int32_t>(a));
        } else if (o == "A") {
          in >> a >> b;
          s.addRange(static_cast<int32_t>(a), static_cast<int32_t>(b));
        } else if (o == "r") {
          in >> a;
          s.remove(static_cast<int32_t>(a));
        } else if (o == "R") {
          in >> a >> b;
          s.removeRange(static_cast<int32_t>(a), static_cast<int32_t>(b));
        } else if (o == "c") {
          s.clear();
        } else if (o == "q") {
          in >> a;
          res.push_back(s.contains(static_cast<int32_t>(a)) ? 1 : 0);
        } else if (o == "n") {
          res.push_back(s.count());
        }
      }
      out << "ops " << res.size();
      for (long long r : res) {
        out << ' ' << r;
      }
      out << " |";
      printWords(out, s);
    } else if (cmd == "parse") {
      int n;
      in >> n;
      std::vector<char> buf;
      for (int k = 0; k < n; ++k) {
        int c;
        in >> c;
        buf.push_back(static_cast<char>(static_cast<unsigned char>(c)));
      }
      buf.push_back('\0');
      dispenso::CpuSet s = dispenso::detail::parseLinuxCpuList(buf.data());
      out << "parse";
      printWords(out, s);
    } else if (cmd == "ex") {
      int plen;
      in >> plen;
      std::string pre;
      for (int k = 0; k < plen; ++k) {
        int c;
        in >> c;
        pre.push_back(static_cast<char>(c));
      }
      int n;
      in >> n;
      std::vector<int> idx(static_cast<size_t>(n), 0);
      uint64_t d = 0;
      while (true) {
        std::string str = pre;
        for (int k = 0; k < n; ++k) {
          str.push_back(static_cast<char>(kAlpha[idx[static_cast<size_t>(k)]]));
        }
        dispenso::CpuSet s = dispenso::detail::parseLinuxCpuList(str.c_str());
        d = digestStep(d, s);
        int k = n - 1;
        while (k >= 0 && ++idx[static_cast<size_t>(k)] == 13) {
          idx[static_cast<size_t>(k)] = 0;
          --k;
        }
        if (k < 0) {
          break;
        }
      }
      out << "ex " << static_cast<unsigned long long>(d);
    } else if (cmd == "grp") {
      long long mg;
      in >> mg;
      std::vector<dispenso::CacheGroup> l2, l3;
      for (int which = 0; which < 2; ++which) {
        int ng;
        in >> ng;
        for (int g = 0; g < ng; ++g) {
          int k;
          in >> k;
          dispenso::CacheGroup cg;
          cg.cacheId = g;
          for (int j = 0; j < k; ++j) {
            long long c;
            in >> c;
            cg.cpus.push_back(static_cast<int32_t>(c));
          }
          (which == 0 ? l2 : l3).push_back(cg);
        }
      }
      std::vector<dispenso::ThreadGroup> groups =
          dispenso::detail::buildGroupsFromCacheTopology(l2, l3, static_cast<int32_t>(mg));
      out << "grp " << groups.size();
      for (const auto& g : groups) {
        out << ' ' << g.cpus.size();
        for (int32_t c : g.cpus) {
          out << ' ' << c;
        }
      }
      out << " |";
      for (const auto& g : groups) {
        printWords(out, g.affinityMask);
      }
    } else {
      out << "ERR unknown command";
    }
    std::cout << out.str() << std::endl;
  }
  return 0;
}
