// Harness for dispenso::pipeline (C27, C28, C29) on the REAL code from /repo.  One case per line, one fork per case.
//
// Common case syntax (parts separated by ';'):
//   P <numT> <plf> <nworkers> <dep0> <bare>     pool description (L: faked numThreads_/poolLoadFactor_, enrolled worker threads with
//                                                initial inline depth dep0; N: numT real pool threads, the rest ignored);
//                                                bare=1: every stage is passed as a plain functor (stage limit 1 by definition)
//   G <glimit> <nitems> <gthrow>                generator: stage limit, number of items, index at which it throws (-1: never)
//   T <kind> <limit> D <tags..> X <tags..>      one line per later stage; kind p = plain transform, f = filtering transform
//                                                (OpResult), s = sink (last); limit -1 = kStageNoLimit; D: tags dropped by the
//                                                filter; X: tags at which the stage throws
//   S <ints..>                                  (L only) the schedule
// Modes (first part):
//   L <budget>   lockstep under vsched.h at gate granularity: the pool owns no OS threads, enrolled harness threads play the
//                workers (pool.tryExecuteNext() in a loop), thread 0 calls dispenso::pipeline.
//                Output: steps t:site ... | log t:k:j:tag:val ... | fin ret=R live=N errs=E wr=W q=Q blk=B | status S
//                (blk=1: the caller is asleep in the completion futex when the run ends)
//   N <reps>     native run on a real ThreadPool(numT) (history-level): Output per rep:
//                N log t:k:j:tag:val ... | fin ret=R live=N errs=E reuse=U
//   O <reps>     native single-stage pipeline: P line + "G <limit> <nitems> <throwAt>"; Output: O calls=C ret=R
// log kinds: 1 enter(stage j, tag, input value)  2 exit  3 throw  4 generated(tag)  5 generator throws  6 generator ends
//            9 pipeline() returned (or rethrew) on the caller  14 a generator call begins
// ret: -1 pipeline returned normally, otherwise the id of the rethrown exception ((j+1)*1000+tag for stage j, tag for the generator)
#include <atomic>
#include <cerrno>
#include <chrono>
#include <climits>
#include <cstdio>
#include <cstdlib>
#include <cstring>
#include <functional>
#include <iostream>
#include <map>
#include <mutex>
#include <set>
#include <sstream>
#include <string>
#include <thread>
#include <vector>
#include <sys/wait.h>
#include <unistd.h>
#define private public
#define protected public
#include <dispenso/pipeline.h>
#include <dispenso/thread_pool.h>
#undef private
#undef protected
#define private public
#define dispenso_verif_point vs_plain_point
#include "vsched.h"
#undef dispenso_verif_point
#undef private
#include "life.h"

// ------------------------------------------------------------------------------------------------ point filter
// Only the pipeline's own sites (and the few task-set / completion-event sites the pipeline's control flow depends on) park;
// every other instrumented component (pool, queues, task-set counters) runs atomically inside the step that reaches it.
static bool passSite(const char* s) {
  if (strncmp(s, "pipe.", 5) == 0) return true;
  return !strcmp(s, "ce.wait.load") || !strcmp(s, "ce.notify.store") || !strcmp(s, "cts.wait.load") || !strcmp(s, "ts.exc.cas") ||
      !strcmp(s, "ts.exc.cancel.store");
}
extern "C" void dispenso_verif_point(const char* site, const void* addr) {
  if (!vs::g_sched || vs::t_self < 0) return;
  if (passSite(site)) vs::g_sched->point(site, addr);
}
static void hpoint(const char* site) {
  if (vs::g_sched && vs::t_self >= 0) vs::g_sched->point(site, nullptr);
}

// ------------------------------------------------------------------------------------------------ items, log
using Led = life::Ledger<27>;
struct Item {
  life::S<8, 4, 27> lf;
  long tag;
  long val;
  Item(long t, long v) : lf(static_cast<int>(t)), tag(t), val(v) {}
  Item(const Item&) = default;
  Item(Item&&) = default;
  Item& operator=(const Item&) = default;
  Item& operator=(Item&&) = default;
};
struct VExc {
  long id;
};
struct Ev {
  int tid, kind;
  long j, tag, val;
};
static std::mutex g_logMu;
static std::vector<Ev> g_log;
static std::map<std::thread::id, int> g_tids;
static bool g_native = false;
static int selfTid() {
  if (!g_native) return vs::t_self;
  auto id = std::this_thread::get_id();
  auto it = g_tids.find(id);
  if (it != g_tids.end()) return it->second;
  int n = static_cast<int>(g_tids.size());
  g_tids[id] = n;
  return n;
}
static void logEv(int kind, long j, long tag, long val) {
  std::lock_guard<std::mutex> g(g_logMu);
  g_log.push_back(Ev{selfTid(), kind, j, tag, val});
}

struct StageSpec {
  char kind = 'p';
  long limit = 1;
  std::set<long> drops, throws;
};
struct Case {
  long numT = 1, plf = 32, nworkers = 1, dep0 = 0, bare = 0;
  long glimit = 1, nitems = 0, gthrow = -1;
  std::vector<StageSpec> st;
  std::vector<long> sched;
  std::atomic<long> next{0};
};
static Case* g_c = nullptr;

static void nativeJitter(long j, long tag) {
  if (!g_native) return;
  // a stage whose limit equals the pool size is made slow: its backlog then outlives the generator, the calling thread starts helping,
  // and numT + 1 threads compete for numT slots -- the one configuration in which only the limiter keeps the bound
  if (j >= 0 && static_cast<size_t>(j) < g_c->st.size() && g_c->numT >= 2 && g_c->st[static_cast<size_t>(j)].limit == g_c->numT)
    std::this_thread::sleep_for(std::chrono::microseconds(300));
  long h = (tag * 7 + j * 3) % 5;
  if (h == 0) std::this_thread::sleep_for(std::chrono::microseconds(30));
  else if (h == 1) std::this_thread::yield();
}

// the body shared by all later stages: enter, (a scheduling point), throw or exit; returns the output value
static long stageBody(long j, const Item& in) {
  logEv(1, j, in.tag, in.val);
  hpoint("h.stage");
  nativeJitter(j, in.tag);
  if (g_c->st[static_cast<size_t>(j)].throws.count(in.tag)) {
    logEv(3, j, in.tag, in.val);
    throw VExc{(j + 1) * 1000 + in.tag};
  }
  logEv(2, j, in.tag, in.val);
  return in.val * 16 + j + 1;
}
struct GenFn {
  dispenso::OpResult<Item> operator()() const {
    logEv(14, -1, 0, 0);
    hpoint("h.gen");
    long k = g_c->next.fetch_add(1);
    if (k == g_c->gthrow) {
      logEv(5, -1, k, 0);
      throw VExc{k};
    }
    if (k >= g_c->nitems) {
      logEv(6, -1, k, 0);
      return {};
    }
    logEv(4, -1, k, k);
    return Item(k, k);
  }
};
struct PlainFn {
  long j;
  Item operator()(Item in) const {
    long v = stageBody(j, in);
    return Item(in.tag, v);
  }
};
struct FiltFn {
  long j;
  dispenso::OpResult<Item> operator()(Item in) const {
    long v = stageBody(j, in);
    if (g_c->st[static_cast<size_t>(j)].drops.count(in.tag)) return {};
    return Item(in.tag, v);
  }
};
struct SinkFn {
  long j;
  void operator()(Item in) const {
    stageBody(j, in);
  }
};

// ------------------------------------------------------------------------------------------------ building the pipeline
static ssize_t limOf(const StageSpec& s) {
  return s.limit < 0 ? dispenso::kStageNoLimit : static_cast<ssize_t>(s.limit);
}
// transforms 0..nT-1 are appended one by one (each either plain or filtering, wrapped in stage() or bare), then the sink
template <int D, bool Bare>
struct Build {
  template <typename F>
  static auto wrap(F f, ssize_t lim, std::true_type) { (void)lim; return f; }
  template <typename F>
  static auto wrap(F f, ssize_t lim, std::false_type) { return dispenso::stage(std::move(f), lim); }
  template <typename... B>
  static void go(dispenso::ThreadPool& pool, size_t idx, B&&... built) {
    using BT = std::integral_constant<bool, Bare>;
    Case& c = *g_c;
    size_t nT = c.st.size() - 1;
    if (idx == nT) {
      long js = static_cast<long>(nT);
      dispenso::pipeline(pool, wrap(GenFn{}, static_cast<ssize_t>(c.glimit), BT()), std::forward<B>(built)..., wrap(SinkFn{js}, limOf(c.st[nT]), BT()));
      return;
    }
    long j = static_cast<long>(idx);
    const StageSpec& s = c.st[idx];
    if (s.kind == 'f') Build<D + 1, Bare>::go(pool, idx + 1, std::forward<B>(built)..., wrap(FiltFn{j}, limOf(s), BT()));
    else Build<D + 1, Bare>::go(pool, idx + 1, std::forward<B>(built)..., wrap(PlainFn{j}, limOf(s), BT()));
  }
};
template <bool Bare>
struct Build<4, Bare> {
  template <typename... B>
  static void go(dispenso::ThreadPool&, size_t, B&&...) {
    fprintf(stderr, "too many stages\n");
    _exit(3);
  }
};
// returns -1 or the id of the rethrown exception
static long runPipeline(dispenso::ThreadPool& pool) {
  try {
    if (g_c->bare) Build<0, true>::go(pool, 0);
    else Build<0, false>::go(pool, 0);
    return -1;
  } catch (VExc& e) {
    return e.id;
  }
}

// ------------------------------------------------------------------------------------------------ parsing
static bool parseCase(const std::vector<std::string>& parts, Case& c) {
  for (size_t i = 1; i < parts.size(); ++i) {
    std::istringstream ps(parts[i]);
    std::string first;
    ps >> first;
    if (first == "P") {
      ps >> c.numT >> c.plf >> c.nworkers >> c.dep0 >> c.bare;
    } else if (first == "G") {
      ps >> c.glimit >> c.nitems >> c.gthrow;
    } else if (first == "T") {
      StageSpec s;
      std::string k, tok;
      ps >> k >> s.limit;
      s.kind = k[0];
      int mode = 0;
      while (ps >> tok) {
        if (tok == "D") mode = 1;
        else if (tok == "X") mode = 2;
        else if (mode == 1) s.drops.insert(atol(tok.c_str()));
        else if (mode == 2) s.throws.insert(atol(tok.c_str()));
      }
      c.st.push_back(s);
    } else if (first == "S") {
      long x;
      while (ps >> x) c.sched.push_back(x);
    }
  }
  return !c.st.empty() && c.st.size() <= 4;
}
static void printLog() {
  printf("log");
  for (auto& e : g_log) printf(" %d:%d:%ld:%ld:%ld", e.tid, e.kind, e.j, e.tag, e.val);
}

// ------------------------------------------------------------------------------------------------ L mode
static void lockstep(long budget, Case& c) {
  auto* pool = new dispenso::ThreadPool(0);
  pool->numThreads_.store(c.numT);
  pool->poolLoadFactor_.store(c.plf);
  vs::Sched S(c.sched, budget, false);
  std::atomic<bool> done{false};
  std::atomic<long> ret{-2};
  S.spawn([&]() {
    long r = runPipeline(*pool);
    logEv(9, -1, 0, 0);
    ret.store(r);
    done.store(true);
  });
  for (long w = 0; w < c.nworkers; ++w) {
    S.spawn([&]() {
      dispenso::detail::PerPoolPerThreadInfo::registerPool(pool, nullptr);
      dispenso::detail::PerPoolPerThreadInfo::inlineDepth() = static_cast<int>(c.dep0);
      for (;;) {
        hpoint("h.worker");
        if (done.load()) break;
        pool->tryExecuteNext();
      }
    });
  }
  S.run();
  printf("steps");
  for (auto& s : S.steps_) printf(" %s", s.c_str());
  printf(" | ");
  {
    std::lock_guard<std::mutex> g(g_logMu);
    printLog();
  }
  int blk = (!S.ths_.empty() && S.ths_[0]->st == vs::St::Blocked) ? 1 : 0;   // the caller of pipeline() sleeps in the futex
  printf(" | fin ret=%ld live=%ld errs=%ld wr=%ld q=%zu blk=%d | status %s\n", ret.load(), Led::live(), Led::counters().errors(),
         static_cast<long>(pool->workRemaining_.load()), pool->work_.size_approx(), blk, S.status().c_str());
  fflush(stdout);
}

// ------------------------------------------------------------------------------------------------ N mode (native, history level)
static void native(long reps, Case& c) {
  g_native = true;
  for (long r = 0; r < reps; ++r) {
    Led::reset();
    g_log.clear();
    g_tids.clear();
    c.next.store(0);
    long ret, reuse = 0;
    {
      dispenso::ThreadPool pool(static_cast<size_t>(c.numT));
      ret = runPipeline(pool);
      logEv(9, -1, 0, 0);
      // the pool must stay usable: a second, exception-free pipeline on the same pool delivers all of its items
      std::atomic<long> got{0};
      long k2 = 0;
      try {
        dispenso::pipeline(
            pool, [&]() -> dispenso::OpResult<long> { if (k2 >= 7) return {}; return k2++; }, [&](long) { got.fetch_add(1); });
        reuse = got.load() == 7 ? 1 : 0;
      } catch (...) {
        reuse = 2;
      }
    }
    printf("N ");
    printLog();
    printf(" | fin ret=%ld live=%ld errs=%ld reuse=%ld\n", ret, Led::live(), Led::counters().errors(), reuse);
  }
  fflush(stdout);
}

// ------------------------------------------------------------------------------------------------ O mode (single-stage pipeline)
static void single(long reps, Case& c) {
  g_native = true;
  for (long r = 0; r < reps; ++r) {
    std::atomic<long> calls{0};
    long ret = -1;
    long lim = c.glimit, n = c.nitems, thr = c.gthrow;
    {
      dispenso::ThreadPool pool(static_cast<size_t>(c.numT));
      auto fn = [&]() -> bool {
        long k = calls.fetch_add(1);
        if (k == thr) throw VExc{k};
        return k < n;
      };
      try {
        auto f2 = fn;
        if (c.bare) dispenso::pipeline(pool, std::move(f2));
        else dispenso::pipeline(pool, dispenso::stage(std::move(f2), static_cast<ssize_t>(lim)));
      } catch (VExc& e) {
        ret = e.id;
      }
    }
    printf("O calls=%ld ret=%ld\n", calls.load(), ret);
  }
  fflush(stdout);
}

int main() {
  std::string line;
  while (std::getline(std::cin, line)) {
    if (line.empty()) continue;
    fflush(stdout);
    pid_t pid = fork();
    if (pid == 0) {
      alarm(60);
      std::vector<std::string> parts;
      std::stringstream ss(line);
      std::string part;
      while (std::getline(ss, part, ';')) parts.push_back(part);
      std::istringstream hd(parts[0]);
      std::string mode;
      long a = 0;
      hd >> mode >> a;
      static Case c;
      g_c = &c;
      if (mode == "O") {
        c.st.push_back(StageSpec());
      }
      if (!parseCase(parts, c)) {
        printf("ERROR bad case\n");
        fflush(stdout);
        _exit(0);
      }
      if (mode == "L") lockstep(a, c);
      else if (mode == "N") native(a, c);
      else if (mode == "O") single(a, c);
      else printf("ERROR unknown mode\n");
      fflush(stdout);
      _exit(0);
    }
    int st = 0;
    waitpid(pid, &st, 0);
    if (!WIFEXITED(st) || WEXITSTATUS(st) != 0) {
      printf("CRASH status %d\n", st);
      fflush(stdout);
    }
  }
  return 0;
}
