// End-to-end deterministic replays of the C07 / C09 witnesses on a REAL dispenso::ThreadPool under the cooperative scheduler
// (harness/vsched_pool.h: pool workers enrol through the DISPENSO_VERIF_THREAD hook; futex calls are served by the shim, which picks
// the woken waiters from the decision list; timed waits time out only when nothing else is runnable = the sleep backstop).
// The wake-state hooks ("ws.*", "ew.*") are scheduling points; ring buffers / moodycamel run atomically between them.
// One case per line:   <mode> <args...> ; S <decisions>      decisions: ints or a*b (= b copies of a); exhausted list => value 0
//   c07r <n> <count>   idle parked pool, TaskSet::scheduleBulk(count)  (ring fast path when count*4 >= n && count <= n)
//   c07s <n>           idle parked pool, pool.schedule(f, ForceQueuingTag())      (central queue, claimAndWakeOne)
//   c07b <n> <count>   idle parked pool, pool.scheduleBulk(count, gen)            (central queue, bulk)
//   c07h <n> <count>   as c07r, but a schedule() precedes it and the pool is left to park again (the claimAndWakeOne of that schedule
//                      may leave a parked worker with its sleepMask bit clear, depending on which waiter the futex wake picks)
//   c07x <n> <count>   as c07r but WITHOUT waiting for the pool to park first: the submission races with workers that are still on their
//                      way into the futex (outside the premise of C07; documents the "observe no sleeper, then bump without wake" window)
//   c07p <n>           idle parked pool, pool.schedulePlaced(f, ForceQueuingTag())  (claimAndWakeOne, THEN push to the steal ring)
//   c09  <n> <pre>     idle parked pool; pre=1: first schedule() a task that stays busy until the shutdown's wakeAll is done;
//                      then ~ThreadPool (stop all; wakeAll; join) on the controller thread
// Output, one line:  mode ... | woken <tids of futex.woken steps> | started <0/1 per task at quiescence> | timeouts_before <k> |
//                    timeouts_total <k> | steps <n> | status <s>
//   C07: a task not started at the first quiescence after the submission (= it needs a backstop timeout) is the violation.
//   C09: a backstop timeout consumed between "pool.stop_all" and "pool.join.done" is the violation.
#include <atomic>
#include <chrono>
#include <cstdio>
#include <cstdlib>
#include <iostream>
#include <memory>
#include <sstream>
#include <string>
#include <vector>
#include <sys/wait.h>
#include <unistd.h>
#define private public
#define protected public
#include <dispenso/thread_pool.h>
#undef private
#undef protected
#include <dispenso/task_set.h>
#include "vsched_pool.h"

static std::vector<long> parseSched(std::istringstream& ps) {
  std::vector<long> out;
  std::string tok;
  while (ps >> tok) {
    size_t star = tok.find('*');
    if (star == std::string::npos) {
      out.push_back(atol(tok.c_str()));
    } else {
      long v = atol(tok.substr(0, star).c_str());
      long k = atol(tok.substr(star + 1).c_str());
      for (long i = 0; i < k; ++i) out.push_back(v);
    }
  }
  return out;
}

static void runCase(const std::string& mode, int n, int arg, std::vector<long> sched) {
  sched.resize(std::max<size_t>(sched.size(), 300000), 0);
  vsp::PoolSched S(sched, 250000);
  S.keepPoints = {"ws.", "ew."};
  S.noPark = {"pool.pop.ring", "pool.pop.central", "pool.pop.steal", "pool.wr.sub", "pool.wr.add", "pool.ring.push", "pool.ring.push.end",
              "pool.enq.central", "pool.load.numThreads", "pool.load.numRings", "pool.inline", "pool.steal.push",
              "pool.drain.ring", "pool.drain.ring.done", "pool.drain.steal", "pool.drain.steal.done", "pool.drain.central.done"};
  auto pool = std::make_unique<dispenso::ThreadPool>(static_cast<size_t>(n));   // workers enrol (ids 0..n-1) and park at "start"
  int ntasks = (mode == "c07r" || mode == "c07b" || mode == "c07h" || mode == "c07x") ? arg : 1;
  std::vector<std::atomic<int>> started(static_cast<size_t>(ntasks));
  for (auto& s : started) s.store(0);
  std::vector<int> startedAtQuiescence(static_cast<size_t>(ntasks), 0);
  std::atomic<int> release{0};
  std::atomic<int> taskRunning{0};
  long timeoutsBefore = -1, timeoutsAtStop = -1, timeoutsAtJoinDone = -1;
  S.onEvent = [&](const vsp::Ev& e) {
    if (e.name == "pool.stop_all") timeoutsAtStop = S.timeoutSteps;
    if (e.name == "pool.join.begin") release.store(1);      // the shutdown's stop-all and wakeAll are complete
    if (e.name == "pool.join.done") timeoutsAtJoinDone = S.timeoutSteps;
  };
  auto report = [&]() {
    std::ostringstream out;
    out << mode << " " << n << " " << arg << " | woken";
    long nsteps = 0;
    {
      std::unique_lock<std::mutex> lk(S.mu_);
      for (auto& st : S.steps_) {
        ++nsteps;
        size_t c = st.find(':');
        if (st.compare(c + 1, std::string::npos, "futex.woken") == 0) out << " " << st.substr(0, c);
      }
    }
    out << " | started";
    for (int j = 0; j < ntasks; ++j) out << " " << startedAtQuiescence[static_cast<size_t>(j)];
    out << " | timeouts_before " << timeoutsBefore << " | shutdown_timeouts "
        << ((timeoutsAtStop >= 0 && timeoutsAtJoinDone >= 0) ? timeoutsAtJoinDone - timeoutsAtStop : -1)
        << " | timeouts_total " << S.timeoutSteps << " | steps " << nsteps << " | status reported";
    printf("%s\n", out.str().c_str());
    fflush(stdout);
    _exit(0);
  };
  S.spawn([&]() {
    if (mode != "c07x") S.waitQuiescent();   // every worker has spun down and is parked in FUTEX_WAIT
    long t0 = S.timeoutSteps;
    if (mode == "c07h") {
      std::atomic<int> first{0};
      pool->schedule([&]() { first.store(1); }, dispenso::ForceQueuingTag());
      S.waitQuiescent();               // the woken worker ran it and parked again
      t0 = S.timeoutSteps;
    }
    if (mode == "c07r" || mode == "c07h" || mode == "c07x") {
      static dispenso::TaskSet* ts = nullptr;
      ts = new dispenso::TaskSet(*pool);
      ts->scheduleBulk(static_cast<size_t>(ntasks), [&](size_t j) { return [&, j]() { started[j].store(1); }; });
    } else if (mode == "c07s") {
      pool->schedule([&]() { started[0].store(1); }, dispenso::ForceQueuingTag());
    } else if (mode == "c07p") {
      pool->schedulePlaced([&]() { started[0].store(1); }, dispenso::ForceQueuingTag());
    } else if (mode == "c07b") {
      pool->scheduleBulk(static_cast<size_t>(ntasks), [&](size_t j) { return [&, j]() { started[j].store(1); }; });
    } else if (mode == "c09") {
      if (arg) {
        pool->schedule([&]() {
          taskRunning.store(1);
          S.blockUntil([&]() { return release.load() != 0; }, "task.released");
          started[0].store(1);
        }, dispenso::ForceQueuingTag());
        S.blockUntil([&]() { return taskRunning.load() != 0; }, "ctl.task_running");
      }
      pool.reset();                    // ~ThreadPool on the controller: stop all; wakeAll; join (cooperative)
      timeoutsBefore = S.timeoutSteps - t0;
      report();
      return;
    }
    S.waitQuiescent();                 // nothing else can run (timeout-free): woken workers have polled and re-parked
    timeoutsBefore = S.timeoutSteps - t0;
    for (int j = 0; j < ntasks; ++j) startedAtQuiescence[static_cast<size_t>(j)] = started[static_cast<size_t>(j)].load();
    report();
  });
  S.runPool();
  // reached only when the controller did not finish (budget / deadlock before the report)
  printf("%s %d %d | no-report | status %s\n", mode.c_str(), n, arg, S.status().c_str());
  fflush(stdout);
  _exit(0);
}

int main() {
  std::string line;
  while (std::getline(std::cin, line)) {
    if (line.empty()) continue;
    fflush(stdout);
    pid_t pid = fork();
    if (pid == 0) {
      alarm(100);
      size_t semi = line.find(';');
      std::istringstream hd(line.substr(0, semi));
      std::string mode;
      int n = 1, arg = 0;
      hd >> mode >> n >> arg;
      std::vector<long> sched;
      if (semi != std::string::npos) {
        std::istringstream ps(line.substr(semi + 1));
        std::string first;
        ps >> first;
        sched = parseSched(ps);
      }
      runCase(mode, n, arg, sched);
      fflush(stdout);
      _exit(0);
    }
    int st = 0;
    waitpid(pid, &st, 0);
    if (!WIFEXITED(st) || WEXITSTATUS(st) != 0) {
      printf("CRASH status %d\n", st);
      fflush(stdout);
    }
  }
  return 0;
}
