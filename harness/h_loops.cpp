// Correspondence harness for the ORDER / PLACEMENT properties of the parallel loops (C14, C48, C15, C16).
// Drives the REAL dispenso::parallel_for / for_each_n templates from /repo with an INSTRUMENTED TaskSetT
// (parallel_for and for_each_n are templates over the task-set type), so that who runs which body invocation,
// with which states element, and before/after which taskSet.wait() is observed exactly and deterministically;
// and the real ConcurrentTaskSet / ThreadPool for parallel_invoke and for the deterministic overlap replay.
//
//   plan <kn> <start> <end> <mode> <chunk> <N> <maxThreads> <minItems> <gran> <wait> <ring> <exec> <reuse> <pre>
//        kn 0..7 = i8 u8 i16 u16 i32 u32 i64 u64;  mode s|a|c;  N = value returned by numPoolThreads()
//        ring = ring index reported for the calling thread (-1 = not a pool thread)
//        exec = how the instrumented task set runs the closures handed to scheduleBulk:
//               0 at wait()/after return, sequentially in index order      1 same, reverse order
//               2 each on its own std::thread started inside scheduleBulk   3 own threads started at wait()
//        reuse = reuseExistingState, pre = elements already in the container
//      -> "plan n  w j lo hi st en ex ... | nstates K nsched S nwaits W"
//         per body invocation (sorted by entry stamp): w 0=calling thread before any wait(), 1=calling thread
//         after a wait(), 2=inside scheduled closure j;  st = index of the states element; en/ex = entry/exit stamps
//   ovl <N> <maxThreads> <gran> <size> <mode> <wait>
//        REAL TaskSet + ThreadPool(N), int64 range [0,size): the body of the chunk starting at 0 blocks (<= 400 ms)
//        until the tail invocation has started (so do the other chunks), the tail invocation blocks (<= 400 ms) until that body is inside
//      -> "ovl both B stateconc S maxconc M nstates K"      (B=1: both were inside the body at the same time)
//   feplan <cat> <n> <N> <maxThreads> <wait> <exec>     cat ra|bi|fw
//      -> "feplan n  cnt who ... | nsched S nwaits W"    per element: call count, runner (-1 caller pre-wait, -2 caller post-wait, j closure)
//   fecap <cat> <n> <N> <maxThreads> <real 0|1> <api n|p>   wait=false; chunks kept queued, then the caller's heap functor is
//        retargeted, poisoned and freed before they run  -> "fecap n cnt... | bad B decoy D nsched S parked P"
//   pi <N> <cost> <shape>       shape = arities per level separated by ',' e.g. 3,2,2 ; leaves below the last level;
//                               or L<d> / R<d> = left / right comb of depth d (arity 2), Z<d> = zigzag comb;
//                               optional 4th argument 1 = forced overload (4N+2 blocker tasks parked on a latch);
//                               cost heavy|light = TaskCost::kHeavy | kLightweight ConcurrentTaskSet
//                               (parallel_invoke only accepts a ConcurrentTaskSet&)
//      -> "pi nodes M  (kind parentIdx childPos arity cnt dec depth pdepth lastok) ..."   nodes in preorder
#include <algorithm>
#include <atomic>
#include <chrono>
#include <cstdio>
#include <cstdlib>
#include <cstring>
#include <forward_list>
#include <functional>
#include <iostream>
#include <list>
#include <map>
#include <memory>
#include <mutex>
#include <set>
#include <sstream>
#include <string>
#include <thread>
#include <vector>
#include <unistd.h>

#define private public
#define protected public
#include <dispenso/parallel_for.h>
#include <dispenso/for_each.h>
#include <dispenso/parallel_invoke.h>
#include <dispenso/thread_pool.h>
#include <dispenso/task_set.h>
#undef private
#undef protected

static std::map<int, std::unique_ptr<dispenso::ThreadPool>> g_pools;
static dispenso::ThreadPool& poolFor(int n) {
  auto& p = g_pools[n];
  if (!p) p.reset(new dispenso::ThreadPool(static_cast<size_t>(n)));
  return *p;
}

static long g_caseNo = 0;
static std::atomic<long> g_calls{0};
static const long kCallCap = 200000;
static std::atomic<long> g_clock{0};
static thread_local long tl_task = -1;

struct FakePool {
  int dummy = 0;
};

// Instrumented task set: the minimal interface parallel_for / for_each_n use.
struct MockTaskSet {
  FakePool fp;
  ssize_t N = 0;
  int exec = 0;
  std::vector<std::function<void()>> pending;
  std::vector<std::thread> threads;
  std::atomic<int> nwaits{0};
  size_t nsched = 0;

  ssize_t numPoolThreads() const {
    return N;
  }
  FakePool& pool() {
    return fp;
  }
  template <typename Gen>
  void scheduleBulk(size_t count, Gen&& gen) {
    for (size_t i = 0; i < count; ++i) {
      auto fn = gen(i);
      long id = static_cast<long>(nsched++);
      std::function<void()> w = [fn, id]() mutable {
        tl_task = id;
        fn();
        tl_task = -1;
      };
      if (exec == 2) {
        threads.emplace_back(std::move(w));
      } else {
        pending.push_back(std::move(w));
      }
    }
  }
  void drain() {
    std::vector<std::function<void()>> p;
    p.swap(pending);
    if (exec == 1) std::reverse(p.begin(), p.end());
    if (exec == 3) {
      for (auto& w : p) threads.emplace_back(std::move(w));
    } else {
      for (auto& w : p) w();
    }
    for (auto& t : threads) t.join();
    threads.clear();
  }
  bool wait() {
    drain();
    nwaits.fetch_add(1);
    return true;
  }
};

struct State {
  int idx = -1;
  State() {}
};

template <typename T>
static std::string tostr(T v) {
  std::ostringstream os;
  if (sizeof(T) == 1) os << static_cast<int>(v);
  else os << v;
  return os.str();
}
template <typename T>
static T parseT(const std::string& s) {
  if (std::is_signed<T>::value) return static_cast<T>(strtoll(s.c_str(), nullptr, 10));
  return static_cast<T>(strtoull(s.c_str(), nullptr, 10));
}

struct CallRec {
  int who;
  long task;
  std::string lo, hi;
  int state;
  const void* addr;
  long en, ex;
};

template <typename T>
static void runPlan(std::istringstream& in) {
  std::string ss, es, mode, chs;
  long N;
  int minItems, gran, wait, ring, exec, reuse, pre;
  long long maxThreads;
  in >> ss >> es >> mode >> chs >> N >> maxThreads >> minItems >> gran >> wait >> ring >> exec >> reuse >> pre;
  T s = parseT<T>(ss), e = parseT<T>(es);
  MockTaskSet ts;
  ts.N = N;
  ts.exec = exec;
  std::list<State> states;
  int nextState = 0;
  auto gen = [&]() {
    State st;
    st.idx = nextState++;
    return st;
  };
  for (int i = 0; i < pre; ++i) states.emplace_back(gen());
  std::mutex mu;
  std::vector<CallRec> recs;
  std::atomic<int> inside{0}, maxInside{0};
  int rdv = (exec >= 2) ? 3 : 0;
  g_calls = 0;
  g_clock = 0;
  dispenso::ParForOptions opt;
  opt.maxThreads = static_cast<uint32_t>(maxThreads);
  opt.minItemsPerChunk = static_cast<uint32_t>(minItems);
  opt.granularity = static_cast<uint32_t>(gran);
  opt.wait = wait != 0;
  opt.reuseExistingState = reuse != 0;
  auto body = [&](State& st, T a, T b) {
    long en = g_clock.fetch_add(1);
    long ncall = g_calls.fetch_add(1);
    if (ncall > kCallCap) {
      printf("OVERRUN %ld\n", g_caseNo);
      fflush(stdout);
      _exit(3);
    }
    int now = inside.fetch_add(1) + 1;
    int m = maxInside.load();
    while (now > m && !maxInside.compare_exchange_weak(m, now)) {
    }
    if (rdv > 0 && ncall < 12) {
      auto t0 = std::chrono::steady_clock::now();
      while (maxInside.load() < rdv && std::chrono::steady_clock::now() - t0 < std::chrono::milliseconds(3)) {
        std::this_thread::yield();
      }
    }
    CallRec r;
    r.task = tl_task;
    r.who = tl_task >= 0 ? 2 : (ts.nwaits.load() > 0 ? 1 : 0);
    r.lo = tostr(a);
    r.hi = tostr(b);
    r.state = -1;
    r.addr = &st;
    r.en = en;
    inside.fetch_sub(1);
    r.ex = g_clock.fetch_add(1);
    std::lock_guard<std::mutex> lk(mu);
    recs.push_back(r);
  };
  dispenso::detail::PerPoolPerThreadInfo::registerPool(&ts.fp, nullptr, ring);
  if (mode == "s") {
    auto r = dispenso::makeChunkedRange(s, e, dispenso::ParForChunking::kStatic);
    dispenso::parallel_for(ts, states, gen, r, body, opt);
  } else if (mode == "a") {
    auto r = dispenso::makeChunkedRange(s, e, dispenso::ParForChunking::kAdaptive);
    dispenso::parallel_for(ts, states, gen, r, body, opt);
  } else {
    T ch = parseT<T>(chs);
    auto r = dispenso::makeChunkedRange(s, e, ch);
    dispenso::parallel_for(ts, states, gen, r, body, opt);
  }
  dispenso::detail::PerPoolPerThreadInfo::registerPool(nullptr, nullptr, -1);
  int nwaitsInside = ts.nwaits.load();
  ts.drain();  // what the user's taskSet.wait() does after a wait=false call
  std::sort(recs.begin(), recs.end(), [](const CallRec& x, const CallRec& y) { return x.en < y.en; });
  // the states element an invocation used = its position in the (node-stable) container at the end
  {
    std::map<const void*, int> pos;
    int k = 0;
    for (auto& st : states) pos[&st] = k++;
    for (auto& r : recs) {
      auto it = pos.find(r.addr);
      r.state = it == pos.end() ? -1 : it->second;
    }
  }
  printf("plan %zu", recs.size());
  for (auto& r : recs)
    printf("  %d %ld %s %s %d %ld %ld", r.who, r.task, r.lo.c_str(), r.hi.c_str(), r.state, r.en, r.ex);
  int orderOk = 1;
  printf(" | nstates %zu nsched %zu nwaits %d order %d\n", states.size(), ts.nsched, nwaitsInside, orderOk);
}

// ---------------------------------------------------------------------------------------------------- ovl
struct CState {
  std::atomic<int> inUse{0};
  int idx = -1;
  CState() {}
  CState(const CState& o) : inUse(0), idx(o.idx) {}
};

static void runOvl(std::istringstream& in) {
  int N, gran, wait;
  long long maxThreads, size;
  std::string mode;
  in >> N >> maxThreads >> gran >> size >> mode >> wait;
  dispenso::ThreadPool& pool = poolFor(N);
  std::list<CState> states;
  int nextState = 0;
  auto gen = [&]() {
    CState st;
    st.idx = nextState++;
    return st;
  };
  std::atomic<int> inside{0}, maxInside{0}, stateConc{0};
  std::atomic<int> tailStarted{0}, firstInside{0}, both{0}, release{0};
  int64_t trimmed = gran > 1 ? size - size % gran : size;
  int target = static_cast<int>(maxThreads) + 1;
  dispenso::ParForOptions opt;
  opt.maxThreads = static_cast<uint32_t>(maxThreads);
  opt.granularity = static_cast<uint32_t>(gran);
  opt.wait = wait != 0;
  auto spin = [](std::atomic<int>& flag) {
    auto t0 = std::chrono::steady_clock::now();
    while (!flag.load() && std::chrono::steady_clock::now() - t0 < std::chrono::milliseconds(400)) {
      std::this_thread::yield();
    }
    return flag.load() != 0;
  };
  auto body = [&](CState& st, int64_t a, int64_t b) {
    int u = st.inUse.fetch_add(1) + 1;
    int sc = stateConc.load();
    while (u > sc && !stateConc.compare_exchange_weak(sc, u)) {
    }
    int now = inside.fetch_add(1) + 1;
    int m = maxInside.load();
    while (now > m && !maxInside.compare_exchange_weak(m, now)) {
    }
    if (b <= trimmed) {
      // a chunk of the parallel part: stay inside until the tail invocation has started
      if (a == 0) firstInside.store(1);
      if (spin(tailStarted)) spin(release);
    } else if (a == trimmed && trimmed < size) {
      tailStarted.store(1);
      if (spin(firstInside)) {
        // chunk 0 (states[0]) is inside right now, and so are we (states[0] again on the defective path)
        if (st.inUse.load() >= 2) both.store(1);
        auto t0 = std::chrono::steady_clock::now();
        while (maxInside.load() < target && std::chrono::steady_clock::now() - t0 < std::chrono::milliseconds(400)) {
          std::this_thread::yield();
        }
      }
      release.store(1);
    }
    inside.fetch_sub(1);
    st.inUse.fetch_sub(1);
  };
  {
    dispenso::TaskSet ts(pool);
    if (mode == "s") {
      auto r = dispenso::makeChunkedRange(int64_t{0}, static_cast<int64_t>(size), dispenso::ParForChunking::kStatic);
      dispenso::parallel_for(ts, states, gen, r, body, opt);
    } else if (mode == "a") {
      auto r = dispenso::makeChunkedRange(int64_t{0}, static_cast<int64_t>(size), dispenso::ParForChunking::kAdaptive);
      dispenso::parallel_for(ts, states, gen, r, body, opt);
    } else {
      auto r = dispenso::makeChunkedRange(int64_t{0}, static_cast<int64_t>(size), static_cast<int64_t>(atoll(mode.c_str())));
      dispenso::parallel_for(ts, states, gen, r, body, opt);
    }
    ts.wait();
  }
  printf("ovl both %d stateconc %d maxconc %d nstates %zu\n", both.load(), stateConc.load(), maxInside.load(), states.size());
}

// ---------------------------------------------------------------------------------------------------- feplan
struct Elem {
  std::atomic<int> cnt{0};
  std::atomic<long> who{-9};
};

template <typename Cont>
static void runFePlanC(size_t n, long N, long long maxThreads, int wait, int exec) {
  Cont c(n);
  MockTaskSet ts;
  ts.N = N;
  ts.exec = exec;
  dispenso::ForEachOptions opt;
  opt.maxThreads = static_cast<uint32_t>(maxThreads);
  opt.wait = wait != 0;
  dispenso::for_each_n(ts, c.begin(), n, [&](Elem& el) {
    el.cnt.fetch_add(1);
    el.who.store(tl_task >= 0 ? tl_task : (ts.nwaits.load() > 0 ? -2 : -1));
  }, opt);
  int nw = ts.nwaits.load();
  ts.drain();
  printf("feplan %zu ", n);
  for (auto& el : c) printf(" %d %ld", el.cnt.load(), el.who.load());
  printf(" | nsched %zu nwaits %d\n", ts.nsched, nw);
}

static void runFePlan(std::istringstream& in) {
  std::string cat;
  size_t n;
  long N;
  long long maxThreads;
  int wait, exec;
  in >> cat >> n >> N >> maxThreads >> wait >> exec;
  if (cat == "ra") runFePlanC<std::vector<Elem>>(n, N, maxThreads, wait, exec);
  else if (cat == "bi") runFePlanC<std::list<Elem>>(n, N, maxThreads, wait, exec);
  else runFePlanC<std::forward_list<Elem>>(n, N, maxThreads, wait, exec);
}

// ---------------------------------------------------------------------------------------------------- fecap
// Does every scheduled chunk of for_each_n(wait=false) own the functor VALUE it was given at schedule time?
// The functor is a heap object (state: pointer to the per-element counters + a validity canary).  All chunks are kept
// queued while for_each_n returns (instrumented task set: closures deferred; real pool: every worker parked on a gate);
// then the caller's functor is retargeted to a decoy array, its canary poisoned and the object freed; only then the
// chunks run.  An application that sees the poisoned canary / lands in the decoy means the chunk did not carry its own
// copy ("function not applied once per element").
static const uint64_t kCanary = 0x600DF00D600DF00DULL;
static std::atomic<long> g_badApps{0};
struct CapElem {
  int id = 0;
};
struct ApplyFn {
  char pad[32];  // keep the live fields away from the bytes an allocator scribbles into freed blocks
  std::atomic<int>* counters;
  volatile uint64_t canary;
  void hit(int id) const {
    if (canary != kCanary) {
      g_badApps.fetch_add(1);
      return;
    }
    counters[id].fetch_add(1);
  }
  void operator()(CapElem& el) const {
    hit(el.id);
  }
  void operator()(const int& id) const {
    hit(id);
  }
};

template <typename Cont, typename TS>
static void capCall(TS& ts, Cont& c, size_t n, ApplyFn& fn, const dispenso::ForEachOptions& opt, bool pairApi) {
  if (pairApi) {
    auto e = c.begin();
    std::advance(e, static_cast<ptrdiff_t>(n));
    dispenso::for_each(ts, c.begin(), e, fn, opt);
  } else {
    dispenso::for_each_n(ts, c.begin(), n, fn, opt);
  }
}

template <typename Cont>
static void runFeCapC(Cont& c, size_t n, long N, long long maxThreads, int realPool, bool pairApi) {
  std::vector<std::atomic<int>> counters(n + 1), decoy(n + 1);
  for (auto& x : counters) x.store(0);
  for (auto& x : decoy) x.store(0);
  g_badApps = 0;
  dispenso::ForEachOptions opt;
  opt.maxThreads = static_cast<uint32_t>(maxThreads);
  opt.wait = false;
  ApplyFn* fn = new ApplyFn();
  memset(fn->pad, 0, sizeof(fn->pad));
  fn->counters = counters.data();
  fn->canary = kCanary;
  auto spoil = [&]() {
    fn->counters = decoy.data();
    fn->canary = 0xDEADDEADDEADDEADULL;
    delete fn;
  };
  size_t nsched = 0;
  int parkedOk = 1;
  if (!realPool) {
    MockTaskSet ts;
    ts.N = N;
    ts.exec = 0;
    capCall(ts, c, n, *fn, opt, pairApi);
    spoil();
    ts.drain();
    nsched = ts.nsched;
  } else {
    dispenso::ThreadPool pool(static_cast<size_t>(N));
    std::atomic<int> parked{0}, gate{0};
    for (long i = 0; i < N; ++i) {
      pool.schedule(
          [&parked, &gate]() {
            parked.fetch_add(1);
            while (!gate.load()) std::this_thread::sleep_for(std::chrono::microseconds(50));
          },
          dispenso::ForceQueuingTag());
    }
    auto t0 = std::chrono::steady_clock::now();
    while (parked.load() < N && std::chrono::steady_clock::now() - t0 < std::chrono::seconds(3)) {
      std::this_thread::sleep_for(std::chrono::microseconds(100));
    }
    parkedOk = parked.load() == N ? 1 : 0;
    {
      dispenso::TaskSet ts(pool);
      capCall(ts, c, n, *fn, opt, pairApi);
      spoil();
      gate.store(1);
      ts.wait();
    }
  }
  long dec = 0;
  for (auto& x : decoy) dec += x.load();
  printf("fecap %zu ", n);
  for (size_t i = 0; i < n; ++i) printf(" %d", counters[i].load());
  printf(" | bad %ld decoy %ld nsched %zu parked %d\n", g_badApps.load(), dec, nsched, parkedOk);
}

//   fecap <cat> <n> <N> <maxThreads> <real 0|1> <api n|p>    cat ra|bi|fw|st (vector, list, forward_list, set); wait=false
static void runFeCap(std::istringstream& in) {
  std::string cat, api;
  size_t n;
  long N;
  long long maxThreads;
  int realPool;
  in >> cat >> n >> N >> maxThreads >> realPool >> api;
  bool pairApi = api == "p";
  if (cat == "ra") {
    std::vector<CapElem> c(n);
    int k = 0;
    for (auto& e : c) e.id = k++;
    runFeCapC(c, n, N, maxThreads, realPool, pairApi);
  } else if (cat == "bi") {
    std::list<CapElem> c(n);
    int k = 0;
    for (auto& e : c) e.id = k++;
    runFeCapC(c, n, N, maxThreads, realPool, pairApi);
  } else if (cat == "fw") {
    std::forward_list<CapElem> c(n);
    int k = 0;
    for (auto& e : c) e.id = k++;
    runFeCapC(c, n, N, maxThreads, realPool, pairApi);
  } else {
    std::set<int> c;
    for (size_t i = 0; i < n; ++i) c.insert(static_cast<int>(i));
    runFeCapC(c, n, N, maxThreads, realPool, pairApi);
  }
}

// ---------------------------------------------------------------------------------------------------- pi
struct Node {
  int parent = -1, pos = 0, arity = 0;  // arity 0 = leaf
  std::vector<int> kids;
  std::atomic<int> cnt{0};
  int dec = -1;     // 0 = ran inside the schedule() call on the scheduling thread with the inline guard (depth+1)
                    // 1 = ran inside the schedule() call, no guard (zero-thread pool)   2 = ran elsewhere/later (queued)
                    // 3 = last functor, called directly
  int depth = -1;   // PerPoolPerThreadInfo::inlineDepth() inside the functor
  int pdepth = -1;  // ... in the parent at the time of the parallel_invoke call
  int lastok = 1;   // for last functors: ran on the calling thread, during the call
};
static std::vector<std::unique_ptr<Node>> g_nodes;
static thread_local int tl_inCall = -1;  // node whose parallel_invoke call is in progress on this thread

static void runNode(dispenso::ConcurrentTaskSet& tasks, int idx, std::thread::id callerTid, int callNode);

template <size_t... I>
static void invokeKids(dispenso::ConcurrentTaskSet& tasks, Node& nd, int self, std::index_sequence<I...>) {
  std::thread::id me = std::this_thread::get_id();
  dispenso::parallel_invoke(tasks, [&tasks, &nd, self, me]() { runNode(tasks, nd.kids[I], me, self); }...);
}

static void runNode(dispenso::ConcurrentTaskSet& tasks, int idx, std::thread::id callerTid, int callNode) {
  Node& nd = *g_nodes[idx];
  nd.cnt.fetch_add(1);
  int depth = dispenso::detail::PerPoolPerThreadInfo::inlineDepth();
  nd.depth = depth;
  bool during = (std::this_thread::get_id() == callerTid) && (tl_inCall == callNode);
  if (nd.parent >= 0) {
    Node& par = *g_nodes[nd.parent];
    bool last = nd.pos + 1 == par.arity;
    if (last) {
      nd.dec = 3;
      nd.lastok = during ? 1 : 0;
    } else if (during) {
      nd.dec = (depth == nd.pdepth + 1) ? 0 : 1;
    } else {
      nd.dec = 2;
    }
  }
  if (nd.arity > 0) {
    for (int k : nd.kids) g_nodes[k]->pdepth = depth;
    int saved = tl_inCall;
    tl_inCall = idx;
    switch (nd.arity) {
      case 1: invokeKids(tasks, nd, idx, std::make_index_sequence<1>()); break;
      case 2: invokeKids(tasks, nd, idx, std::make_index_sequence<2>()); break;
      case 3: invokeKids(tasks, nd, idx, std::make_index_sequence<3>()); break;
      case 4: invokeKids(tasks, nd, idx, std::make_index_sequence<4>()); break;
      case 5: invokeKids(tasks, nd, idx, std::make_index_sequence<5>()); break;
      case 6: invokeKids(tasks, nd, idx, std::make_index_sequence<6>()); break;
      case 7: invokeKids(tasks, nd, idx, std::make_index_sequence<7>()); break;
      default: invokeKids(tasks, nd, idx, std::make_index_sequence<8>()); break;
    }
    tl_inCall = saved;
  }
}

static int buildTree(const std::vector<int>& shape, size_t level, int parent, int pos) {
  int idx = static_cast<int>(g_nodes.size());
  g_nodes.emplace_back(new Node());
  g_nodes[idx]->parent = parent;
  g_nodes[idx]->pos = pos;
  if (level < shape.size()) {
    int ar = shape[level];
    g_nodes[idx]->arity = ar;
    for (int i = 0; i < ar; ++i) {
      int k = buildTree(shape, level + 1, idx, i);
      g_nodes[idx]->kids.push_back(k);
    }
  }
  return idx;
}

// left comb: the first (scheduled) functor recurses, the last is a leaf; right comb: the last (direct) one recurses
static int buildComb(int depth, bool left, int parent, int pos) {
  int idx = static_cast<int>(g_nodes.size());
  g_nodes.emplace_back(new Node());
  g_nodes[idx]->parent = parent;
  g_nodes[idx]->pos = pos;
  if (depth > 0) {
    g_nodes[idx]->arity = 2;
    int k0 = left ? buildComb(depth - 1, left, idx, 0) : buildComb(0, left, idx, 0);
    int k1 = left ? buildComb(0, left, idx, 1) : buildComb(depth - 1, left, idx, 1);
    g_nodes[idx]->kids.push_back(k0);
    g_nodes[idx]->kids.push_back(k1);
  }
  return idx;
}

// zigzag comb of `depth` levels: the recursion goes through the FIRST (scheduled) functor on even levels and through the
// LAST (direct) functor on odd levels, so the inline depth grows by one every two levels
static int buildZig(int depth, int level, int parent, int pos) {
  int idx = static_cast<int>(g_nodes.size());
  g_nodes.emplace_back(new Node());
  g_nodes[idx]->parent = parent;
  g_nodes[idx]->pos = pos;
  if (depth > 0) {
    g_nodes[idx]->arity = 2;
    bool left = (level % 2) == 0;
    int k0 = left ? buildZig(depth - 1, level + 1, idx, 0) : buildZig(0, level + 1, idx, 0);
    int k1 = left ? buildZig(0, level + 1, idx, 1) : buildZig(depth - 1, level + 1, idx, 1);
    g_nodes[idx]->kids.push_back(k0);
    g_nodes[idx]->kids.push_back(k1);
  }
  return idx;
}

static void runPi(std::istringstream& in) {
  int N, overload = 0;
  std::string cost, shapeS;
  in >> N >> cost >> shapeS;
  in >> overload;
  std::vector<int> shape;
  {
    std::istringstream sh(shapeS);
    std::string tok;
    while (std::getline(sh, tok, ',')) {
      int a = atoi(tok.c_str());
      if (a < 1) a = 1;
      if (a > 8) a = 8;
      shape.push_back(a);
    }
  }
  g_nodes.clear();
  if (shapeS[0] == 'L' || shapeS[0] == 'R') {
    buildComb(atoi(shapeS.c_str() + 1), shapeS[0] == 'L', -1, 0);
  } else if (shapeS[0] == 'Z') {
    buildZig(atoi(shapeS.c_str() + 1), 0, -1, 0);
  } else {
    buildTree(shape, 0, -1, 0);
  }
  dispenso::ThreadPool& pool = poolFor(N);
  std::atomic<int> release{0};
  int nblock = 0;
  {
    dispenso::ConcurrentTaskSet tasks(pool, cost == "light" ? dispenso::TaskCost::kLightweight : dispenso::TaskCost::kHeavy);
    // forced overload: blocker tasks parked on a latch keep outstandingTaskCount_ above every load factor
    // (kLightweight: 4 * numThreads, kHeavy: max(numThreads + 1, 2 * numThreads)) while the program tree is submitted.
    // (A zero-thread pool runs force-queued tasks at once, so it gets no blockers; it is overloaded by nesting alone.)
    nblock = (overload && N > 0) ? 4 * N + 2 : 0;
    for (int i = 0; i < nblock; ++i) {
      tasks.schedule(
          [&release]() {
            while (!release.load()) std::this_thread::sleep_for(std::chrono::microseconds(100));
          },
          dispenso::ForceQueuingTag());
    }
    tl_inCall = -1;
    runNode(tasks, 0, std::this_thread::get_id(), -1);
    release.store(1);
    tasks.wait();
  }
  printf("pi %zu ", g_nodes.size());
  for (auto& n : g_nodes)
    printf(" %d %d %d %d %d %d %d %d", n->parent, n->pos, n->arity, n->cnt.load(), n->dec, n->depth, n->pdepth, n->lastok);
  printf(" | blockers %d\n", nblock);
  g_nodes.clear();
}

int main() {
  std::string line;
  while (std::getline(std::cin, line)) {
    ++g_caseNo;
    std::istringstream in(line);
    std::string cmd;
    in >> cmd;
    if (cmd == "plan") {
      int kn;
      in >> kn;
      switch (kn) {
        case 0: runPlan<int8_t>(in); break;
        case 1: runPlan<uint8_t>(in); break;
        case 2: runPlan<int16_t>(in); break;
        case 3: runPlan<uint16_t>(in); break;
        case 4: runPlan<int32_t>(in); break;
        case 5: runPlan<uint32_t>(in); break;
        case 6: runPlan<int64_t>(in); break;
        default: runPlan<uint64_t>(in); break;
      }
    } else if (cmd == "ovl") {
      runOvl(in);
    } else if (cmd == "feplan") {
      runFePlan(in);
    } else if (cmd == "fecap") {
      runFeCap(in);
    } else if (cmd == "pi") {
      runPi(in);
    } else if (cmd.empty()) {
      continue;
    } else {
      printf("ERR unknown %s\n", cmd.c_str());
    }
    fflush(stdout);
  }
  g_pools.clear();
  return 0;
}
