// vsched: cooperative scheduler that turns the real (hooked) code into a deterministic,
// schedule-driven system (DESIGN.md §4 "L").  Header-only; include in exactly one TU per harness.
//
// Every enrolled thread stops at each DISPENSO_VERIF_POINT(site, addr) and at each futex call; the
// scheduler (the thread that calls run()) releases exactly one thread at a time, chosen by the
// schedule: a list of non-negative integers `c`, the k-th decision picks candidates[c % |candidates|]
// where candidates = runnable threads in ascending id order (followed, when timeouts are enabled,
// by the threads blocked in a *timed* futex wait, for which the decision means "time out now").
// When the list is exhausted decisions continue round-robin-ish from a fixed LCG (deterministic).
//
// Futex semantics served by the shim (the kernel's are trusted to be these):
//   WAIT(addr,val[,timeout]) : one step; blocks iff *addr == val at that step, else returns -1/EAGAIN.
//   WAKE(addr,n)             : one step; makes min(n, #waiters) waiters runnable again.  When n < #waiters
//                              each woken waiter is chosen by the next schedule integer (arbitrary-waiter semantics).
//   a woken waiter's return from futex() is again a step (site "futex.woken").
// Deadlock = no candidate while some thread is blocked.  Budget = max number of steps.
//
// Usage:   vs::Sched S(schedule, budget, allowTimeouts);
//          S.spawn([&]{ ... real code ...; S.result("tag", value); });   // any number of threads
//          S.run();      // returns when all finished, or on deadlock / budget exhaustion
//          S.print();    // "steps t:site ... | results t:tag=v ... | status done|deadlock|budget"
// After deadlock/budget the process must _exit (parked threads never resume); harnesses fork per case.
#pragma once
#include <condition_variable>
#include <cstdio>
#include <cstring>
#include <functional>
#include <mutex>
#include <string>
#include <thread>
#include <vector>
#include <cerrno>
#include <climits>
#include <linux/futex.h>
#include <time.h>

namespace vs {

enum class St { Running, AtPoint, Blocked, Finished };

struct Th {
  St st = St::Running;
  std::string site;
  const void* addr = nullptr;
  int* faddr = nullptr;     // futex address when Blocked
  bool timed = false;       // blocked with a timeout
  bool granted = false;
  bool timedOut = false;
  std::condition_variable cv;
  std::thread thr;
  std::vector<std::string> results;
};

class Sched;
static Sched* g_sched = nullptr;
static thread_local int t_self = -1;

class Sched {
 public:
  Sched(std::vector<long> schedule, long budget, bool allowTimeouts)
      : sched_(std::move(schedule)), budget_(budget), allowTimeouts_(allowTimeouts) {
    ths_.reserve(1024);   // spawned threads index ths_ while later spawns push_back: never reallocate
    g_sched = this;
  }

  int spawn(std::function<void()> fn) {
    Th* t = new Th();
    int id;
    {
      std::unique_lock<std::mutex> lk(mu_);
      id = static_cast<int>(ths_.size());
      ths_.push_back(t);
    }
    t->thr = std::thread([this, id, fn]() {
      t_self = id;
      point("start", nullptr);
      fn();
      std::unique_lock<std::mutex> lk(mu_);
      ths_[id]->st = St::Finished;
      sched_cv_.notify_all();
    });
    return id;
  }

  // record an operation result for the calling enrolled thread (thread-local log, printed at the end)
  void result(const char* tag, long v) {
    if (t_self < 0) return;
    ths_[t_self]->results.push_back(std::string(tag) + "=" + std::to_string(v));
  }

  // a hook point: park until granted
  void point(const char* site, const void* addr) {
    if (t_self < 0 || freeRun_) return;
    std::unique_lock<std::mutex> lk(mu_);
    Th* t = ths_[t_self];
    t->st = St::AtPoint;
    t->site = site;
    t->addr = addr;
    t->granted = false;
    sched_cv_.notify_all();
    t->cv.wait(lk, [t]() { return t->granted; });
    t->st = St::Running;
  }

  // futex shim.  returns true when served.
  bool futex(int* uaddr, int op, int val, const struct timespec* timeout, int* result) {
    if (t_self < 0 || freeRun_) return false;
    int cmd = op & ~FUTEX_PRIVATE_FLAG;
    if (cmd == FUTEX_WAIT) {
      point("futex.wait", uaddr);
      std::unique_lock<std::mutex> lk(mu_);
      Th* t = ths_[t_self];
      if (__atomic_load_n(uaddr, __ATOMIC_SEQ_CST) != val) {
        errno = EAGAIN;
        *result = -1;
        return true;
      }
      t->st = St::Blocked;
      t->faddr = uaddr;
      t->timed = timeout != nullptr;
      t->granted = false;
      t->timedOut = false;
      sched_cv_.notify_all();
      t->cv.wait(lk, [t]() { return t->granted; });   // granted again at "futex.woken" / timeout
      t->st = St::Running;
      if (t->timedOut) {
        errno = ETIMEDOUT;
        *result = -1;
      } else {
        *result = 0;
      }
      return true;
    }
    if (cmd == FUTEX_WAKE) {
      point("futex.wake", uaddr);
      std::unique_lock<std::mutex> lk(mu_);
      std::vector<int> waiters;
      for (size_t i = 0; i < ths_.size(); ++i)
        if (ths_[i]->st == St::Blocked && ths_[i]->faddr == uaddr) waiters.push_back(static_cast<int>(i));
      int woken = 0;
      while (woken < val && !waiters.empty()) {
        size_t k = 0;
        if (static_cast<long>(waiters.size()) > static_cast<long>(val - woken)) k = static_cast<size_t>(nextChoice()) % waiters.size();
        Th* w = ths_[waiters[k]];
        w->st = St::AtPoint;      // must be scheduled once more to return from futex()
        w->site = "futex.woken";
        w->addr = uaddr;
        waiters.erase(waiters.begin() + static_cast<long>(k));
        ++woken;
      }
      *result = woken;
      return true;
    }
    return false;
  }

  // scheduler loop
  void run() {
    std::unique_lock<std::mutex> lk(mu_);
    while (true) {
      sched_cv_.wait(lk, [this]() {
        for (Th* t : ths_)
          if (t->st == St::Running) return false;
        return true;
      });
      std::vector<int> cand;
      bool anyBlocked = false, allFinished = true;
      for (size_t i = 0; i < ths_.size(); ++i) {
        if (ths_[i]->st == St::AtPoint) cand.push_back(static_cast<int>(i));
        if (ths_[i]->st != St::Finished) allFinished = false;
      }
      size_t nRunnable = cand.size();
      for (size_t i = 0; i < ths_.size(); ++i) {
        if (ths_[i]->st == St::Blocked) {
          anyBlocked = true;
          if (allowTimeouts_ && ths_[i]->timed) cand.push_back(static_cast<int>(i));
        }
      }
      size_t nTimed = cand.size() - nRunnable;
      if (allowSpurious_)      // a futex wait may return 0 although nobody woke it (signal, spurious wake-up): implementation-only probes
        for (size_t i = 0; i < ths_.size(); ++i)
          if (ths_[i]->st == St::Blocked) cand.push_back(static_cast<int>(i));
      if (allFinished) {
        status_ = "done";
        return;
      }
      if (cand.empty()) {
        status_ = anyBlocked ? "deadlock" : "done";
        return;
      }
      if (static_cast<long>(steps_.size()) >= budget_) {
        status_ = "budget";
        return;
      }
      size_t k = static_cast<size_t>(nextChoice()) % cand.size();
      Th* t = ths_[cand[k]];
      if (k >= nRunnable + nTimed) {   // spurious return of a blocked waiter
        t->timedOut = false;
        steps_.push_back(std::to_string(cand[k]) + ":futex.spurious");
      } else if (k >= nRunnable) {   // time out a blocked timed waiter
        t->timedOut = true;
        steps_.push_back(std::to_string(cand[k]) + ":futex.timeout");
      } else {
        steps_.push_back(std::to_string(cand[k]) + ":" + t->site);
      }
      t->st = St::Running;
      t->granted = true;
      t->cv.notify_all();
    }
  }

  const std::string& status() const { return status_; }
  void setSpurious(bool b) { allowSpurious_ = b; }

  // number of steps granted so far = index of the next step (callable from an enrolled thread while it runs: nobody else does)
  long nsteps() {
    std::unique_lock<std::mutex> lk(mu_);
    return static_cast<long>(steps_.size());
  }

  // snapshot helpers (call only after run() returned: every thread is parked or finished)
  void print(const std::string& extra = "") {
    printf("steps");
    for (auto& s : steps_) printf(" %s", s.c_str());
    printf(" | results");
    for (size_t i = 0; i < ths_.size(); ++i)
      for (auto& r : ths_[i]->results) printf(" %zu:%s", i, r.c_str());
    printf(" | blocked");
    for (size_t i = 0; i < ths_.size(); ++i)
      if (ths_[i]->st == St::Blocked) printf(" %zu", i);
    printf(" | %s | status %s\n", extra.c_str(), status_.c_str());
    fflush(stdout);
  }

  // let everything run freely to completion (only sensible when status is "done")
  void joinAll() {
    for (Th* t : ths_)
      if (t->thr.joinable()) t->thr.join();
  }

 private:
  long nextChoice() {
    if (pos_ < sched_.size()) return sched_[pos_++];
    lcg_ = lcg_ * 6364136223846793005ULL + 1442695040888963407ULL;
    return static_cast<long>((lcg_ >> 33) & 0x7fffffff);
  }

  std::mutex mu_;
  std::condition_variable sched_cv_;
  std::vector<Th*> ths_;
  std::vector<long> sched_;
  size_t pos_ = 0;
  unsigned long long lcg_ = 12345;
  long budget_;
  bool allowTimeouts_;
  bool freeRun_ = false;
  bool allowSpurious_ = false;
  std::vector<std::string> steps_;
  std::string status_ = "init";
};

}  // namespace vs

extern "C" void dispenso_verif_point(const char* site, const void* addr) {
  if (vs::g_sched) vs::g_sched->point(site, addr);
}
extern "C" int dispenso_verif_futex(int* uaddr, int op, int val, const struct timespec* timeout, int* result) {
  if (vs::g_sched && vs::g_sched->futex(uaddr, op, val, timeout, result)) return 1;
  return 0;
}
