// Lifetime-tracked element type for the SmallVector correspondence (C38), private to h_smallvec.cpp.
// LT<A> is alignas(A), carries one int64 value, and reports every constructor / destructor / assignment to a
// registry that lives OUTSIDE the objects (static open-addressing table keyed by address, no dynamic memory),
// so a copy from a destroyed object, a construction over a live object, a destructor on dead storage and a
// construction at a misaligned address are all detected even when the object's own bytes are garbage.
#pragma once
#include <cstddef>
#include <cstdint>
#include <cstring>

namespace lsv {

struct Counters {
  long nctor, ndtor, readdead, readmoved, dblctor, dtordead, assigndead, misaligned;
};
static Counters g_c;

enum { kTab = 1 << 14 };
static uintptr_t g_key[kTab];
static unsigned char g_state[kTab];  // 0 = no live object, 1 = alive, 2 = alive (moved-from)
static int g_used[kTab];
static int g_nused = 0;

static inline int slotOf(const void* p, bool create) {
  uintptr_t a = reinterpret_cast<uintptr_t>(p);
  size_t h = (a >> 3) * 0x9E3779B97F4A7C15ull >> 50;  // 14 bits
  for (int n = 0; n < kTab; ++n) {
    size_t i = (h + n) & (kTab - 1);
    if (g_key[i] == a) return static_cast<int>(i);
    if (g_key[i] == 0) {
      if (!create) return -1;
      g_key[i] = a;
      g_state[i] = 0;
      g_used[g_nused++] = static_cast<int>(i);
      return static_cast<int>(i);
    }
  }
  return -1;
}
static inline void resetRegistry() {
  for (int i = 0; i < g_nused; ++i) {
    g_key[g_used[i]] = 0;
    g_state[g_used[i]] = 0;
  }
  g_nused = 0;
  std::memset(&g_c, 0, sizeof(g_c));
}
static inline int stateOf(const void* p) {
  int s = slotOf(p, false);
  return s < 0 ? 0 : g_state[s];
}
static inline long liveObjects() {
  long n = 0;
  for (int i = 0; i < g_nused; ++i) n += g_state[g_used[i]] != 0;
  return n;
}
static inline void born(const void* p, size_t align) {
  ++g_c.nctor;
  if (reinterpret_cast<uintptr_t>(p) % align) ++g_c.misaligned;
  int s = slotOf(p, true);
  if (s < 0) return;
  if (g_state[s] != 0) ++g_c.dblctor;
  g_state[s] = 1;
}
static inline void died(const void* p) {
  ++g_c.ndtor;
  int s = slotOf(p, false);
  if (s < 0 || g_state[s] == 0) {
    ++g_c.dtordead;
    return;
  }
  g_state[s] = 0;
}
// the value of *p is about to be read by a copy / move
static inline void readFrom(const void* p) {
  int st = stateOf(p);
  if (st == 0) ++g_c.readdead;
  if (st == 2) ++g_c.readmoved;
}
static inline void movedFrom(const void* p) {
  int s = slotOf(p, false);
  if (s >= 0 && g_state[s] != 0) g_state[s] = 2;
}
static inline void assignedTo(const void* p) {
  int s = slotOf(p, false);
  if (s < 0 || g_state[s] == 0) {
    ++g_c.assigndead;
    return;
  }
  g_state[s] = 1;
}

template <size_t A>
struct alignas(A) LT {
  int64_t v;
  LT() : v(0) {
    born(this, A);
  }
  explicit LT(int64_t x) : v(x) {
    born(this, A);
  }
  LT(const LT& o) {
    readFrom(&o);
    v = o.v;
    born(this, A);
  }
  LT(LT&& o) noexcept {
    readFrom(&o);
    v = o.v;
    born(this, A);
    if (stateOf(&o) != 0) {
      movedFrom(&o);
      o.v = -1;
    }
  }
  LT& operator=(const LT& o) {
    readFrom(&o);
    v = o.v;
    assignedTo(this);
    return *this;
  }
  LT& operator=(LT&& o) noexcept {
    readFrom(&o);
    v = o.v;
    assignedTo(this);
    if (this != &o && stateOf(&o) != 0) {
      movedFrom(&o);
      o.v = -1;
    }
    return *this;
  }
  ~LT() {
    died(this);
  }
};

}  // namespace lsv
