// Native (unscheduled) harness for C20: wall-clock bracketing of the timed waits and the deferred-policy rule.
// One case per line; every verdict derived from the output is ONE-SIDED (cannot flake):
//   wf <req_ns> <notify>   CompletionEvent::waitFor(req); notify: 0 never, 1 before the call, 2 from another thread ~100us later
//   wu <req_ns> <notify>   CompletionEvent::waitUntil(steady_clock::now() + req)
//        -> "<wf|wu> <ret 0|1> <elapsed_ns> <completed_after_return 0|1>"
//   fut <deferred 0|1> <req_ns> <until 0|1>
//        Future on a 1-thread pool whose worker is parked inside a blocker task, so the functor cannot have started;
//        wait_for/wait_until(req) -> "fut <ready 0|1> <functor_runs_at_return> <ran_on_caller 0|1> <elapsed_ns> <value_ok 0|1>"
#include <dispenso/completion_event.h>
#include <dispenso/future.h>
#include <dispenso/latch.h>
#include <dispenso/thread_pool.h>
#include <atomic>
#include <chrono>
#include <cstdio>
#include <iostream>
#include <sstream>
#include <string>
#include <thread>

using Clock = std::chrono::steady_clock;

static long long nsSince(Clock::time_point t0) {
  return std::chrono::duration_cast<std::chrono::nanoseconds>(Clock::now() - t0).count();
}

int main() {
  std::string line;
  while (std::getline(std::cin, line)) {
    std::istringstream in(line);
    std::string cmd;
    in >> cmd;
    if (cmd == "wf" || cmd == "wu") {
      long long req;
      int notify;
      in >> req >> notify;
      dispenso::CompletionEvent e;
      std::thread helper;
      if (notify == 1) e.notify();
      if (notify == 2) helper = std::thread([&e]() {
        std::this_thread::sleep_for(std::chrono::microseconds(100));
        e.notify();
      });
      auto t0 = Clock::now();
      bool r;
      if (cmd == "wf") {
        r = e.waitFor(std::chrono::duration<double>(static_cast<double>(req) * 1e-9));
      } else {
        r = e.waitUntil(t0 + std::chrono::nanoseconds(req));
      }
      long long el = nsSince(t0);
      int completed = e.completed() ? 1 : 0;
      if (helper.joinable()) helper.join();
      printf("%s %d %lld %d\n", cmd.c_str(), r ? 1 : 0, el, completed);
    } else if (cmd == "fut") {
      int deferred, until;
      long long req;
      in >> deferred >> req >> until;
      dispenso::ThreadPool pool(1);
      dispenso::Latch started(1), release(1);
      pool.schedule([&]() {
        started.count_down();
        release.wait();
      }, dispenso::ForceQueuingTag());
      started.wait();   // the only worker is now parked inside the blocker
      std::atomic<int> runs{0};
      std::atomic<int> onCaller{0};
      auto caller = std::this_thread::get_id();
      int ready, runsAtReturn, onCallerAtReturn;
      long long el;
      int valueOk;
      {
        dispenso::Future<int> fut(
            [&]() {
              runs.fetch_add(1);
              if (std::this_thread::get_id() == caller) onCaller.store(1);
              return 42;
            },
            pool, dispenso::kNotAsync, deferred ? std::launch::deferred : dispenso::kNotDeferred);
        auto t0 = Clock::now();
        std::future_status st = until ? fut.wait_until(t0 + std::chrono::nanoseconds(req))
                                      : fut.wait_for(std::chrono::nanoseconds(req));
        el = nsSince(t0);
        runsAtReturn = runs.load();
        onCallerAtReturn = onCaller.load();
        ready = st == std::future_status::ready ? 1 : 0;
        release.count_down();
        valueOk = fut.get() == 42 ? 1 : 0;
      }
      printf("fut %d %d %d %lld %d %d\n", ready, runsAtReturn, onCallerAtReturn, el, valueOk, runs.load());
    } else if (!cmd.empty()) {
      printf("ERR %s\n", cmd.c_str());
    }
    fflush(stdout);
  }
  return 0;
}
