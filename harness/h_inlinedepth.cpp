// Harness for C46 (inline task execution never grows the stack without bound): measures, on the REAL code from /repo, how deep
// dispenso nests the inline execution of scheduled work on one thread.  One case per line, one fork per case (a runaway nesting is
// stopped by the bodies themselves before the small stack is exhausted; the fork is the safety net).
//
//   chain <site> <len> <N> <load> <stackKB>
//     A chain program: link i (i < len-1) schedules link i+1 at <site>; link 0 is scheduled by the driver thread T, which runs on a
//     stack of <stackKB> KB (pthread_attr_setstacksize).  Pool of N threads (N = 0: everything runs on T).
//     load = 1: B = poolLoadFactor + 8 blocker tasks parked on a latch are force-queued first (through the task set for the
//     task-set sites, so that outstandingTaskCount_ > taskSetLoadFactor_ too): workRemaining_ > poolLoadFactor_ for the whole run and
//     every worker is parked in a blocker, so T is the only running thread (deterministic).  load = 0: idle pool.
//   sites:  pool poolplaced poolbulk | tsk tskbulk | cts ctsh (kLightweight / kHeavy) ctsbulk ctshbulk | thenimm thenpool | pipe | graph
//           | waitnest (n independent tasks, each: own ConcurrentTaskSet, force-queue a leaf, wait -- nesting through wait(), not C46)
//
// Output (one line):
//   chain <site> <len> <N> <load> | nt <numThreads> plf <poolLoadFactor> tlf <taskSetLoadFactor> B <blockers> heavy <0/1> |
//     ran <links run> maxS <max nestS> maxW <max nestW> maxG <max inlineDepth seen> maxbytes <deepest body frame below T's base> |
//     segs <how>:<count>:<nS first>:<g first>:<out first>:<wr first>:<rec first>:<nS last>:<g last>:<out last>:<wr last>:<rec last>:<bytes/link> ... |
//     status ok|overflow|timeout|crash
//   how: 0 = entered from a worker loop / base; 1 = entered synchronously inside the schedule call that submitted it (inline);
//        2 = entered inside a wait() call of the harness; 3 = entered from the completion path of the previous link (then-chain,
//        pipeline continuation: same thread, deeper frame than the previous link's body).
//   nS = number of enclosing inline entries (how 1 or 3) on this thread including this one, nW = same for how 2; g = the thread's
//   PerPoolPerThreadInfo::inlineDepth() at body entry; out / wr = outstandingTaskCount_ / workRemaining_ sampled by the scheduling
//   link just before the call (exact under load = 1); rec = isPoolRecursive of the scheduling thread.
#include <atomic>
#include <cerrno>
#include <chrono>
#include <climits>
#include <condition_variable>
#include <cstdio>
#include <cstdlib>
#include <cstring>
#include <functional>
#include <iostream>
#include <mutex>
#include <sstream>
#include <string>
#include <thread>
#include <vector>
#include <pthread.h>
#include <sys/mman.h>
#include <sys/wait.h>
#include <unistd.h>
#define private public
#define protected public
#include <dispenso/future.h>
#include <dispenso/graph.h>
#include <dispenso/graph_executor.h>
#include <dispenso/pipeline.h>
#include <dispenso/task_set.h>
#include <dispenso/thread_pool.h>
#undef private
#undef protected

struct Rec {           // one per link, in shared memory
  int how, nS, nW, g, tid, rec;
  long out, wr, bytes;
  unsigned long fa;
  int done;
};
struct Shared {
  std::atomic<int> ran, overflow, finished;
  int nt;
  long plf, tlf, B;
};
static Shared* g_sh = nullptr;
static Rec* g_rec = nullptr;

enum Site { POOL, POOLPLACED, POOLBULK, TSK, TSKBULK, CTS, CTSH, CTSBULK, CTSHBULK, THENIMM, THENPOOL, PIPE, GRAPH, WAITNEST, NSITE };
static const char* kSiteNames[] = {"pool", "poolplaced", "poolbulk", "tsk", "tskbulk", "cts", "ctsh", "ctsbulk", "ctshbulk",
                                   "thenimm", "thenpool", "pipe", "graph", "waitnest"};

struct Ctx {
  Site site;
  int len;
  long limitBytes;
  dispenso::ThreadPool* pool = nullptr;
  dispenso::TaskSet* ts = nullptr;
  dispenso::ConcurrentTaskSet* cts = nullptr;
};

static thread_local int t_callkind = 0;   // 0 none, 1 inside a schedule call of the harness, 2 inside a wait call of the harness
static thread_local int t_nS = 0, t_nW = 0, t_nAll = 0;
static thread_local char* t_base = nullptr;
static thread_local int t_tid = -1;
static std::atomic<int> g_nextTid{1};
static char* g_Tbase = nullptr;            // frame address at the start of the driver thread T

static int myTid() {
  if (t_tid < 0) t_tid = g_nextTid.fetch_add(1);
  return t_tid;
}

static void sched(Ctx* c, int i);

// body of link i (scheduling-path sites)
static __attribute__((noinline)) void body(Ctx* c, int i) {
  int kind = t_callkind;
  t_callkind = 0;
  char* fa = static_cast<char*>(__builtin_frame_address(0));
  if (t_nAll == 0 && !t_base) t_base = fa;
  Rec& r = g_rec[i];
  int nS = t_nS + (kind == 1), nW = t_nW + (kind == 2);
  r.how = kind;
  r.nS = nS;
  r.nW = nW;
  r.g = dispenso::detail::PerPoolPerThreadInfo::inlineDepth();
  r.tid = myTid();
  r.bytes = static_cast<long>(t_base - fa);
  r.fa = reinterpret_cast<unsigned long>(fa);
  int sS = t_nS, sW = t_nW;
  t_nS = nS;
  t_nW = nW;
  ++t_nAll;
  g_sh->ran.fetch_add(1);
  if (r.bytes > c->limitBytes) {
    g_sh->overflow.store(1);
  } else if (i + 1 < c->len) {
    sched(c, i + 1);
  }
  r.done = 1;
  if (i + 1 >= c->len || g_sh->overflow.load()) g_sh->finished.store(1);
  --t_nAll;
  t_nS = sS;
  t_nW = sW;
  t_callkind = kind;
}

static void sample(Ctx* c, int i) {
  Rec& r = g_rec[i];
  r.wr = c->pool ? static_cast<long>(c->pool->workRemaining_.load()) : 0;
  r.out = c->ts ? static_cast<long>(c->ts->outstandingTaskCount_.load())
                : (c->cts ? static_cast<long>(c->cts->outstandingTaskCount_.load()) : 0);
  r.rec = c->pool && dispenso::detail::PerPoolPerThreadInfo::isPoolRecursive(c->pool) ? 1 : 0;
}

static void sched(Ctx* c, int i) {
  sample(c, i);
  int saved = t_callkind;
  t_callkind = 1;
  auto f = [c, i]() { body(c, i); };
  switch (c->site) {
    case POOL: c->pool->schedule(f); break;
    case POOLPLACED: c->pool->schedulePlaced(f); break;
    case POOLBULK: c->pool->scheduleBulk(1, [f](size_t) { return f; }); break;
    case TSK: c->ts->schedule(f); break;
    case TSKBULK: c->ts->scheduleBulk(1, [f](size_t) { return f; }); break;
    case CTS:
    case CTSH: c->cts->schedule(f); break;
    case CTSBULK:
    case CTSHBULK: c->cts->scheduleBulk(1, [f](size_t) { return f; }); break;
    default: break;
  }
  t_callkind = saved;
}

// body of link i for the completion-path sites (then-chains, pipeline continuation, graph): the chain is pre-built, the library
// dispatches link i+1 after the body of link i returned.  how = 3 when this body's frame lies deeper on the same thread than the
// previous link's body frame (the previous link's dispatch frame is then still on the stack), else the call kind / 0.
static __attribute__((noinline)) void cbody(Ctx* c, int i) {
  int kind = t_callkind;
  t_callkind = 0;
  char* fa = static_cast<char*>(__builtin_frame_address(0));
  if (!t_base) t_base = fa;
  Rec& r = g_rec[i];
  r.tid = myTid();
  r.fa = reinterpret_cast<unsigned long>(fa);
  r.g = dispenso::detail::PerPoolPerThreadInfo::inlineDepth();
  r.bytes = static_cast<long>(t_base - fa);
  if (i > 0 && g_rec[i - 1].done && g_rec[i - 1].tid == r.tid && r.fa < g_rec[i - 1].fa) {
    r.how = 3;
    r.nS = g_rec[i - 1].nS + 1;
    r.nW = g_rec[i - 1].nW;
  } else {
    r.how = kind;
    r.nS = (kind == 1);
    r.nW = (kind == 2);
  }
  g_sh->ran.fetch_add(1);
  if (r.bytes > c->limitBytes) g_sh->overflow.store(1);
  if (i + 1 < c->len) sample(c, i + 1);
  r.done = 1;
  if (i + 1 >= c->len) g_sh->finished.store(1);
  t_callkind = kind;
}

// ---------------------------------------------------------------------------------------------- load (blockers on a latch)
struct Gate {
  std::mutex m;
  std::condition_variable cv;
  bool open = false;
  std::atomic<int> parked{0};
  void wait() {
    std::unique_lock<std::mutex> lk(m);
    ++parked;
    cv.wait(lk, [this]() { return open; });
  }
  void release() {
    std::lock_guard<std::mutex> lk(m);
    open = true;
    cv.notify_all();
  }
};

static bool isTaskSetSite(Site s) { return s == TSK || s == TSKBULK || s == CTS || s == CTSH || s == CTSBULK || s == CTSHBULK; }

// ---------------------------------------------------------------------------------------------- one case, on the driver thread T
struct Case {
  Site site;
  int len, N, load, stackKB;
};

static void waitFinished(int ms) {
  for (int k = 0; k < ms * 10 && !g_sh->finished.load(); ++k) std::this_thread::sleep_for(std::chrono::microseconds(100));
}

static void runCase(const Case& cs) {
  g_Tbase = static_cast<char*>(__builtin_frame_address(0));
  t_base = g_Tbase;
  t_tid = 0;
  dispenso::ThreadPool pool(static_cast<size_t>(cs.N));
  Ctx c;
  c.site = cs.site;
  c.len = cs.len;
  c.limitBytes = static_cast<long>(cs.stackKB) * 1024 - 64 * 1024;
  c.pool = &pool;
  dispenso::TaskSet ts(pool);
  dispenso::ConcurrentTaskSet ctsl(pool, dispenso::TaskCost::kLightweight);
  dispenso::ConcurrentTaskSet ctsh(pool, dispenso::TaskCost::kHeavy);
  bool heavy = cs.site == CTSH || cs.site == CTSHBULK || cs.site == GRAPH;
  if (cs.site == TSK || cs.site == TSKBULK) c.ts = &ts;
  if (cs.site == CTS || cs.site == CTSBULK) c.cts = &ctsl;
  if (heavy) c.cts = &ctsh;
  g_sh->nt = static_cast<int>(pool.numThreads());
  g_sh->plf = static_cast<long>(pool.poolLoadFactor_.load());
  g_sh->tlf = c.ts ? static_cast<long>(ts.taskSetLoadFactor_) : static_cast<long>(ctsh.taskSetLoadFactor_);
  Gate gate;
  long B = 0;
  if (cs.load && cs.N > 0) {
    B = g_sh->plf + 8;
    auto blk = [&gate]() { gate.wait(); };
    for (long b = 0; b < B; ++b) {
      if (c.ts) ts.schedule(blk, dispenso::ForceQueuingTag());
      else if (c.cts && cs.site != GRAPH) c.cts->schedule(blk, dispenso::ForceQueuingTag());
      else pool.schedule(blk, dispenso::ForceQueuingTag());
    }
    for (int k = 0; k < 20000 && gate.parked.load() < cs.N; ++k) std::this_thread::sleep_for(std::chrono::microseconds(100));
    std::this_thread::sleep_for(std::chrono::milliseconds(2));    // let the workers settle inside the blockers
  }
  g_sh->B = B;
  auto openGate = [&]() {
    g_sh->finished.load();
    gate.release();
  };
  int detAt = -1;
  if (cs.site <= CTSHBULK) {
    sched(&c, 0);
    detAt = g_sh->ran.load();
    openGate();
    if (isTaskSetSite(cs.site)) {
      for (int k = 0; k < 200000 && !g_sh->finished.load(); ++k) {
        t_callkind = 2;
        if (c.ts) ts.wait(); else c.cts->wait();
        t_callkind = 0;
        if (!g_sh->finished.load()) std::this_thread::sleep_for(std::chrono::microseconds(50));
      }
    } else {
      waitFinished(15000);
    }
  }
  if (cs.site == THENIMM || cs.site == THENPOOL) {
    // head is force-queued (behind the blockers when load = 1); T builds the chain, then waits on head: Future::wait runs the
    // not-started functor inline on T (load = 1), or a worker has taken it (load = 0)
    std::atomic<int> go{0};
    dispenso::Future<void> head = dispenso::async(pool, std::launch::async | std::launch::deferred, [&c, &go]() {
      while (!go.load()) std::this_thread::yield();
      cbody(&c, 0);
    });
    std::vector<dispenso::Future<void>> keep;
    keep.reserve(static_cast<size_t>(cs.len));
    dispenso::Future<void> cur = head;
    Ctx* cp = &c;
    for (int i = 1; i < cs.len; ++i) {
      if (cs.site == THENIMM) {
        cur = cur.then([cp, i](dispenso::Future<void>&&) { cbody(cp, i); }, dispenso::kImmediateInvoker);
      } else {
        cur = cur.then([cp, i](dispenso::Future<void>&&) { cbody(cp, i); }, pool);
      }
      keep.push_back(cur);
    }
    sample(&c, 0);
    go.store(1);
    t_callkind = 2;
    head.wait();
    t_callkind = 0;
    detAt = g_sh->ran.load();
    openGate();
    waitFinished(15000);
    cur.wait();
  }
  if (cs.site == PIPE) {
    // generator (on the caller) -> serial stage; item 0 holds the serial stage until every item is queued behind it
    std::atomic<int> produced{0};
    int len = cs.len;
    Ctx* cp = &c;
    dispenso::pipeline(
        pool,
        [&produced, len]() -> dispenso::OpResult<int> {
          int k = produced.load();
          if (k >= len) return {};
          produced.store(k + 1);
          return k;
        },
        [cp, &produced, len](int i) {
          if (i == 0) {
            for (int k = 0; k < 100000 && produced.load() < len; ++k) std::this_thread::sleep_for(std::chrono::microseconds(100));
            std::this_thread::sleep_for(std::chrono::milliseconds(5));
          }
          cbody(cp, i);
        });
    detAt = 0;
  }
  dispenso::Graph graph;
  if (cs.site == GRAPH) {
    // comb: N_i -> [L_i (first ready dependent: continued in the loop), N_{i+1} (scheduled through the ConcurrentTaskSet)]
    std::vector<dispenso::Node*> ns;
    Ctx* cp = &c;
    for (int i = 0; i < cs.len; ++i) ns.push_back(&graph.addNode([cp, i]() { cbody(cp, i); }));
    for (int i = 0; i + 1 < cs.len; ++i) {
      dispenso::Node& leaf = graph.addNode([]() {});
      leaf.dependsOn(*ns[static_cast<size_t>(i)]);
      ns[static_cast<size_t>(i + 1)]->dependsOn(*ns[static_cast<size_t>(i)]);
    }
    setAllNodesIncomplete(graph);  // declared only as a friend of Node: found by ADL
    dispenso::ConcurrentTaskSetExecutor ex;
    sample(&c, 0);
    t_callkind = 1;
    ex(ctsh, graph, false);
    t_callkind = 0;
    detAt = g_sh->ran.load();
    openGate();
    t_callkind = 2;
    ctsh.wait();
    t_callkind = 0;
  }
  if (cs.site == WAITNEST) {
    // len independent tasks force-queued by T; each: own ConcurrentTaskSet, force-queue one leaf, wait().  Nesting through wait()
    // (a waiter runs whatever the pool hands it) -- recorded as nW; not part of C46's wording.
    Ctx* cp = &c;
    std::atomic<int> leaves{0};
    for (int i = 0; i < cs.len; ++i) {
      ctsl.schedule(
          [cp, i, &pool, &leaves]() {
            int kind = t_callkind;
            t_callkind = 0;
            char* fa = static_cast<char*>(__builtin_frame_address(0));
            if (!t_base) t_base = fa;
            Rec& r = g_rec[i];
            r.how = kind;
            r.nS = t_nS;
            r.nW = t_nW + (kind == 2);
            r.g = dispenso::detail::PerPoolPerThreadInfo::inlineDepth();
            r.tid = myTid();
            r.bytes = static_cast<long>(t_base - fa);
            r.fa = reinterpret_cast<unsigned long>(fa);
            int sW = t_nW;
            t_nW = r.nW;
            g_sh->ran.fetch_add(1);
            if (r.bytes > cp->limitBytes) {
              g_sh->overflow.store(1);
            } else {
              dispenso::ConcurrentTaskSet inner(pool, dispenso::TaskCost::kLightweight);
              inner.schedule([&leaves]() { leaves.fetch_add(1); }, dispenso::ForceQueuingTag());
              t_callkind = 2;
              inner.wait();
              t_callkind = 0;
            }
            r.done = 1;
            t_nW = sW;
            t_callkind = kind;
          },
          dispenso::ForceQueuingTag());
    }
    detAt = 0;
    openGate();
    t_callkind = 2;
    ctsl.wait();
    t_callkind = 0;
    g_sh->finished.store(1);
  }
  openGate();
  g_rec[cs.len].how = (cs.load == 1 || cs.N == 0) ? detAt : -1;     // slot len: bookkeeping (idle pools with threads: nothing is deterministic)
  // the task sets' destructors wait for the blockers
}

// ---------------------------------------------------------------------------------------------- reporting (parent process)
static void report(const Case& cs, const char* status) {
  int ran = g_sh->ran.load();
  long maxS = 0, maxW = 0, maxG = 0, maxB = 0;
  std::ostringstream segs;
  int i = 0, nseg = 0;
  while (i < cs.len && g_rec[i].fa != 0) {
    int j = i;
    while (j + 1 < cs.len && g_rec[j + 1].fa != 0 && g_rec[j + 1].how == g_rec[i].how &&
           ((g_rec[i].how == 1 || g_rec[i].how == 3)
                ? (g_rec[j + 1].tid == g_rec[j].tid && g_rec[j + 1].nS == g_rec[j].nS + 1 && (g_rec[i].how == 3 || g_rec[j + 1].rec == g_rec[j].rec) &&
                   (j == i || g_rec[j + 1].g - g_rec[j].g == g_rec[i + 1].g - g_rec[i].g))   // uniform inlineDepth step inside a segment
                : (g_rec[j + 1].nS == g_rec[j].nS && g_rec[j + 1].g == g_rec[j].g &&
                   (g_rec[j + 1].nW == g_rec[j].nW || (cs.site == WAITNEST && g_rec[j + 1].tid == g_rec[j].tid && g_rec[j + 1].nW == g_rec[j].nW + 1)))))
      ++j;
    const Rec &a = g_rec[i], &b = g_rec[j];
    long per = j > i ? (b.bytes - a.bytes) / (j - i) : 0;
    if (nseg < 400)
      segs << ' ' << a.how << ':' << (j - i + 1) << ':' << a.nS << ':' << a.g << ':' << a.out << ':' << a.wr << ':' << a.rec << ':' << b.nS << ':'
           << b.g << ':' << b.out << ':' << b.wr << ':' << b.rec << ':' << per << ':' << a.nW << ':' << b.nW;
    ++nseg;
    i = j + 1;
  }
  for (int k = 0; k < cs.len; ++k) {
    if (g_rec[k].fa == 0) continue;
    maxS = std::max<long>(maxS, g_rec[k].nS);
    maxW = std::max<long>(maxW, g_rec[k].nW);
    maxG = std::max<long>(maxG, g_rec[k].g);
    maxB = std::max<long>(maxB, g_rec[k].bytes);
  }
  bool heavy = cs.site == CTSH || cs.site == CTSHBULK || cs.site == GRAPH;
  printf("chain %s %d %d %d | nt %d plf %ld tlf %ld B %ld heavy %d det %d | ran %d maxS %ld maxW %ld maxG %ld maxbytes %ld nseg %d | segs%s | status %s\n",
         kSiteNames[cs.site], cs.len, cs.N, cs.load, g_sh->nt, g_sh->plf, g_sh->tlf, g_sh->B, heavy ? 1 : 0, g_rec[cs.len].how, ran, maxS, maxW,
         maxG, maxB, nseg, segs.str().c_str(), status);
  fflush(stdout);
}

static void* threadMain(void* p) {
  runCase(*static_cast<Case*>(p));
  return nullptr;
}

int main() {
  std::string line;
  while (std::getline(std::cin, line)) {
    if (line.empty()) continue;
    std::istringstream is(line);
    std::string cmd, site;
    Case cs{};
    is >> cmd >> site >> cs.len >> cs.N >> cs.load >> cs.stackKB;
    int s = -1;
    for (int k = 0; k < NSITE; ++k)
      if (site == kSiteNames[k]) s = k;
    if (cmd != "chain" || s < 0 || cs.len < 1 || cs.len > 200000 || cs.stackKB < 128) {
      printf("ERR bad case: %s\n", line.c_str());
      fflush(stdout);
      continue;
    }
    cs.site = static_cast<Site>(s);
    size_t bytes = sizeof(Shared) + sizeof(Rec) * static_cast<size_t>(cs.len + 1);
    void* mem = mmap(nullptr, bytes, PROT_READ | PROT_WRITE, MAP_SHARED | MAP_ANONYMOUS, -1, 0);
    memset(mem, 0, bytes);
    g_sh = new (mem) Shared();
    g_rec = reinterpret_cast<Rec*>(static_cast<char*>(mem) + sizeof(Shared));
    g_rec[cs.len].how = -1;
    fflush(stdout);
    pid_t pid = fork();
    if (pid == 0) {
      alarm(60);
      pthread_attr_t at;
      pthread_attr_init(&at);
      pthread_attr_setstacksize(&at, static_cast<size_t>(cs.stackKB) * 1024);
      pthread_t th;
      pthread_create(&th, &at, threadMain, &cs);
      pthread_join(th, nullptr);
      _exit(0);
    }
    int st = 0;
    waitpid(pid, &st, 0);
    const char* status = "ok";
    if (WIFSIGNALED(st)) status = WTERMSIG(st) == SIGALRM ? "timeout" : "crash";
    else if (g_sh->overflow.load()) status = "overflow";
    report(cs, status);
    munmap(mem, bytes);
  }
  return 0;
}
