// Harness for C46 (inline task execution never grows the stack without bound): measures, on the REAL code from /repo, how deep
// dispenso nests the inline execution of scheduled work on one thread.  One case per line, one fork per case (a runaway nesting is
// stopped by the bodies themselves before the small stack is exhausted; the fork is the safety net).
//
//   chain <site> <len> <N> <load> <stackKB>
//     A chain program: link i (i < len-1) schedules link i+1 at <site>; link 0 is scheduled by the driver thread T, which runs on a
//     stack of <stackKB> KB (pthread_attr_setstacksize).  Pool of N threads (N = 0: everything runs on T).
//     load = 1: B = poolLoadFactor + 8 blocker tasks parked on a latch are force-queued first (through the task set for the
//     task-set sites, so that outstandingTaskCount_ > taskSetLoadFactor_ too): workRemaining_ > poolLoadFactor_ for the whole run and
//     every worker is parked in a blocker, so T is the only running thread (deterministic).  load = 0: idle pool.
//   sites:  pool poolplaced poolbulk | tsk tskbulk | cts ctsh (kLightweight / kHeavy) ctsbulk ctshbulk | thenimm thenpool | pipe | graph
//           | waitnest (n independent tasks, each: own ConcurrentTaskSet, force-queue a leaf, wait -- nesting through wait(), not C46)
//
// Output (one line):
//   chain <site> <len> <N> <load> | nt <numThreads> plf <poolLoadFactor> tlf <taskSetLoadFactor> B <blockers> heavy <0/1> |
//     ran <links run> maxS <max nestS> maxW <max nestW> maxG <max inlineDepth seen> maxbytes <deepest body frame below T's base> |
//     segs <how>:<count>:<nS first>:<g first>:<out first>:<wr first>:<rec first>:<nS last>:<g last>:<out last>:<wr last>:<rec last>:<bytes/link> ... |
//     status ok|overflow|timeout|crash
//   how: 0 = entered from a worker loop / base; 1 = entered synchronously inside the schedule call that submitted it (inline);
//        2 = entered inside a wait() call of the harness; 3 = entered from the completion path of the previous link (then-chain,
//        pipeline continuation: same thread, deeper frame than the previous link's body).
//   nS = number of enclosing inline entries (how 1 or 3) on this thread including this one, nW = same for how 2; g = the thread's
//   PerPoolPerThreadInfo::inlineDepth() at body entry; out / wr = outstandingTaskCount_ / workRemaining_ sampled by the scheduling
//   link just before the call (exact under load = 1); rec = isPoolRecursive of the scheduling thread.
#include <atomic>
#include <cerrno>
#include <chrono>
#include <climits>
#include <condition_variable>
#include <cstdio>
#include <cstdlib>
#include <cstring>
#include <functional>
#include <iostream>
#include <mutex>
#include <sstream>
#include <string>
#include <thread>
#include <vector>
#include <pthread.h>
#include <sys/mman.h>
#include <sys/wait.h>
#include <unistd.h>
#define private public
#define protected public
#include <dispenso/future.h>
#include <dispenso/graph.h>
#include <dispenso/graph_executor.h>
#include <dispenso/pipeline.h>
#include <dispenso/task_set.h>
#include <dispenso/thread_pool.h>
#undef private
#undef protected

struct Rec {           // one per link, in shared memory
  int how, nS, nW, g, tid, rec;
  long out, wr, bytes;
  unsigned long fa;
  int done;
};
struct Shared {
  std::atomic<int> ran, overflow, finished;
  int nt;
  long plf, tlf, B;
};
static Shared* g_sh = nullptr;
static Rec* g_rec = nullptr;

enum Site { POOL, POOLPLACED, POOLBULK, TSK, TSKBULK, CTS, CTSH, CTSBULK, CTSHBULK, THENIMM, THENPOOL, PIPE, GRAPH, WAITNEST, NSITE };
static const char* kSiteNames[] = {"pool", "poolplaced", "poolbulk", "tsk", "tskbulk", "cts", "ctsh", "ctsbulk", "ctshbulk",
                                   "thenimm", "thenpool", "pipe", "graph", "waitnest"};

struct Ctx {
  Site site;
  int len;
  long limitBytes;
  dispenso::ThreadPool* pool = nullptr;
  dispenso::TaskSet* ts = nullptr;
  dispenso::ConcurrentTaskSet* cts = nullptr;
};

static thread_local int t_callkind = 0;   // 0 none, 1 inside a schedule call of the harness, 2 inside a wait call of the harness
static thread_local int t_nS = 0, t_nW = 0, t_nAll = 0;
static thread_local char* t_base = nullptr;
static thread_local int t_tid = -1;
static std::atomic<int> g_nextTid{1};
static char* g_Tbase = nullptr;            // frame address at the start of the driver thread T

static int myTid() {
  if (t_tid < 0) t_tid = g_nextTid.fetch_add(1);
  return t_tid;
}

static void sched(Ctx* c, int i);

// body of link i (scheduling-path sites)
static __attribute__((noinline)) void body(Ctx* c, int i) {
  int kind = t_callkind;
  t_callkind = 0;
  char* fa = static_cast<char*>(__builtin_frame_address(0));
  if (t_nAll == 0 && !t_base) t_base = fa;
  Rec& r = g_rec[i];
  int nS = t_nS + (kind == 1), nW = t_nW + (kind == 2);
  r.how = kind;
  r.nS = nS;
  r.nW = nW;
  r.g = dispenso::detail::PerPoolPerThreadInfo::inlineDepth();
  r.tid = myTid();
  r.bytes = static_cast<long>(t_base - fa);
  r.fa = reinterpret_cast<unsigned long>(fa);
  int sS = t_nS, sW = t_nW;
  t_nS = nS;
  t_nW = nW;
  ++t_nAll;
  g_sh->ran.fetch_add(1);
  if (r.bytes > c->limitBytes) {
    g_sh->overflow.store(1);
  } else if (i + 1 < c->len) {
    sched(c, i + 1);
  }
  r.done = 1;
  if (i + 1 >= c->len || g_sh->overflow.load()) g_sh->finished.store(1);
  --t_nAll;
  t_nS = sS;
  t_nW = sW;
  t_callkind = kind;
}

static void sample(Ctx* c, int i) {
  Rec& r = g_rec[i];
  r.wr = c->pool ? static_cast<long>(c->pool->workRemaining_.load()) : 0;
  r.out = c->ts ? static_cast<long>(c->ts->outstandingTaskCount_.load())
                : (c->cts ? static_cast<long>(c->cts->outstandingTaskCount_.load()) : 0);
  r.rec = c->pool && dispenso::detail::PerPoolPerThreadInfo::isPoolRecursive(c->pool) ? 1 : 0;
}

static void sched(Ctx* c, int i) {
  sample(c, i);
  int saved = t_callkind;
  t_callkind = 1;
  auto f = [c, i]() { body(c, i); };
  switch (c->site) {
    case POOL: c->pool->schedule(f); break;
    case POOLPLACED: c->pool->schedulePlaced(f); break;
    case POOLBULK: c->pool->scheduleBulk(1, [f](size_t) { return f; }); break;
    case TSK: c->ts->schedule(f); break;
    case TSKBULK: c->ts->scheduleBulk(1, [f](size_t) { return f; }); break;
    case CTS:
    case CTSH: c->cts->schedule(f); break;
    case CTSBULK:
    case CTSHBULK: c->cts->scheduleBulk(1, [f](size_t) { return f; }); break;
    default: break;
  }
  t_callkind = saved;
}
