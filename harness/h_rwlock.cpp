// Lockstep harness for RWLock (C22) and DistributedRWLockImpl<N> (C23) under harness/vsched.h.
// One case per line:
//   <rw|d1|d2|d4|d16> <budget> ; <prog t0> ; <prog t1> ; ... ; S <schedule ints...>
// prog tokens: L lock  U unlock  T<n> try_lock (skip the next n ops when it fails)  S<i> lock_shared(i)
//              Y<i>:<n> try_lock_shared(i) (skip n on failure)  V<i> unlock_shared(i)  G lock_upgrade  D lock_downgrade
// (rw: the index of S/Y/V is ignored by the real class; d<N>: G and D do not exist and are ignored.)
// Every critical section is bracketed by the schedulable points cs.enterW / cs.enterR (after the acquiring call
// returned) and cs.exitW / cs.exitR (before the releasing call); between them the thread is counted in the occupancy
// counters writersInside / readersInside, and every entry checks them (conflicts = number of bad observations).
// Output (one line): steps t:site ... | results t:tag=v ... | blocked t ... | words w0 .. conflicts C spins K | status S
#include <atomic>
#include <cstdio>
#include <cstdlib>
#include <iostream>
#include <memory>
#include <sstream>
#include <string>
#include <vector>
#include <sys/wait.h>
#include <unistd.h>
#define private public
#define protected public
#include <dispenso/distributed_rw_lock.h>
#include <dispenso/rw_lock.h>
#undef private
#undef protected
#include "vsched.h"

struct Op {
  char k;
  long a = 0, b = 0;
};

static std::vector<Op> parseProg(const std::string& s) {
  std::vector<Op> v;
  std::istringstream in(s);
  std::string tok;
  while (in >> tok) {
    Op o;
    o.k = tok[0];
    if (tok.size() > 1) {
      size_t c = tok.find(':');
      o.a = atol(tok.substr(1, c == std::string::npos ? std::string::npos : c - 1).c_str());
      if (c != std::string::npos) o.b = atol(tok.substr(c + 1).c_str());
    }
    v.push_back(o);
  }
  return v;
}

struct Api {
  virtual ~Api() {}
  virtual void lock() = 0;
  virtual void unlock() = 0;
  virtual bool try_lock() = 0;
  virtual void lock_shared(size_t) = 0;
  virtual bool try_lock_shared(size_t) = 0;
  virtual void unlock_shared(size_t) = 0;
  virtual void upgrade() = 0;
  virtual void downgrade() = 0;
  virtual bool single() = 0;
  virtual std::vector<int> words() = 0;
};

struct RwApi : Api {
  dispenso::RWLock l;
  void lock() override { l.lock(); }
  void unlock() override { l.unlock(); }
  bool try_lock() override { return l.try_lock(); }
  void lock_shared(size_t) override { l.lock_shared(); }
  bool try_lock_shared(size_t) override { return l.try_lock_shared(); }
  void unlock_shared(size_t) override { l.unlock_shared(); }
  void upgrade() override { l.lock_upgrade(); }
  void downgrade() override { l.lock_downgrade(); }
  bool single() override { return true; }
  std::vector<int> words() override { return {l.lockWord().load()}; }
};

template <size_t N>
struct DistApi : Api {
  dispenso::detail::DistributedRWLockImpl<N> l;
  void lock() override { l.lock(); }
  void unlock() override { l.unlock(); }
  bool try_lock() override { return l.try_lock(); }
  void lock_shared(size_t i) override { l.lock_shared(i); }
  bool try_lock_shared(size_t i) override { return l.try_lock_shared(i); }
  void unlock_shared(size_t i) override { l.unlock_shared(i); }
  void upgrade() override {}
  void downgrade() override {}
  bool single() override { return false; }
  std::vector<int> words() override {
    std::vector<int> w;
    for (size_t i = 0; i < N; ++i) w.push_back(l.slots_[i].lockWord().load());
    return w;
  }
};

static std::atomic<int> writersInside{0}, readersInside{0}, conflicts{0};

static void runThread(Api& api, vs::Sched& S, const std::vector<Op>& prog) {
  int held = 0;   // 0 none, 1 write, 2 read
  auto enter = [&](int kind) {
    held = kind;
    dispenso_verif_point(kind == 1 ? "cs.enterW" : "cs.enterR", nullptr);
    if (kind == 1) {
      int w = ++writersInside;
      if (w != 1 || readersInside.load() != 0) ++conflicts;
    } else {
      ++readersInside;
      if (writersInside.load() != 0) ++conflicts;
    }
  };
  auto leave = [&]() {
    if (held) {
      dispenso_verif_point(held == 1 ? "cs.exitW" : "cs.exitR", nullptr);
      if (held == 1) --writersInside; else --readersInside;
      held = 0;
    }
  };
  for (size_t i = 0; i < prog.size(); ++i) {
    const Op& o = prog[i];
    switch (o.k) {
      case 'L': api.lock(); enter(1); break;
      case 'U': leave(); api.unlock(); break;
      case 'T': {
        bool r = api.try_lock();
        S.result("try_lock", r ? 1 : 0);
        if (r) enter(1); else i += static_cast<size_t>(o.a);
        break;
      }
      case 'S': api.lock_shared(static_cast<size_t>(o.a)); enter(2); break;
      case 'Y': {
        bool r = api.try_lock_shared(static_cast<size_t>(o.a));
        S.result("try_lock_shared", r ? 1 : 0);
        if (r) enter(2); else i += static_cast<size_t>(o.b);
        break;
      }
      case 'V': leave(); api.unlock_shared(static_cast<size_t>(o.a)); break;
      case 'G': if (api.single()) { leave(); api.upgrade(); enter(1); } break;
      case 'D': if (api.single()) { leave(); api.downgrade(); enter(2); } break;
      default: break;
    }
  }
}

static void runCase(Api& api, long budget, const std::vector<std::vector<Op>>& progs, const std::vector<long>& sched) {
  vs::Sched S(sched, budget, false);
  for (size_t t = 0; t < progs.size(); ++t) S.spawn([&api, &S, &progs, t]() { runThread(api, S, progs[t]); });
  S.run();
  std::ostringstream ex;
  ex << "words";
  for (int w : api.words()) ex << " " << w;
  ex << " conflicts " << conflicts.load() << " spins " << static_cast<int>(dispenso::detail::RWLockImpl::kTryLockDrainSpins);
  S.print(ex.str());
}

int main() {
  std::string line;
  while (std::getline(std::cin, line)) {
    if (line.empty()) continue;
    fflush(stdout);
    pid_t pid = fork();
    if (pid == 0) {
      alarm(20);
      std::vector<std::string> parts;
      std::stringstream ss(line);
      std::string part;
      while (std::getline(ss, part, ';')) parts.push_back(part);
      std::istringstream hd(parts[0]);
      std::string mode;
      long budget;
      hd >> mode >> budget;
      std::vector<std::vector<Op>> progs;
      std::vector<long> sched;
      for (size_t i = 1; i < parts.size(); ++i) {
        std::istringstream ps(parts[i]);
        std::string first;
        ps >> first;
        if (first == "S" ) {
          long x;
          while (ps >> x) sched.push_back(x);
        } else {
          progs.push_back(parseProg(parts[i]));
        }
      }
      Api* api = nullptr;   // function-local statics: the lock types are over-aligned
      if (mode == "rw") { static RwApi a; api = &a; }
      else if (mode == "d1") { static DistApi<1> a; api = &a; }
      else if (mode == "d2") { static DistApi<2> a; api = &a; }
      else if (mode == "d4") { static DistApi<4> a; api = &a; }
      else if (mode == "d16") { static DistApi<16> a; api = &a; }
      else { printf("BADMODE\n"); _exit(0); }
      runCase(*api, budget, progs, sched);
      fflush(stdout);
      _exit(0);
    }
    int st = 0;
    waitpid(pid, &st, 0);
    if (!WIFEXITED(st) || WEXITSTATUS(st) != 0) {
      printf("CRASH status %d\n", st);
      fflush(stdout);
    }
  }
  return 0;
}
