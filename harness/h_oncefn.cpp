// h_oncefn.cpp -- drives the REAL dispenso::OnceFunction with lifetime-tracked callables of many sizes and alignments.
//
// Callable type Fn<Size, Align>: exactly Size bytes, alignment Align, identity kept in a serial number inside the
// object (life::S) because OnceFunction relocates inline callables with memcpy.  The grid of (Size, Align) is
// instantiated at compile time (GRID below); `G` on stdin prints it.
//
// stdin: one case per line, tokens separated by blanks (i, j = OnceFunction variable 0..NV-1 in raw 64-aligned storage):
//   K<i>:<g>:<t>   new (&f[i]) OnceFunction(Fn_g(t))                 callable of grid type g, tag t, from an rvalue
//   k<i>:<g>:<t>   Fn_g tmp(t); new (&f[i]) OnceFunction(tmp)        ... from an lvalue (copy)
//   D<i>           new (&f[i]) OnceFunction()
//   M<i>:<j>       new (&f[i]) OnceFunction(std::move(f[j]))
//   m<i>:<j>       f[i] = std::move(f[j])
//   R<i>           f[i]()
//   N<i>           f[i].cleanupNotRun()
//   X<i>           f[i].~OnceFunction()   (trivial)
//   Z<i>           (only after ';') cleanupNotRun() on the bytes still in the storage of a dropped variable
//   ;              print the result line now; the remaining tokens are executed silently (clean-up of leaks)
// The driver (props/C39.py) only sends sequences that are memory safe on the real code (R/N only on a variable that
// currently owns a callable).  R/N on never-initialised bits and scope errors are refused ("BAD").
//
// stdout: one line per case:  <op result> | <op result> | ... # <callable ledger line> <corrupt> <oob>
//   op result = [dispatch] events...   dispatch (only after K/k): I = invokeInline installed, S<K> = invokeSpill<K>, ? = neither
//   events, in program order:  <w><tag>@<loc>[!]   w in C (value ctor) c (copy ctor) m (move ctor) D (dtor) V (invoked)
//                              loc = T (elsewhere: a temporary), I<v> (inline buffer of variable v), B (a spill block
//                              some variable points to);  `!` = address not a multiple of the callable's alignment
//                              (or, for B, the block is not a multiple of its size class K)
//                              PA<K> / PF<K>  a block left / came back to the thread-local cache of SmallBufferAllocator<K>
//                              MA<n> / MF<n>  ::malloc(n) / ::free of that block (n >= 512 only; via --wrap)
//                              `^` after a location = the object [addr, addr+sizeof) lies inside a OnceFunction variable
//                              but not inside its buf_ (it overlaps invoke_ or starts before buf_)
// after the ledger numbers: corrupt = number of content checks that failed (every byte of a callable is a function of
// its serial number; checked when it is copied/moved from, invoked and destroyed), oob = number of `^` events.
#include <algorithm>
#include <atomic>
#include <cassert>
#include <cstdint>
#include <cstdio>
#include <cstdlib>
#include <cstring>
#include <functional>
#include <iostream>
#include <memory>
#include <mutex>
#include <sstream>
#include <string>
#include <thread>
#include <tuple>
#include <type_traits>
#include <utility>
#include <vector>

#include "life.h"

#include <moodycamel/concurrentqueue.h>
#define private public
#define protected public
#include <dispenso/detail/small_buffer_allocator_impl.h>
#include <dispenso/once_function.h>
#include <dispenso/small_buffer_allocator.h>
#undef private
#undef protected

// ------------------------------------------------------------------------------------------------ malloc/free interposition
extern "C" void* __real_malloc(size_t);
extern "C" void __real_free(void*);
static bool g_track = false;
struct MBlock { void* p; size_t n; };
static MBlock g_live[256];
static int g_nlive = 0;
// mallocs are reported before, frees after the lifetime events of the operation (that is their program order here)
static char g_mev[2][256];
static size_t g_mevLen[2] = {0, 0};
static void mev(int which, const char* what, size_t n) {
  int w = std::snprintf(g_mev[which] + g_mevLen[which], sizeof g_mev[which] - g_mevLen[which], " %s%zu", what, n);
  if (w > 0 && g_mevLen[which] + static_cast<size_t>(w) < sizeof g_mev[which]) g_mevLen[which] += static_cast<size_t>(w);
}
extern "C" void* __wrap_malloc(size_t n) {
  void* p = __real_malloc(n);
  if (n >= 512 && g_nlive < 256) {
    g_live[g_nlive++] = MBlock{p, n};
    if (g_track) mev(0, "MA", n);
  }
  return p;
}
extern "C" void __wrap_free(void* p) {
  for (int i = 0; i < g_nlive; ++i) {
    if (g_live[i].p == p) {
      if (g_track) mev(1, "MF", g_live[i].n);
      g_live[i] = g_live[--g_nlive];
      break;
    }
  }
  __real_free(p);
}

// ------------------------------------------------------------------------------------------------ callables
using Led = life::Ledger<0>;
static const int NV = 4;
alignas(64) static unsigned char g_store[NV][sizeof(dispenso::OnceFunction)];
static bool g_inScope[NV], g_init[NV], g_bits[NV]; // object exists / its bytes are initialised / storage ever held a callable
static size_t g_alignOfTag[1 << 12]; // alignment of the callable type carrying a tag (tags < 4096)

static dispenso::OnceFunction& F(int i) { return *reinterpret_cast<dispenso::OnceFunction*>(g_store[i]); }

static size_t g_sizeOfTag[1 << 12];  // sizeof of the callable type carrying a tag
static long g_corrupt = 0, g_oob = 0;

// Every byte after the serial number is a function of (serial, position): a write into the callable's storage by
// anybody else (e.g. invoke_ stored over the tail of an over-long inline callable) is noticed at the next check.
// Pool frees are placed in the event trace where they HAPPEN relative to the callable's own events: the callable samples the
// thread-local cache counts when it is invoked and when its destructor starts; a block that has come back by then is traced ('F')
// before the V / D event (a block released before the destructor of the callable living in it has run is a use after free).
static long g_poolBefore[7];
static long g_pfEmitted[7];
static bool g_sampling = false;
static void samplePoolFrees();

template <size_t Size, size_t Align>
struct Fn {
  using Blob = life::S<Size, Align, 0>;
  Blob s;
  static unsigned char pat(uintptr_t key, size_t k) { return static_cast<unsigned char>(key * 131u + k * 29u + 7u); }
  void fill() {
    uintptr_t key = s.key();
    for (size_t k = Blob::kIdBytes; k < Size; ++k) s.raw[k] = pat(key, k);
  }
  void verify() const {
    uintptr_t key = s.key();
    for (size_t k = Blob::kIdBytes; k < Size; ++k) {
      if (s.raw[k] != pat(key, k)) { ++g_corrupt; return; }
    }
  }
  explicit Fn(int tag) : s(tag) { fill(); }
  Fn(const Fn& o) : s(o.s) { o.verify(); fill(); }
  Fn(Fn&& o) noexcept : s(std::move(o.s)) { o.verify(); fill(); }
  ~Fn() { samplePoolFrees(); verify(); }
  void operator()() {
    samplePoolFrees();
    verify();
    s.touch();
    Led::note('V', s.key(), this, s.get());
  }
};

static const size_t kClasses[] = {4, 8, 16, 32, 64, 128, 256};
template <size_t K>
static long poolCount() {
  return static_cast<long>(std::get<1>(dispenso::detail::SmallBufferAllocator<K>::buffersAndCount()));
}
static void poolCounts(long* out) {
  out[0] = poolCount<4>(); out[1] = poolCount<8>(); out[2] = poolCount<16>(); out[3] = poolCount<32>();
  out[4] = poolCount<64>(); out[5] = poolCount<128>(); out[6] = poolCount<256>();
}

static void samplePoolFrees() {
  if (!g_sampling) return;
  long cur[7];
  poolCounts(cur);
  for (int c = 0; c < 7; ++c) {
    long delta = cur[c] - g_poolBefore[c] - g_pfEmitted[c];
    for (long n = 0; n < delta; ++n) Led::note('F', 0, nullptr, static_cast<int>(kClasses[c]));
    if (delta > 0) g_pfEmitted[c] += delta;
  }
}

struct GridEntry {
  size_t size, align;
  void (*makeR)(void* dst, int tag);
  void (*makeL)(void* dst, int tag);
  int (*dispatch)(void (*)(void*, bool)); // 0 = invokeInline<Fn>, K = invokeSpill<K, Fn>, -1 = neither
};

template <size_t Size, size_t Align>
struct Ops {
  using T = Fn<Size, Align>;
  static_assert(sizeof(T) == Size && alignof(T) == Align, "grid type has the requested size and alignment");
  static void makeR(void* dst, int tag) { new (dst) dispenso::OnceFunction(T(tag)); }
  static void makeL(void* dst, int tag) { T tmp(tag); new (dst) dispenso::OnceFunction(tmp); }
  static int dispatch(void (*p)(void*, bool)) {
    namespace d = dispenso::detail;
    if (p == &d::invokeInline<T>) return 0;
    if (p == &d::invokeSpill<32, T>) return 32;
    if (p == &d::invokeSpill<64, T>) return 64;
    if (p == &d::invokeSpill<128, T>) return 128;
    if (p == &d::invokeSpill<256, T>) return 256;
    if (p == &d::invokeSpill<512, T>) return 512;
    if (p == &d::invokeSpill<1024, T>) return 1024;
    if (p == &d::invokeSpill<2048, T>) return 2048;
    return -1;
  }
};

#define GRID                                                                                                         \
  X(1, 1) X(2, 1) X(3, 1) X(4, 1) X(5, 1) X(7, 1) X(8, 1) X(9, 1) X(12, 1) X(15, 1) X(16, 1) X(17, 1) X(24, 1)       \
  X(31, 1) X(32, 1) X(33, 1) X(40, 1) X(47, 1) X(48, 1) X(49, 1) X(55, 1) X(56, 1) X(57, 1) X(60, 1) X(63, 1)        \
  X(64, 1) X(65, 1) X(72, 1) X(80, 1) X(96, 1) X(100, 1) X(120, 1) X(127, 1) X(128, 1) X(129, 1) X(136, 1)           \
  X(160, 1) X(192, 1) X(200, 1) X(248, 1) X(255, 1) X(256, 1) X(257, 1) X(264, 1) X(320, 1) X(384, 1) X(500, 1)      \
  X(511, 1) X(512, 1) X(513, 1) X(520, 1) X(576, 1) X(600, 1) X(2, 2) X(4, 2) X(8, 2) X(16, 2) X(48, 2) X(54, 2)     \
  X(56, 2) X(58, 2) X(62, 2) X(64, 2) X(66, 2) X(126, 2) X(128, 2) X(130, 2) X(254, 2) X(256, 2) X(258, 2)           \
  X(510, 2) X(512, 2) X(514, 2) X(600, 2) X(4, 4) X(8, 4) X(12, 4) X(16, 4) X(32, 4) X(52, 4) X(56, 4) X(60, 4)      \
  X(64, 4) X(68, 4) X(124, 4) X(128, 4) X(132, 4) X(252, 4) X(256, 4) X(260, 4) X(508, 4) X(512, 4) X(516, 4)        \
  X(600, 4) X(8, 8) X(16, 8) X(24, 8) X(32, 8) X(40, 8) X(48, 8) X(56, 8) X(64, 8) X(72, 8) X(80, 8) X(96, 8)        \
  X(120, 8) X(128, 8) X(136, 8) X(192, 8) X(248, 8) X(256, 8) X(264, 8) X(320, 8) X(384, 8) X(504, 8) X(512, 8)      \
  X(520, 8) X(576, 8) X(600, 8) X(16, 16) X(32, 16) X(48, 16) X(64, 16) X(80, 16) X(96, 16) X(112, 16)               \
  X(128, 16) X(144, 16) X(192, 16) X(240, 16) X(256, 16) X(272, 16) X(384, 16) X(512, 16) X(528, 16) X(576, 16)      \
  X(32, 32) X(64, 32) X(96, 32) X(128, 32) X(160, 32) X(192, 32) X(224, 32) X(256, 32) X(288, 32) X(384, 32)         \
  X(512, 32) X(544, 32) X(576, 32) X(64, 64) X(128, 64) X(192, 64) X(256, 64) X(320, 64) X(384, 64) X(448, 64)       \
  X(512, 64) X(576, 64) X(128, 128) X(256, 128) X(384, 128) X(512, 128) X(640, 128) X(256, 256) X(512, 256)          \
  X(768, 256)                                                                                                        \
  /* the whole 49..72 band at alignments 1, 2, 4 (sizes that are not multiples of 8 around the inline limit) */      \
  X(50, 1) X(51, 1) X(52, 1) X(53, 1) X(54, 1) X(58, 1) X(59, 1) X(61, 1) X(62, 1) X(66, 1) X(67, 1) X(68, 1)        \
  X(69, 1) X(70, 1) X(71, 1) X(50, 2) X(52, 2) X(60, 2) X(68, 2) X(70, 2) X(72, 2) X(72, 4)

#define X(S, A) GridEntry{S, A, &Ops<S, A>::makeR, &Ops<S, A>::makeL, &Ops<S, A>::dispatch},
static const GridEntry kGrid[] = {GRID};
#undef X
static const int kGridN = static_cast<int>(sizeof kGrid / sizeof kGrid[0]);

// ------------------------------------------------------------------------------------------------ one operation
// symbolic location of an address
static std::string where(const void* a, size_t align) {
  uintptr_t u = reinterpret_cast<uintptr_t>(a);
  std::string s;
  bool found = false;
  for (int v = 0; v < NV && !found; ++v) {
    if (a == static_cast<const void*>(g_store[v])) { s = "I" + std::to_string(v); found = true; }
  }
  for (int v = 0; v < NV && !found; ++v) {
    if (!g_init[v]) continue;
    int k = -1;
    for (int g = 0; g < kGridN && k < 0; ++g) {
      int d = kGrid[g].dispatch(F(v).invoke_);
      if (d > 0) k = d;
    }
    if (k > 0) {
      void* p;
      std::memcpy(&p, F(v).buf_, sizeof p);
      if (p == a) { s = "B"; found = true; if (u % static_cast<size_t>(k)) s += "!"; }
    }
  }
  if (!found) s = "T";
  if (u % align) s += "!";
  return s;
}

static bool apply(char op, int i, int a, int t, std::string& out) {
  if (i < 0 || i >= NV) return false;
  long before[7], after[7];
  poolCounts(before);
  for (int c = 0; c < 7; ++c) { g_poolBefore[c] = before[c]; g_pfEmitted[c] = 0; }
  g_sampling = true;
  Led::take_trace();
  g_mevLen[0] = g_mevLen[1] = 0; g_mev[0][0] = g_mev[1][0] = 0;
  g_track = true;
  std::string dispatch;
  bool ok = true;
  switch (op) {
    case 'K': case 'k':
      if (g_inScope[i] || a < 0 || a >= kGridN || t < 0 || t >= (1 << 12)) { ok = false; break; }
      g_alignOfTag[t] = kGrid[a].align;
      g_sizeOfTag[t] = kGrid[a].size;
      (op == 'K' ? kGrid[a].makeR : kGrid[a].makeL)(g_store[i], t);
      g_inScope[i] = g_init[i] = g_bits[i] = true;
      {
        int d = kGrid[a].dispatch(F(i).invoke_);
        dispatch = d == 0 ? "I" : d > 0 ? "S" + std::to_string(d) : "?";
      }
      break;
    case 'D': if (g_inScope[i]) { ok = false; break; } new (g_store[i]) dispenso::OnceFunction(); g_inScope[i] = true; g_init[i] = false; break;
    case 'M':
      if (g_inScope[i] || a < 0 || a >= NV || !g_inScope[a]) { ok = false; break; }
      new (g_store[i]) dispenso::OnceFunction(std::move(F(a))); g_inScope[i] = true; g_init[i] = g_init[a]; g_bits[i] = g_init[a]; break;
    case 'm':
      if (!g_inScope[i] || a < 0 || a >= NV || !g_inScope[a]) { ok = false; break; }
      F(i) = std::move(F(a)); if (i != a) { g_init[i] = g_init[a]; g_bits[i] = g_init[a]; } break;
    case 'R': if (!g_inScope[i] || !g_init[i]) { ok = false; break; } F(i)(); break;
    case 'N': if (!g_inScope[i] || !g_init[i]) { ok = false; break; } F(i).cleanupNotRun(); break;
    case 'Z': if (!g_bits[i]) { ok = false; break; } F(i).cleanupNotRun(); break; // clean-up after ';' of a dropped owner
    case 'X': if (!g_inScope[i]) { ok = false; break; } F(i).~OnceFunction(); g_inScope[i] = false; g_init[i] = false; break;
    default: ok = false;
  }
  g_track = false;
  g_sampling = false;
  if (!ok) return false;
  poolCounts(after);
  std::ostringstream s;
  s << dispatch;
  for (int c = 0; c < 7; ++c) {
    for (long n = after[c]; n < before[c]; ++n) s << " PA" << kClasses[c];
  }
  s << g_mev[0];
  for (const life::Event& e : Led::take_trace()) {
    if (e.what == 'F') { s << " PF" << e.tag; continue; }
    size_t al = (e.tag >= 0 && e.tag < (1 << 12)) ? g_alignOfTag[e.tag] : 1;
    size_t sz = (e.tag >= 0 && e.tag < (1 << 12)) ? g_sizeOfTag[e.tag] : 0;
    s << ' ' << e.what << e.tag << '@' << where(e.addr, al ? al : 1);
    // an object inside a OnceFunction variable must lie inside its buf_
    const unsigned char* a0 = static_cast<const unsigned char*>(e.addr);
    for (int v = 0; v < NV && sz; ++v) {
      const unsigned char* lo = g_store[v];
      if (a0 + sz > lo && a0 < lo + sizeof(dispenso::OnceFunction)) {
        const unsigned char* b0 = reinterpret_cast<const unsigned char*>(F(v).buf_);
        if (a0 < b0 || a0 + sz > b0 + sizeof(F(v).buf_)) { s << '^'; ++g_oob; }
        break;
      }
    }
  }
  for (int c = 0; c < 7; ++c) {
    for (long n = before[c] + g_pfEmitted[c]; n < after[c]; ++n) s << " PF" << kClasses[c];
  }
  s << g_mev[1];
  out = s.str();
  return true;
}

int main() {
  // warm every size class so that the thread-local caches never run empty during a case
  {
    void* p[7] = {dispenso::allocSmallBuffer<4>(), dispenso::allocSmallBuffer<8>(), dispenso::allocSmallBuffer<16>(),
                  dispenso::allocSmallBuffer<32>(), dispenso::allocSmallBuffer<64>(), dispenso::allocSmallBuffer<128>(),
                  dispenso::allocSmallBuffer<256>()};
    dispenso::deallocSmallBuffer<4>(p[0]); dispenso::deallocSmallBuffer<8>(p[1]); dispenso::deallocSmallBuffer<16>(p[2]);
    dispenso::deallocSmallBuffer<32>(p[3]); dispenso::deallocSmallBuffer<64>(p[4]); dispenso::deallocSmallBuffer<128>(p[5]);
    dispenso::deallocSmallBuffer<256>(p[6]);
  }
  static_assert(sizeof(dispenso::OnceFunction) == 64 && alignof(dispenso::OnceFunction) == 64, "one cache line");
  std::string line;
  while (std::getline(std::cin, line)) {
    if (line.empty()) continue;
    if (line == "G") {
      std::printf("GRID");
      for (int g = 0; g < kGridN; ++g) std::printf(" %zu:%zu", kGrid[g].size, kGrid[g].align);
      dispenso::OnceFunction probe;
      std::printf(" # bufoff %ld\n", static_cast<long>(reinterpret_cast<char*>(probe.buf_) - reinterpret_cast<char*>(&probe)));
      std::fflush(stdout);
      continue;
    }
    Led::reset();
    Led::set_trace(true);
    g_corrupt = g_oob = 0;
    for (int i = 0; i < NV; ++i) g_inScope[i] = g_init[i] = g_bits[i] = false;
    std::istringstream in(line);
    std::string tok, res;
    bool bad = false, silent = false, first = true, printed = false;
    while (in >> tok) {
      if (tok == ";") {
        std::printf("%s # %s %ld %ld\n", res.c_str(), Led::line().c_str(), g_corrupt, g_oob);
        printed = silent = true;
        continue;
      }
      int i = -1, a = 0, t = 0;
      if (std::sscanf(tok.c_str() + 1, "%d:%d:%d", &i, &a, &t) < 1) { bad = true; break; }
      std::string r;
      if (!apply(tok[0], i, a, t, r)) { bad = true; break; }
      if (!silent) {
        if (!first) res += " |";
        first = false;
        res += r.empty() ? " -" : (r[0] == ' ' ? r : " " + r);
      }
    }
    if (bad) { std::printf("BAD %s\n", tok.c_str()); }
    else if (!printed) std::printf("%s # %s %ld %ld\n", res.c_str(), Led::line().c_str(), g_corrupt, g_oob);
    std::fflush(stdout);
  }
  return 0;
}
