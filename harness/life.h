// harness/life.h -- lifetime-tracked element types for the correspondence harnesses.
//
// C++ mirror of coq/Base/Life.v.  Nothing in here is specific to one property.
//
//   life::Ledger<Domain>      global ledger: key -> {Alive, MovedFrom, Dead} (absent = Unborn), counters of
//                             constructions by kind / assignments / destructions, error counters for misuse
//                             (construct over a live object, double destroy, destroy of a never-constructed
//                             object, use after destroy, use of a never-constructed object), optional ordered
//                             event trace.  Thread safe (one mutex per domain).  `Domain` separates independent
//                             ledgers in one program (e.g. payload of the class under test vs payload of the
//                             reference container).
//   life::L<Align, Domain>    element type keyed by ADDRESS (the normal C++ object model): carries an int tag,
//                             every special member function reports to the ledger.  sizeof = max(4, Align).
//                             Use for containers/optionals that construct, move and destroy elements properly.
//   life::S<Size,Align,Domain> blob of exactly Size bytes keyed by a SERIAL NUMBER stored in the object (tag kept
//                             in the ledger), for code that relocates objects bitwise (memcpy) such as
//                             OnceFunction: the identity survives the relocation, the ledger notices the new
//                             address on the next use (counter `reloc`) and checks its alignment.
//
// Conventions: tags chosen by tests are >= 0; a moved-from object has tag kMovedTag (-1); a destroyed L is
// scribbled with kDeadTag (-2).  `Ledger::line()` prints all numbers in the fixed order documented there; the
// same order is produced by `ledger_obs` in Life.v.
#pragma once
#include <cstddef>
#include <cstdint>
#include <cstdio>
#include <cstring>
#include <map>
#include <mutex>
#include <string>
#include <vector>

namespace life {

enum State : int { Alive = 1, MovedFrom = 2, Dead = 3 }; // absent from the registry = Unborn
enum Err : int { ConstructOverLive = 0, DoubleDestroy, DestroyUnborn, UseDead, UseUnborn, kNumErr };
enum Kind : int { Value = 0, Copy = 1, Move = 2 };
constexpr int kMovedTag = -1;
constexpr int kDeadTag = -2;

struct Counters {
  long ctor_value = 0, ctor_copy = 0, ctor_move = 0; // constructions by kind
  long assign_copy = 0, assign_move = 0;             // assignments by kind
  long dtor = 0;                                     // destructor calls (including erroneous ones)
  long reloc = 0;                                    // S only: object found at a new address (bitwise relocation)
  long misaligned = 0;                               // object constructed/used at an address that is not a multiple of Align
  long err[kNumErr] = {0, 0, 0, 0, 0};
  long ctors() const { return ctor_value + ctor_copy + ctor_move; }
  long errors() const { long s = 0; for (long e : err) s += e; return s; }
};

// one entry of the optional event trace: what in {'C' value ctor, 'c' copy ctor, 'm' move ctor, 'D' dtor,
// '=' copy assign, '<' move assign, or any letter passed to note()}
struct Event {
  char what;
  uintptr_t key;
  const void* addr;
  int tag;
};

template <int Domain = 0>
struct Ledger {
  struct Entry {
    State st;
    const void* addr;
    int tag; // used by S (L keeps its tag in the object)
  };
  struct Data {
    std::mutex mu;
    std::map<uintptr_t, Entry> reg;
    Counters c;
    bool tracing = false;
    std::vector<Event> trace;
    uintptr_t nextSerial = 1;
  };
  static Data& d() {
    static Data* data = new Data(); // leaked on purpose: usable during static destruction
    return *data;
  }

  // ---- primitive operations (same names and same case analysis as Life.v)
  static void construct(uintptr_t key, Kind k, const void* addr, int tag) {
    std::lock_guard<std::mutex> g(d().mu);
    auto it = d().reg.find(key);
    if (it != d().reg.end() && (it->second.st == Alive || it->second.st == MovedFrom)) {
      d().c.err[ConstructOverLive]++;
    }
    d().reg[key] = Entry{Alive, addr, tag};
    (k == Value ? d().c.ctor_value : k == Copy ? d().c.ctor_copy : d().c.ctor_move)++;
    if (d().tracing) d().trace.push_back(Event{k == Value ? 'C' : k == Copy ? 'c' : 'm', key, addr, tag});
  }
  static void destroy(uintptr_t key, const void* addr) {
    std::lock_guard<std::mutex> g(d().mu);
    d().c.dtor++;
    auto it = d().reg.find(key);
    int tag = 0;
    if (it == d().reg.end()) {
      d().c.err[DestroyUnborn]++;
    } else if (it->second.st == Dead) {
      d().c.err[DoubleDestroy]++;
      tag = it->second.tag;
    } else {
      it->second.st = Dead;
      tag = it->second.tag;
    }
    if (d().tracing) d().trace.push_back(Event{'D', key, addr, tag});
  }
  // the object is the source of a move construction / move assignment
  static void move_from(uintptr_t key) {
    std::lock_guard<std::mutex> g(d().mu);
    auto it = d().reg.find(key);
    if (it == d().reg.end()) d().c.err[UseUnborn]++;
    else if (it->second.st == Dead) d().c.err[UseDead]++;
    else it->second.st = MovedFrom;
  }
  // the object is read (copy source, value access, comparison)
  static void use(uintptr_t key) {
    std::lock_guard<std::mutex> g(d().mu);
    auto it = d().reg.find(key);
    if (it == d().reg.end()) d().c.err[UseUnborn]++;
    else if (it->second.st == Dead) d().c.err[UseDead]++;
  }
  // the object is the target of an assignment (a moved-from object becomes Alive again)
  static void assign_to(uintptr_t key, Kind k, const void* addr, int tag) {
    std::lock_guard<std::mutex> g(d().mu);
    (k == Copy ? d().c.assign_copy : d().c.assign_move)++;
    auto it = d().reg.find(key);
    if (it == d().reg.end()) d().c.err[UseUnborn]++;
    else if (it->second.st == Dead) d().c.err[UseDead]++;
    else { it->second.st = Alive; it->second.tag = tag; }
    if (d().tracing) d().trace.push_back(Event{k == Copy ? '=' : '<', key, addr, tag});
  }
  // S only: remember where the object lives now; counts bitwise relocations and misalignment
  static void at(uintptr_t key, const void* addr, size_t align) {
    std::lock_guard<std::mutex> g(d().mu);
    if (reinterpret_cast<uintptr_t>(addr) % align) d().c.misaligned++;
    auto it = d().reg.find(key);
    if (it != d().reg.end() && it->second.addr != addr) { d().c.reloc++; it->second.addr = addr; }
  }
  static void misaligned() { std::lock_guard<std::mutex> g(d().mu); d().c.misaligned++; }
  // free-form trace entry (e.g. 'V' = invoked) for harnesses that want their own events in the ordered trace
  static void note(char what, uintptr_t key, const void* addr, int tag) {
    std::lock_guard<std::mutex> g(d().mu);
    if (d().tracing) d().trace.push_back(Event{what, key, addr, tag});
  }
  static int tag_of(uintptr_t key) {
    std::lock_guard<std::mutex> g(d().mu);
    auto it = d().reg.find(key);
    return it == d().reg.end() ? kDeadTag : it->second.tag;
  }
  static void set_tag(uintptr_t key, int tag) {
    std::lock_guard<std::mutex> g(d().mu);
    auto it = d().reg.find(key);
    if (it != d().reg.end()) it->second.tag = tag;
  }
  static uintptr_t fresh_serial() { std::lock_guard<std::mutex> g(d().mu); return d().nextSerial++; }

  // ---- queries
  static Counters counters() { std::lock_guard<std::mutex> g(d().mu); return d().c; }
  // objects that still need a destructor call (Alive or MovedFrom) = leaks when asked at the end
  static long live() {
    std::lock_guard<std::mutex> g(d().mu);
    long n = 0;
    for (auto& e : d().reg) n += (e.second.st == Alive || e.second.st == MovedFrom);
    return n;
  }
  static long moved() {
    std::lock_guard<std::mutex> g(d().mu);
    long n = 0;
    for (auto& e : d().reg) n += (e.second.st == MovedFrom);
    return n;
  }
  // 0 = Unborn
  static int state(uintptr_t key) {
    std::lock_guard<std::mutex> g(d().mu);
    auto it = d().reg.find(key);
    return it == d().reg.end() ? 0 : static_cast<int>(it->second.st);
  }
  static bool balanced() { return live() == 0 && counters().errors() == 0; }
  // forget everything (between cases).  Serial numbers restart at 1.
  static void reset() {
    std::lock_guard<std::mutex> g(d().mu);
    d().reg.clear(); d().c = Counters(); d().trace.clear(); d().nextSerial = 1;
  }
  static void set_trace(bool on) { std::lock_guard<std::mutex> g(d().mu); d().tracing = on; d().trace.clear(); }
  static std::vector<Event> take_trace() {
    std::lock_guard<std::mutex> g(d().mu);
    std::vector<Event> t; t.swap(d().trace); return t;
  }
  // "cv cc cm ac am d live moved e0 e1 e2 e3 e4 misaligned reloc"  (= ledger_obs in Life.v followed by the two
  // address-related counters that have no counterpart in the model)
  static std::string line() {
    Counters c = counters();
    char b[320];
    std::snprintf(b, sizeof b, "%ld %ld %ld %ld %ld %ld %ld %ld %ld %ld %ld %ld %ld %ld %ld", c.ctor_value, c.ctor_copy,
                  c.ctor_move, c.assign_copy, c.assign_move, c.dtor, live(), moved(), c.err[0], c.err[1], c.err[2],
                  c.err[3], c.err[4], c.misaligned, c.reloc);
    return b;
  }
};

// ------------------------------------------------------------------------------------------------ L: keyed by address
template <size_t Align = alignof(int), int Domain = 0>
struct alignas(Align) L {
  using Led = Ledger<Domain>;
  int tag;

  uintptr_t key() const { return reinterpret_cast<uintptr_t>(this); }
  void checkAlign() const { if (key() % Align) Led::misaligned(); }

  explicit L(int t = 0) : tag(t) { checkAlign(); Led::construct(key(), Value, this, t); }
  L(const L& o) : tag(o.tag) { checkAlign(); Led::use(o.key()); Led::construct(key(), Copy, this, tag); }
  L(L&& o) noexcept : tag(o.tag) {
    checkAlign(); Led::move_from(o.key()); Led::construct(key(), Move, this, tag);
    o.tag = kMovedTag;
  }
  L& operator=(const L& o) {
    int t = o.tag;
    Led::use(o.key()); Led::assign_to(key(), Copy, this, t);
    tag = t;
    return *this;
  }
  L& operator=(L&& o) noexcept {
    int t = o.tag;
    Led::move_from(o.key()); Led::assign_to(key(), Move, this, t);
    if (&o != this) o.tag = kMovedTag;
    tag = t;
    return *this;
  }
  ~L() { Led::destroy(key(), this); tag = kDeadTag; }

  // checked accessors (a read of a destroyed / never constructed object is recorded as an error)
  int get() const { Led::use(key()); return tag; }
  void set(int t) { Led::use(key()); tag = t; }
  friend bool operator==(const L& a, const L& b) { return a.get() == b.get(); }
  friend bool operator!=(const L& a, const L& b) { return a.get() != b.get(); }
  friend bool operator<(const L& a, const L& b) { return a.get() < b.get(); }
};

// ------------------------------------------------------------------------------------------------ S: keyed by serial number
template <size_t Size, size_t Align = 1, int Domain = 0>
struct alignas(Align) S {
  static_assert(Size >= 1 && Size % Align == 0, "sizeof is always a multiple of alignof");
  using Led = Ledger<Domain>;
  static constexpr size_t kIdBytes = Size < 4 ? Size : 4; // 1 byte => at most 255 objects between resets
  unsigned char raw[Size];

  uintptr_t key() const {
    uintptr_t s = 0;
    for (size_t i = 0; i < kIdBytes; ++i) s |= static_cast<uintptr_t>(raw[i]) << (8 * i);
    return s | (uintptr_t(1) << 62); // never collides with an address key of L in the same domain
  }
  void init() {
    std::memset(raw, 0xA5, Size);
    uintptr_t s = Led::fresh_serial();
    for (size_t i = 0; i < kIdBytes; ++i) raw[i] = static_cast<unsigned char>(s >> (8 * i));
  }
  // call at every use of the object: notices relocation / misalignment
  void touch() const { Led::at(key(), this, Align); }

  explicit S(int t = 0) { init(); Led::construct(key(), Value, this, t); touch(); }
  S(const S& o) { o.touch(); int t = o.get(); init(); Led::construct(key(), Copy, this, t); touch(); }
  S(S&& o) noexcept {
    o.touch(); int t = Led::tag_of(o.key());
    Led::move_from(o.key()); Led::set_tag(o.key(), kMovedTag);
    init(); Led::construct(key(), Move, this, t); touch();
  }
  S& operator=(const S& o) { o.touch(); touch(); int t = o.get(); Led::assign_to(key(), Copy, this, t); return *this; }
  S& operator=(S&& o) noexcept {
    o.touch(); touch(); int t = Led::tag_of(o.key());
    Led::move_from(o.key());
    if (&o != this) Led::set_tag(o.key(), kMovedTag);
    Led::assign_to(key(), Move, this, t);
    return *this;
  }
  ~S() { touch(); Led::destroy(key(), this); }

  int get() const { touch(); Led::use(key()); return Led::tag_of(key()); }
  void set(int t) { touch(); Led::use(key()); Led::set_tag(key(), t); }
};

} // namespace life
