// Lockstep harness for dispenso::threadId() (C45) under harness/vsched.h.
// One case per line:
//   <c0> <budget> ; <prog t0> ; <prog t1> ; ... ; S <schedule ints...>
// c0 = initial value of dispenso::nextThread (unsigned 64-bit decimal).  prog tokens: T threadId()   Y harness scheduling point
// Output (one line): steps t:site ... | results t:tid=v ... | blocked | ctr <nextThread as unsigned> | status S
// (result values are printed as signed 64-bit; props/C45.py reduces them mod 2^64)
#include <atomic>
#include <cstdint>
#include <cstdio>
#include <cstdlib>
#include <iostream>
#include <sstream>
#include <string>
#include <vector>
#include <sys/wait.h>
#include <unistd.h>
#include <dispenso/thread_id.h>
#include "vsched.h"

namespace dispenso {
extern std::atomic<uint64_t> nextThread;   // defined in dispenso/thread_id.cpp (the library built from /repo)
}

int main() {
  std::string line;
  while (std::getline(std::cin, line)) {
    if (line.empty()) continue;
    fflush(stdout);
    pid_t pid = fork();
    if (pid == 0) {
      alarm(20);
      std::vector<std::string> parts;
      std::stringstream ss(line);
      std::string part;
      while (std::getline(ss, part, ';')) parts.push_back(part);
      std::istringstream hd(parts[0]);
      unsigned long long c0;
      long budget;
      hd >> c0 >> budget;
      std::vector<std::string> progs;
      std::vector<long> sched;
      for (size_t i = 1; i < parts.size(); ++i) {
        std::istringstream ps(parts[i]);
        std::string first;
        ps >> first;
        if (first == "S") {
          long x;
          while (ps >> x) sched.push_back(x);
        } else {
          std::string p;
          for (char ch : parts[i])
            if (ch == 'T' || ch == 'Y') p.push_back(ch);
          progs.push_back(p);
        }
      }
      dispenso::nextThread.store(static_cast<uint64_t>(c0));
      vs::Sched S(sched, budget, false);
      for (size_t t = 0; t < progs.size(); ++t) {
        S.spawn([&S, &progs, t]() {
          for (char ch : progs[t]) {
            if (ch == 'T') S.result("tid", static_cast<long>(dispenso::threadId()));
            else S.point("yield", nullptr);
          }
        });
      }
      S.run();
      std::ostringstream ex;
      ex << "ctr " << static_cast<unsigned long long>(dispenso::nextThread.load());
      S.print(ex.str());
      fflush(stdout);
      _exit(0);
    }
    int st = 0;
    waitpid(pid, &st, 0);
    if (!WIFEXITED(st) || WEXITSTATUS(st) != 0) {
      printf("CRASH status %d\n", st);
      fflush(stdout);
    }
  }
  return 0;
}
