// Lockstep harness for dispenso::threadId() (C45) under harness/vsched.h.
// One case per line:
//   <c0> <budget> ; <prog t0> ; <prog t1> ; ... ; S <schedule ints...>
// c0 = initial value of dispenso::nextThread (unsigned 64-bit decimal).  prog tokens: T threadId()   Y harness scheduling point
// Output (one line): steps t:site ... | results t:tid=v ... | blocked | ctr <nextThread as unsigned> | status S
// (result values are printed as signed 64-bit; props/C45.py reduces them mod 2^64)
#include <algorithm>
#include <ctime>
#include <atomic>
#include <thread>
#include <cstdint>
#include <cstdio>
#include <cstdlib>
#include <iostream>
#include <sstream>
#include <string>
#include <vector>
#include <sys/wait.h>
#include <unistd.h>
#include <dispenso/thread_id.h>
#include "vsched.h"

namespace dispenso {
extern std::atomic<uint64_t> nextThread;   // defined in dispenso/thread_id.cpp (the library built from /repo)
}

int main() {
  std::string line;
  while (std::getline(std::cin, line)) {
    if (line.empty()) continue;
    fflush(stdout);
    pid_t pid = fork();
    if (pid == 0) {
      alarm(20);
      if (line.compare(0, 7, "stress ") == 0) {
        // native contention probe (no scheduler): <threads> <rounds>; every round starts fresh threads behind a spin barrier so that their
        // FIRST threadId() calls collide; prints the ids of the first round in which two threads got the same id, else of the last round
        alarm(300);
        time_t t0 = time(nullptr);   // wall-clock cap: a loaded machine gets fewer rounds, never a failure
        int nth = 0, rounds = 0;
        sscanf(line.c_str() + 7, "%d %d", &nth, &rounds);
        dispenso::nextThread.store(1000);
        std::vector<unsigned long long> ids(static_cast<size_t>(nth)), bad;
        int badRound = -1;
        for (int r = 0; r < rounds && badRound < 0 && time(nullptr) - t0 < 60; ++r) {
          std::atomic<int> ready{0};
          std::atomic<bool> go{false};
          std::vector<std::thread> thr;
          for (int t = 0; t < nth; ++t)
            thr.emplace_back([&, t]() {
              ready.fetch_add(1);
              while (!go.load(std::memory_order_acquire)) {}
              ids[static_cast<size_t>(t)] = dispenso::threadId();
            });
          while (ready.load() < nth) std::this_thread::yield();
          go.store(true, std::memory_order_release);
          for (auto& x : thr) x.join();
          std::vector<unsigned long long> s(ids);
          std::sort(s.begin(), s.end());
          if (std::adjacent_find(s.begin(), s.end()) != s.end()) badRound = r;
        }
        printf("stress round %d ids", badRound);
        for (auto v : ids) printf(" %llu", v);
        printf("\n");
        fflush(stdout);
        _exit(0);
      }
      std::vector<std::string> parts;
      std::stringstream ss(line);
      std::string part;
      while (std::getline(ss, part, ';')) parts.push_back(part);
      std::istringstream hd(parts[0]);
      unsigned long long c0;
      long budget;
      hd >> c0 >> budget;
      std::vector<std::string> progs;
      std::vector<long> sched;
      for (size_t i = 1; i < parts.size(); ++i) {
        std::istringstream ps(parts[i]);
        std::string first;
        ps >> first;
        if (first == "S") {
          long x;
          while (ps >> x) sched.push_back(x);
        } else {
          std::string p;
          for (char ch : parts[i])
            if (ch == 'T' || ch == 'Y') p.push_back(ch);
          progs.push_back(p);
        }
      }
      dispenso::nextThread.store(static_cast<uint64_t>(c0));
      vs::Sched S(sched, budget, false);
      for (size_t t = 0; t < progs.size(); ++t) {
        S.spawn([&S, &progs, t]() {
          for (char ch : progs[t]) {
            if (ch == 'T') S.result("tid", static_cast<long>(dispenso::threadId()));
            else S.point("yield", nullptr);
          }
        });
      }
      S.run();
      std::ostringstream ex;
      ex << "ctr " << static_cast<unsigned long long>(dispenso::nextThread.load());
      S.print(ex.str());
      fflush(stdout);
      _exit(0);
    }
    int st = 0;
    waitpid(pid, &st, 0);
    if (!WIFEXITED(st) || WEXITSTATUS(st) != 0) {
      printf("CRASH status %d\n", st);
      fflush(stdout);
    }
  }
  return 0;
}
