// Native (real kernel futex, no scheduler) end-to-end supporting evidence for C07 / C09 on a real dispenso::ThreadPool.
// ONE-SIDED: a case only counts as "reproduced" when the measured time exceeds half of the (raised) sleep backstop, so it cannot
// flake towards a false alarm; "not reproduced" proves nothing.  The backstop is raised with the public setSignalingWake(true, d).
// stdin, one case per line:
//   c07 <threads> <tasks> <backstop_ms> <attempts>   idle pool, TaskSet::scheduleBulk(tasks) (ring fast path when tasks*4 >= threads),
//                                                    measure the latest task start
//   c07s <threads> <backstop_ms> <attempts>          idle pool, pool.schedule(f) (central queue path): control case
//   c09 <backstop_ms> <attempts>                     2-thread idle pool, schedule one task that blocks 150 ms, destroy the pool meanwhile,
//                                                    measure the destructor
// output: one line per case: "<mode> reproduced <0|1> attempts <k> max_ms <worst measured> backstop_ms <b> all_ms <list>"
#include <atomic>
#include <chrono>
#include <cstdio>
#include <iostream>
#include <memory>
#include <sstream>
#include <string>
#include <thread>
#include <vector>
#include <dispenso/task_set.h>
#include <dispenso/thread_pool.h>

using Clock = std::chrono::steady_clock;
static double ms(Clock::duration d) {
  return std::chrono::duration<double, std::milli>(d).count();
}

int main() {
  std::string line;
  while (std::getline(std::cin, line)) {
    std::istringstream in(line);
    std::string mode;
    in >> mode;
    if (mode == "c07" || mode == "c07s") {
      int threads = 8, tasks = 1, backstop = 2000, attempts = 3;
      if (mode == "c07") in >> threads >> tasks >> backstop >> attempts;
      else in >> threads >> backstop >> attempts;
      bool rep = false;
      double worst = 0;
      std::ostringstream all;
      int k = 0;
      for (; k < attempts && !rep; ++k) {
        dispenso::ThreadPool pool(static_cast<size_t>(threads));
        pool.setSignalingWake(true, std::chrono::milliseconds(backstop));
        std::this_thread::sleep_for(std::chrono::milliseconds(60));   // all workers spin down and park
        std::vector<std::atomic<long>> started(static_cast<size_t>(tasks));
        for (auto& s : started) s.store(-1);
        std::atomic<int> done{0};
        auto t0 = Clock::now();
        if (mode == "c07") {
          dispenso::TaskSet ts(pool);
          ts.scheduleBulk(static_cast<size_t>(tasks), [&](size_t j) {
            return [&, j]() {
              started[j].store(std::chrono::duration_cast<std::chrono::microseconds>(Clock::now() - t0).count());
              done.fetch_add(1);
            };
          });
          // do NOT wait() before the measurement: wait() would run the tasks on this thread and hide the missed wake
          while (done.load() < tasks && ms(Clock::now() - t0) < 3.0 * backstop) std::this_thread::sleep_for(std::chrono::milliseconds(1));
          ts.wait();
        } else {
          pool.schedule([&]() {
            started[0].store(std::chrono::duration_cast<std::chrono::microseconds>(Clock::now() - t0).count());
            done.fetch_add(1);
          }, dispenso::ForceQueuingTag());
          while (done.load() < 1 && ms(Clock::now() - t0) < 3.0 * backstop) std::this_thread::sleep_for(std::chrono::milliseconds(1));
        }
        double latest = 0;
        for (auto& s : started) latest = std::max(latest, s.load() / 1000.0);
        all << " " << latest;
        worst = std::max(worst, latest);
        if (latest > backstop / 2.0) rep = true;
      }
      printf("%s reproduced %d attempts %d max_ms %.1f backstop_ms %d all_ms%s\n", mode.c_str(), rep ? 1 : 0, k, worst, backstop, all.str().c_str());
    } else if (mode == "c09") {
      int backstop = 2000, attempts = 6;
      in >> backstop >> attempts;
      bool rep = false;
      double worst = 0;
      std::ostringstream all;
      int k = 0;
      for (; k < attempts && !rep; ++k) {
        auto pool = std::make_unique<dispenso::ThreadPool>(2);
        pool->setSignalingWake(true, std::chrono::milliseconds(backstop));
        std::this_thread::sleep_for(std::chrono::milliseconds(60));
        std::atomic<int> inTask{0};
        pool->schedule([&]() {
          inTask.store(1);
          std::this_thread::sleep_for(std::chrono::milliseconds(150));
        }, dispenso::ForceQueuingTag());
        while (!inTask.load()) std::this_thread::yield();
        std::this_thread::sleep_for(std::chrono::milliseconds(20));   // the woken worker has left the sleep section
        auto t0 = Clock::now();
        pool.reset();   // ~ThreadPool: stop all; wakeAll; join
        double d = ms(Clock::now() - t0);
        all << " " << d;
        worst = std::max(worst, d);
        if (d > backstop / 2.0) rep = true;
      }
      printf("c09 reproduced %d attempts %d max_ms %.1f backstop_ms %d all_ms%s\n", rep ? 1 : 0, k, worst, backstop, all.str().c_str());
    }
    fflush(stdout);
  }
  return 0;
}
