// Lockstep + stress harness for concurrent growth of dispenso::ConcurrentVector (C33) under harness/vsched.h.
//
// Scheduled case (one per line):
//   <strat 0|1|2> <inline 0|1> <fastiter 0|1> <elemsize 64|128|256> <budget> ; <prog t0> ; <prog t1> ; ... ; S <schedule ints...>
//     strat: 0 kFullBufferAhead, 1 kHalfBufferAhead, 2 kAsNeeded;  elemsize picks the first bucket length
//     (256 -> 1 element, 128 -> 2, 64 -> 4: SizeTraits::kDefaultCapacity / 2)
//   prog tokens:  P<tag>            push_back(Elem(tag))
//                 G<d>:<tag>:<api>  api 0: grow_by_generator(d, gen)   tags tag, tag+1, ...
//                                   api 1: grow_by(first, last)        tags tag, tag+1, ...
//                                   api 2: grow_by(d, Elem(tag))       every element gets tag
//                 A<n>:<tag>        grow_to_at_least(n, Elem(tag))
//   Every element construction inside a vector operation is a scheduling point as well (site elem.construct, raised by
//   the element's constructor before it writes the tag), and records the element's address.
//   Output: steps t:site ... | results t:r=<returned position> ... | blocked ... |
//           shift K size N contents <tag at 0> ... alloc <non-null buckets> moved M bad B | status S
//     moved = elements whose address at the end (&vec[i]) differs from the address recorded when they were constructed
//     bad   = other inconsistencies seen by the harness itself: two constructions at the same address, a thread re-reading
//             one of its own published elements (through the saved address and through operator[]) and not finding its tag
//   With status budget/deadlock the threads are still parked: only shift and size are printed.
// Native stress case:   N <strat> <inline> <fastiter> <elemsize> <threads> <ops per thread> <seed>
//   real threads, no scheduler; the same checks evaluated in C++.  Output: native ok|FAIL <details>
#include <algorithm>
#include <atomic>
#include <cstdio>
#include <cstdlib>
#include <iostream>
#include <map>
#include <set>
#include <sstream>
#include <string>
#include <thread>
#include <vector>
#include <sys/wait.h>
#include <unistd.h>
#define private public
#define protected public
#include <dispenso/concurrent_vector.h>
#undef private
#undef protected
#include "vsched.h"

static thread_local bool t_inop = false;
static thread_local std::vector<const void*>* t_addrs = nullptr;

template <int ESZ>
struct Elem {
  long tag;
  char pad[ESZ - sizeof(long)];
  static void hook(const void* p) {
    if (t_inop) {
      dispenso_verif_point("elem.construct", p);
      if (t_addrs) t_addrs->push_back(p);
    }
  }
  Elem(long t) {
    hook(this);
    tag = t;
  }
  Elem(const Elem& o) {
    hook(this);
    tag = o.tag;
  }
  Elem(Elem&& o) {
    hook(this);
    tag = o.tag;
  }
};

template <dispenso::ConcurrentVectorReallocStrategy S, bool Inl, bool Fast>
struct Tr {
  static constexpr bool kPreferBuffersInline = Inl;
  static constexpr dispenso::ConcurrentVectorReallocStrategy kReallocStrategy = S;
  static constexpr bool kIteratorPreferSpeed = Fast;
};

struct Op {
  char k;
  long a = 0, b = 0, c = 0;
};

struct Rec {   // one completed operation
  Op op;
  long ret = 0;
  std::vector<const void*> addrs;
};

static std::vector<Op> parseProg(const std::string& s) {
  std::vector<Op> v;
  std::istringstream in(s);
  std::string tok;
  while (in >> tok) {
    Op o;
    o.k = tok[0];
    long* f[3] = {&o.a, &o.b, &o.c};
    size_t pos = 1;
    for (int i = 0; i < 3 && pos <= tok.size(); ++i) {
      size_t c = tok.find(':', pos);
      *f[i] = atol(tok.substr(pos, c == std::string::npos ? std::string::npos : c - pos).c_str());
      if (c == std::string::npos) break;
      pos = c + 1;
    }
    v.push_back(o);
  }
  return v;
}

struct Gen {
  long next;
  long operator()() { return next++; }
};

template <typename Vec, typename E>
static long tagAt(const Rec& r, size_t j) {
  (void)sizeof(Vec);
  (void)sizeof(E);
  if (r.op.k == 'P') return r.op.a;
  if (r.op.k == 'G') return r.op.c == 2 ? r.op.b : r.op.b + static_cast<long>(j);
  return r.op.b;
}

// run one operation on the real vector; returns the record (returned position, addresses of the constructed elements)
template <typename Vec, typename E>
static Rec doOp(Vec& vec, const Op& o) {
  Rec r;
  r.op = o;
  t_addrs = &r.addrs;
  typename Vec::iterator it;
  switch (o.k) {
    case 'P': {
      E e(o.a);
      t_inop = true;
      it = vec.push_back(e);
      t_inop = false;
      break;
    }
    case 'G': {
      if (o.c == 0) {
        t_inop = true;
        it = vec.grow_by_generator(static_cast<size_t>(o.a), Gen{o.b});
        t_inop = false;
      } else if (o.c == 1) {
        std::vector<long> src;
        for (long j = 0; j < o.a; ++j) src.push_back(o.b + j);
        const long* first = src.data();
        t_inop = true;
        it = vec.grow_by(first, first + o.a);
        t_inop = false;
      } else {
        E e(o.b);
        t_inop = true;
        it = vec.grow_by(static_cast<size_t>(o.a), e);
        t_inop = false;
      }
      break;
    }
    default: {
      E e(o.b);
      t_inop = true;
      it = vec.grow_to_at_least(static_cast<size_t>(o.a), e);
      t_inop = false;
      break;
    }
  }
  t_addrs = nullptr;
  r.ret = static_cast<long>(it - vec.begin());
  return r;
}

// a thread re-reads everything it has published so far
template <typename Vec, typename E>
static long rereadOwn(Vec& vec, const std::vector<Rec>& recs) {
  long bad = 0;
  for (const Rec& r : recs) {
    for (size_t j = 0; j < r.addrs.size(); ++j) {
      long want = tagAt<Vec, E>(r, j);
      if (static_cast<const E*>(r.addrs[j])->tag != want) ++bad;
      if (vec[static_cast<size_t>(r.ret) + j].tag != want) ++bad;
    }
  }
  return bad;
}

template <typename Vec, typename E>
static void finalChecks(Vec& vec, const std::vector<std::vector<Rec>>& recs, long& moved, long& bad) {
  std::set<const void*> seen;
  for (auto& tr : recs)
    for (const Rec& r : tr)
      for (size_t j = 0; j < r.addrs.size(); ++j) {
        if (!seen.insert(r.addrs[j]).second) ++bad;
        size_t idx = static_cast<size_t>(r.ret) + j;
        if (idx >= vec.size() || static_cast<const void*>(&vec[idx]) != r.addrs[j]) ++moved;
      }
}

template <typename Vec, typename E>
static void runSched(long budget, const std::vector<std::vector<Op>>& progs, const std::vector<long>& sched) {
  Vec vec;
  vs::Sched S(sched, budget, false);
  std::vector<std::vector<Rec>> recs(progs.size());
  std::vector<long> rbad(progs.size(), 0);
  for (size_t t = 0; t < progs.size(); ++t) {
    S.spawn([&, t]() {
      for (const Op& o : progs[t]) {
        recs[t].push_back(doOp<Vec, E>(vec, o));
        S.result("r", recs[t].back().ret);
        rbad[t] += rereadOwn<Vec, E>(vec, recs[t]);
      }
    });
  }
  S.run();
  std::ostringstream ex;
  ex << "shift " << vec.firstBucketShift_ << " size " << vec.size();
  if (S.status() == "done") {
    S.joinAll();
    ex << " contents";
    for (size_t i = 0; i < vec.size(); ++i) ex << " " << vec[i].tag;
    ex << " alloc";
    for (size_t k = 0; k < Vec::kMaxBuffers; ++k)
      if (vec.buffers_[k].load(std::memory_order_acquire)) ex << " " << k;
    long moved = 0, bad = 0;
    finalChecks<Vec, E>(vec, recs, moved, bad);
    for (long b : rbad) bad += b;
    ex << " moved " << moved << " bad " << bad;
    S.print(ex.str());
    fflush(stdout);
    return;   // vector destroyed normally
  }
  S.print(ex.str());
  fflush(stdout);
  _exit(0);
}

template <typename Vec, typename E>
static void runNative(int nthreads, int nops, unsigned long seed) {
  Vec vec;
  std::vector<std::vector<Rec>> recs(static_cast<size_t>(nthreads));
  std::vector<long> rbad(static_cast<size_t>(nthreads), 0);
  std::atomic<int> go{0};
  std::vector<std::thread> ths;
  for (int t = 0; t < nthreads; ++t) {
    ths.emplace_back([&, t]() {
      unsigned long x = seed * 2654435761UL + static_cast<unsigned long>(t) * 40503UL + 1;
      auto rnd = [&x]() {
        x = x * 6364136223846793005ULL + 1442695040888963407ULL;
        return static_cast<unsigned long>(x >> 33);
      };
      long nextTag = (t + 1) * 10000000L;
      go.fetch_add(1);
      while (go.load() < nthreads) {
      }
      for (int i = 0; i < nops; ++i) {
        Op o;
        unsigned long c = rnd() % 10;
        if (c < 4) {
          o.k = 'P';
          o.a = nextTag++;
        } else if (c < 9) {
          o.k = 'G';
          o.a = static_cast<long>(rnd() % 41);
          o.b = nextTag;
          o.c = static_cast<long>(rnd() % 3);
          nextTag += o.a + 1;
        } else {
          o.k = 'A';
          o.a = static_cast<long>(vec.size() + rnd() % 9 + 1);
          o.b = nextTag++;
        }
        recs[static_cast<size_t>(t)].push_back(doOp<Vec, E>(vec, o));
        if (i % 8 == 7) rbad[static_cast<size_t>(t)] += rereadOwn<Vec, E>(vec, recs[static_cast<size_t>(t)]);
      }
    });
  }
  for (auto& th : ths) th.join();
  long moved = 0, bad = 0;
  finalChecks<Vec, E>(vec, recs, moved, bad);
  for (long b : rbad) bad += b;
  // ranges: (start, length) of every operation that constructed something; must tile [0, size)
  std::vector<std::pair<long, long>> ranges;
  long wrongTag = 0, total = 0, nopsDone = 0;
  for (auto& tr : recs)
    for (const Rec& r : tr) {
      ++nopsDone;
      long d = static_cast<long>(r.addrs.size());
      if (r.op.k == 'P' && d != 1) ++bad;
      if (r.op.k == 'G' && d != r.op.a) ++bad;
      total += d;
      if (d) ranges.push_back({r.ret, d});
      for (long j = 0; j < d; ++j) {
        size_t idx = static_cast<size_t>(r.ret + j);
        if (idx >= vec.size() || vec[idx].tag != tagAt<Vec, E>(r, static_cast<size_t>(j))) ++wrongTag;
      }
    }
  std::sort(ranges.begin(), ranges.end());
  long gaps = 0, pos = 0;
  for (auto& rg : ranges) {
    if (rg.first != pos) ++gaps;
    pos = rg.first + rg.second;
  }
  bool ok = moved == 0 && bad == 0 && wrongTag == 0 && gaps == 0 && total == static_cast<long>(vec.size()) &&
      pos == static_cast<long>(vec.size());
  printf("native %s ops %ld size %zu total %ld moved %ld bad %ld wrongtag %ld gaps %ld\n", ok ? "ok" : "FAIL", nopsDone,
         vec.size(), total, moved, bad, wrongTag, gaps);
  fflush(stdout);
}

struct Args {
  bool native = false;
  long budget = 0;
  std::vector<std::vector<Op>> progs;
  std::vector<long> sched;
  int nthreads = 0, nops = 0;
  unsigned long seed = 0;
};

template <typename Vec, typename E>
static void go(const Args& a) {
  if (a.native)
    runNative<Vec, E>(a.nthreads, a.nops, a.seed);
  else
    runSched<Vec, E>(a.budget, a.progs, a.sched);
}

template <dispenso::ConcurrentVectorReallocStrategy S, bool Inl, bool Fast>
static void dispatchSize(int esz, const Args& a) {
  using T = Tr<S, Inl, Fast>;
  if (esz == 256)
    go<dispenso::ConcurrentVector<Elem<256>, T>, Elem<256>>(a);
  else if (esz == 128)
    go<dispenso::ConcurrentVector<Elem<128>, T>, Elem<128>>(a);
  else
    go<dispenso::ConcurrentVector<Elem<64>, T>, Elem<64>>(a);
}

// The 36 trait combinations are expensive to compile in one translation unit: props/C33.py builds one executable per
// (strategy, inline) pair with -DH_STRAT=<s> -DH_INL=<i> (in parallel); without these defines everything is compiled.
static void dispatch(int strat, int inl, int fast, int esz, const Args& a) {
  using RS = dispenso::ConcurrentVectorReallocStrategy;
#define H_CASE(SV, SE, IV)                                                            \
  if (strat == SV && inl == IV) {                                                     \
    if (fast)                                                                         \
      dispatchSize<SE, (IV != 0), true>(esz, a);                                      \
    else                                                                              \
      dispatchSize<SE, (IV != 0), false>(esz, a);                                     \
    return;                                                                           \
  }
#if defined(H_STRAT) && defined(H_INL)
#if H_STRAT == 0
  H_CASE(0, RS::kFullBufferAhead, H_INL)
#elif H_STRAT == 1
  H_CASE(1, RS::kHalfBufferAhead, H_INL)
#else
  H_CASE(2, RS::kAsNeeded, H_INL)
#endif
#else
  H_CASE(0, RS::kFullBufferAhead, 0)
  H_CASE(0, RS::kFullBufferAhead, 1)
  H_CASE(1, RS::kHalfBufferAhead, 0)
  H_CASE(1, RS::kHalfBufferAhead, 1)
  H_CASE(2, RS::kAsNeeded, 0)
  H_CASE(2, RS::kAsNeeded, 1)
#endif
#undef H_CASE
  printf("UNSUPPORTED strat %d inline %d in this build\n", strat, inl);
  fflush(stdout);
}

int main() {
  std::string line;
  while (std::getline(std::cin, line)) {
    if (line.empty()) continue;
    fflush(stdout);
    pid_t pid = fork();
    if (pid == 0) {
      alarm(60);
      Args a;
      int strat, inl, fast, esz;
      if (line[0] == 'N') {
        std::istringstream hd(line.substr(1));
        hd >> strat >> inl >> fast >> esz >> a.nthreads >> a.nops >> a.seed;
        a.native = true;
      } else {
        std::vector<std::string> parts;
        std::stringstream ss(line);
        std::string part;
        while (std::getline(ss, part, ';')) parts.push_back(part);
        std::istringstream hd(parts[0]);
        hd >> strat >> inl >> fast >> esz >> a.budget;
        for (size_t i = 1; i < parts.size(); ++i) {
          std::istringstream ps(parts[i]);
          std::string first;
          ps >> first;
          if (first == "S") {
            long x;
            while (ps >> x) a.sched.push_back(x);
          } else {
            a.progs.push_back(parseProg(parts[i]));
          }
        }
      }
      dispatch(strat, inl, fast, esz, a);
      fflush(stdout);
      _exit(0);
    }
    int st = 0;
    waitpid(pid, &st, 0);
    if (!WIFEXITED(st) || WEXITSTATUS(st) != 0) {
      printf("CRASH status %d\n", st);
      fflush(stdout);
    }
  }
  return 0;
}
