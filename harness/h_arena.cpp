// Correspondence harness for C37: drives the REAL dispenso::ConcurrentObjectArena from /repo.
// Built with -fsanitize=address: ASan fills fresh allocations with 0xbe, so a read of a never-written
// buffer-table entry is a deterministic wild pointer (SEGV) instead of "whatever the allocator left there".
// A SIGSEGV inside an operation (ASan's own SEGV handling is switched off) is caught, the line is closed with " CRASH" and
// the harness goes on with the next case (the objects of the crashed case are leaked on purpose).
//
//   seq <nslots> <op> ...     ops:  N s m i   slot s = new Arena(minBuffSize m, initialSize i)
//                                   G s d     grow_by(d)            -> ret size cap nbuf tcap stable alldef digest
//                                   W s i v   a[i].v = v            -> digest
//                                   R s       dump                  -> size cap nbuf tcap v0 v1 ...
//                                   C d s     slot d = new Arena(*slot s)         -> dump(d) dump(s)
//                                   A d s     *slot d = *slot s                   -> dump(d) dump(s)
//                                   M d s     slot d = new Arena(move(*slot s))   -> dump(d) dump(s)
//                                   V d s     *slot d = move(*slot s)             -> dump(d) dump(s)
//                                   S x y     swap(*slot x, *slot y)              -> dump(x) dump(y)
//                                   D s       delete slot s
//        -> "seq | <numbers of op 1> ; | <numbers of op 2> ; ..."    (";" = the operation completed)
//   mt <minBuf> <init> <nthreads> <calls> <maxdelta> <seed>
//        -> "mt p0 n r0 d0 r1 d1 ... | size cap nbuf tcap alldef tagsok stable"     (ranges sorted by start)
#include <algorithm>
#include <atomic>
#include <cassert>
#include <chrono>
#include <cstdint>
#include <cstdio>
#include <cstdlib>
#include <cstring>
#include <iostream>
#include <memory>
#include <mutex>
#include <sstream>
#include <string>
#include <thread>
#include <type_traits>
#include <utility>
#include <vector>
#include <csetjmp>
#include <csignal>
#include <fcntl.h>
#include <unistd.h>
#include <dispenso/platform.h>
#define private public
#include <dispenso/concurrent_object_arena.h>
#undef private

extern "C" const char* __asan_default_options() {
  return "detect_leaks=0:max_malloc_fill_size=1048576:malloc_fill_byte=190:allocator_may_return_null=1:handle_segv=0:handle_sigbus=0:handle_abort=0:abort_on_error=1:symbolize=0";
}

struct E {
  long v;
  E() : v(7) {}
};
using Arena = dispenso::ConcurrentObjectArena<E>;

static void put(long x) {
  printf(" %ld", x);
}
static void shape(const Arena& a) {
  put(static_cast<long>(a.size()));
  put(static_cast<long>(a.capacity()));
  put(static_cast<long>(a.numBuffers()));
  put(static_cast<long>(a.buffersSize_));
}
static long digest(const Arena& a) {
  long h = 0;
  for (size_t i = 0; i < a.size(); ++i) {
    long long t = (static_cast<long long>(i + 1) * a[i].v) % 1000003;
    h = static_cast<long>(((h + t) % 1000003 + 1000003) % 1000003);
  }
  return h;
}
static void dump(const Arena& a) {
  shape(a);
  for (size_t i = 0; i < a.size(); ++i) put(a[i].v);
}

static sigjmp_buf g_env;
static volatile sig_atomic_t g_armed = 0;
static void onSegv(int) {
  if (g_armed) {
    g_armed = 0;
    siglongjmp(g_env, 1);
  }
  const char m[] = " CRASH\n";
  ssize_t r = write(1, m, sizeof(m) - 1);
  (void)r;
  _exit(0);
}
// ASan error report (abort_on_error=1), assert, watchdog: close the line and stop; the driver restarts on the remaining cases
static void onFatal(int) {
  const char m[] = " CRASH\n";
  ssize_t r = write(1, m, sizeof(m) - 1);
  (void)r;
  _exit(0);
}

static void runSeq(std::istringstream& in) {
  int nslots;
  in >> nslots;
  // leaked when the case crashes: the arenas of a crashed case are never touched again
  auto* slp = new std::vector<std::unique_ptr<Arena>>(static_cast<size_t>(nslots));
  std::vector<std::unique_ptr<Arena>>& sl = *slp;
  printf("seq");
  std::string op;
  while (in >> op) {
    printf(" |");
    if (op == "N") {
      size_t s, m, i;
      in >> s >> m >> i;
      sl[s].reset(new Arena(m, i));
      shape(*sl[s]);
      put(digest(*sl[s]));
    } else if (op == "G") {
      size_t s, d;
      in >> s >> d;
      Arena& a = *sl[s];
      std::vector<const E*> before;
      for (size_t i = 0; i < a.size(); ++i) before.push_back(&a[i]);
      size_t r = a.grow_by(d);
      bool stable = true, alldef = true;
      for (size_t i = 0; i < before.size(); ++i) stable = stable && (before[i] == &a[i]);
      for (size_t i = r; i < r + d; ++i) alldef = alldef && a[i].v == 7;
      put(static_cast<long>(r));
      shape(a);
      put(stable);
      put(alldef);
      put(digest(a));
    } else if (op == "W") {
      size_t s, i;
      long v;
      in >> s >> i >> v;
      (*sl[s])[i].v = v;
      put(digest(*sl[s]));
    } else if (op == "R") {
      size_t s;
      in >> s;
      dump(*sl[s]);
    } else if (op == "C") {
      size_t d, s;
      in >> d >> s;
      fflush(stdout);
      sl[d].reset(new Arena(*sl[s]));
      dump(*sl[d]);
      dump(*sl[s]);
    } else if (op == "A") {
      size_t d, s;
      in >> d >> s;
      fflush(stdout);
      *sl[d] = *sl[s];
      dump(*sl[d]);
      dump(*sl[s]);
    } else if (op == "M") {
      size_t d, s;
      in >> d >> s;
      sl[d].reset(new Arena(std::move(*sl[s])));
      dump(*sl[d]);
      dump(*sl[s]);
    } else if (op == "V") {
      size_t d, s;
      in >> d >> s;
      *sl[d] = std::move(*sl[s]);
      dump(*sl[d]);
      dump(*sl[s]);
    } else if (op == "S") {
      size_t x, y;
      in >> x >> y;
      swap(*sl[x], *sl[y]);
      dump(*sl[x]);
      dump(*sl[y]);
    } else if (op == "D") {
      size_t s;
      in >> s;
      sl[s].reset();
    } else {
      printf(" BADOP");
      break;
    }
    printf(" ;");  // the operation completed
    fflush(stdout);
  }
  delete slp;  // destructors (ASan: double free / bad free would be reported here)
  fflush(stdout);
}

static void runMt(std::istringstream& in) {
  size_t minBuf, init;
  int nthreads, calls;
  size_t maxdelta;
  uint64_t seed;
  in >> minBuf >> init >> nthreads >> calls >> maxdelta >> seed;
  Arena a(minBuf, init);
  size_t p0 = a.size();
  std::vector<const E*> before;
  for (size_t i = 0; i < p0; ++i) {
    a[i].v = 5000 + static_cast<long>(i);
    before.push_back(&a[i]);
  }
  struct Rec {
    size_t r, d;
    long tag;
  };
  std::vector<std::vector<Rec>> recs(static_cast<size_t>(nthreads));
  std::atomic<int> ready(0);
  std::atomic<bool> alldef(true);
  std::vector<std::thread> th;
  for (int t = 0; t < nthreads; ++t) {
    th.emplace_back([&, t]() {
      uint64_t x = seed * 0x9E3779B97F4A7C15ull + static_cast<uint64_t>(t + 1) * 0xD1B54A32D192ED03ull;
      ready.fetch_add(1);
      while (ready.load() < nthreads) {
      }
      for (int k = 0; k < calls; ++k) {
        x ^= x << 13;
        x ^= x >> 7;
        x ^= x << 17;
        size_t d = static_cast<size_t>(x % (maxdelta + 1));
        size_t r = a.grow_by(d);
        long tag = (t + 1) * 1000000L + k;
        for (size_t i = r; i < r + d; ++i) {
          if (a[i].v != 7) alldef.store(false);
          a[i].v = tag;
        }
        recs[static_cast<size_t>(t)].push_back(Rec{r, d, tag});
      }
    });
  }
  for (auto& t : th) t.join();
  std::vector<Rec> all;
  for (auto& v : recs) all.insert(all.end(), v.begin(), v.end());
  std::stable_sort(all.begin(), all.end(), [](const Rec& x, const Rec& y) { return x.r < y.r || (x.r == y.r && x.d < y.d); });
  bool tagsok = true, stable = true;
  for (const Rec& r : all)
    for (size_t i = r.r; i < r.r + r.d && i < a.capacity(); ++i) tagsok = tagsok && a[i].v == r.tag;
  for (size_t i = 0; i < p0; ++i) stable = stable && before[i] == &a[i] && a[i].v == 5000 + static_cast<long>(i);
  printf("mt %zu %zu", p0, all.size());
  for (const Rec& r : all) printf(" %zu %zu", r.r, r.d);
  printf(" |");
  shape(a);
  put(alldef.load());
  put(tagsok);
  put(stable);
  fflush(stdout);
}

int main() {
  std::string line;
  struct sigaction sa;
  memset(&sa, 0, sizeof(sa));
  sa.sa_handler = onSegv;
  sa.sa_flags = SA_NODEFER;
  sigaction(SIGSEGV, &sa, nullptr);
  sigaction(SIGBUS, &sa, nullptr);
  signal(SIGABRT, onFatal);
  signal(SIGALRM, onFatal);
  if (!getenv("H_VERBOSE")) {  // ASan reports on stderr would be merged into the result lines
    int fd = open("/dev/null", O_WRONLY);
    if (fd >= 0) dup2(fd, 2);
  }
  while (std::getline(std::cin, line)) {
    if (line.empty()) continue;
    std::istringstream in(line);
    std::string kind;
    in >> kind;
    alarm(60);
    if (kind == "seq") {
      if (sigsetjmp(g_env, 1) == 0) {
        g_armed = 1;
        runSeq(in);
        g_armed = 0;
      } else {
        printf(" CRASH");
      }
    } else if (kind == "mt") {
      runMt(in);
    } else {
      printf("BAD");
    }
    printf("\n");
    fflush(stdout);
  }
  return 0;
}
