// Correspondence harness for C38: drives the REAL dispenso::SmallVector<LT<A>, N> from /repo.
//
// One case per input line:   <A> <N> <off> <K> <op> <op> ...
//   A   = alignof(T) = sizeof(T) in {8,16,32,64};  N = inline capacity in {1,2,4,8};  K = number of vector slots (<= 4)
//   off = what the intercepted ::operator new / ::malloc returns while the vector code runs:
//           -1    : whatever malloc returns (the platform's real operator new behaviour)
//           0..48 : an address == off (mod 64)  (multiple of 16: everything ::operator new guarantees,
//                   __STDCPP_DEFAULT_NEW_ALIGNMENT__ == 16)
//   ops (comma separated fields, no blanks):
//     C,k  Cn,k,n  Cv,k,n,x  Ci,k,m,x1..xm (m<=6)  Cc,k,j  Cm,k,j  D,k  Ac,k,j  Am,k,j
//     P,mode,k,x (mode 0 emplace_back(x), 1 push_back(const T&), 2 push_back(T&&))   o,k (pop_back)
//     r,k,n (resize)  R,k,n,x (resize(n, T(x)))  v,k,n (reserve)  x,k (clear)  E,k,i (erase(begin()+i))
//     s,k,i (push_back(v[i]))  S,k,n,i (resize(n, v[i]))
// Output, one line per case (numbers only, '|' separates records, ';' separates slot observations):
//   sv <objmod> <inl_off> <sizeofT> | <step> | <step> ... | F <all slots> | Z <final header> | B <bytes:resid> ...
//   step/final header: readdead readmoved dblctor dtordead assigndead misaligned dblfree refmismatch nctor ndtor nalloc nfree
//   slot observation  : k 0            (no object)
//                       k 1 heap size capacity (data() mod A) c0 c1 ...
//   step = header ; slot(k) [; slot(j)]        F = slot(0) ; ... ; slot(K-1)  (before the final destructors)
//   Z = header after every remaining vector was destroyed, followed by liveObjects and liveBlocks
#include <cassert>
#include <cstddef>
#include <cstdint>
#include <cstdio>
#include <cstdlib>
#include <cstring>
#include <initializer_list>
#include <iostream>
#include <new>
#include <sstream>
#include <string>
#include <utility>
#include <vector>

#include <algorithm>
#include <atomic>
#include <memory>
#include <thread>
#include <type_traits>

#include "life_sv.h"

// ---------------------------------------------------------------- replaced allocation functions
// SmallVector's allocate()/deallocate() use ::operator new/delete, or (alignof(T) > alignof(max_align_t), after the fix)
// detail::alignedMalloc/alignedFree = ::malloc/::free + alignment arithmetic.  Both are intercepted: operator new/delete
// by replacement, ::malloc/::free inside the dispenso headers by the macros below.
struct BlockRec {
  void* p;     // address the vector code uses as storage
  void* key;   // what it passes back to operator delete / free
  void* real;  // what the real malloc returned
  size_t bytes;
  int live;
};
static bool g_track = false;
static int g_off = -1;
static size_t g_A = 8;  // alignof(T) of the running case
static BlockRec g_blocks[1 << 14];
static int g_nblocks = 0;
static long g_nalloc = 0, g_nfree = 0, g_dblfree = 0;

// raw block for a tracked request: native malloc, or an address == g_off (mod 64)
static void rawBlock(size_t n, void*& real, void*& p) {
  if (g_off < 0) {
    real = p = std::malloc(n ? n : 1);
  } else {
    real = std::malloc(n + 192);
    uintptr_t a = (reinterpret_cast<uintptr_t>(real) + 63) & ~uintptr_t(63);
    p = reinterpret_cast<void*>(a + static_cast<uintptr_t>(g_off));
  }
  if (!real || g_nblocks >= (1 << 14)) std::abort();
}
static bool releaseTracked(void* key) {  // true when handled
  int dead = -1;
  for (int i = g_nblocks - 1; i >= 0; --i) {
    if (g_blocks[i].key == key) {
      if (g_blocks[i].live) {
        g_blocks[i].live = 0;
        ++g_nfree;
        std::free(g_blocks[i].real);
        return true;
      }
      dead = i;
    }
  }
  if (g_track) {  // the vector code releases a block twice, or one it never allocated
    ++g_dblfree;
    if (dead >= 0) ++g_nfree;
    return true;
  }
  return false;
}

void* operator new(size_t n) {
  if (!g_track) {
    void* p = std::malloc(n ? n : 1);
    if (!p) std::abort();
    return p;
  }
  void *real, *p;
  rawBlock(n, real, p);
  g_blocks[g_nblocks++] = BlockRec{p, p, real, n, 1};
  ++g_nalloc;
  return p;
}
void operator delete(void* p) noexcept {
  if (!p) return;
  if (!releaseTracked(p)) std::free(p);
}
void operator delete(void* p, size_t) noexcept {
  ::operator delete(p);
}
// ::malloc / ::free as seen by detail::alignedMalloc / alignedFree
static void* hv_malloc(size_t n) {
  if (!g_track) return std::malloc(n);
  void *real, *key;
  rawBlock(n, real, key);
  // alignedMalloc(bytes, A) asks for bytes + A and hands out (key + A) & ~(A - 1)
  uintptr_t user = (reinterpret_cast<uintptr_t>(key) + g_A) & ~uintptr_t(g_A - 1);
  g_blocks[g_nblocks++] = BlockRec{reinterpret_cast<void*>(user), key, real, n - g_A, 1};
  ++g_nalloc;
  return key;
}
static void hv_free(void* q) {
  if (!q) return;
  if (!releaseTracked(q)) std::free(q);
}

#define malloc hv_malloc
#define free hv_free
#define private public
#define protected public
#include <dispenso/small_vector.h>
#undef private
#undef protected
#undef malloc
#undef free

struct Track {
  Track() {
    g_track = true;
  }
  ~Track() {
    g_track = false;
  }
};

// ---------------------------------------------------------------- one case
struct Op {
  std::string name;
  std::vector<long long> a;
};

static void header(std::ostringstream& os, long refmismatch) {
  const lsv::Counters& c = lsv::g_c;
  os << c.readdead << ' ' << c.readmoved << ' ' << c.dblctor << ' ' << c.dtordead << ' ' << c.assigndead << ' ' << c.misaligned
     << ' ' << g_dblfree << ' ' << refmismatch << ' ' << c.nctor << ' ' << c.ndtor << ' ' << g_nalloc << ' ' << g_nfree;
}

template <size_t A, size_t N>
struct Runner {
  using T = lsv::LT<A>;
  using SV = dispenso::SmallVector<T, N>;
  struct alignas(SV) Slot {
    unsigned char b[sizeof(SV)];
  };
  enum { kMaxK = 4 };
  Slot slot[kMaxK];
  bool alive[kMaxK];
  std::vector<int64_t> ref[kMaxK];  // the std::vector reference (values only)
  bool refAlive[kMaxK];
  long refmismatch = 0;
  int K = 0;

  SV& sv(int k) {
    return *reinterpret_cast<SV*>(slot[k].b);
  }

  void slotObs(std::ostringstream& os, int k) {
    os << k << ' ' << (alive[k] ? 1 : 0);
    if (!alive[k]) return;
    SV& v = sv(k);
    os << ' ' << (v.isInline() ? 0 : 1) << ' ' << v.size() << ' ' << v.capacity() << ' '
       << (reinterpret_cast<uintptr_t>(v.data()) % A);
    size_t n = v.size();
    if (n > 4096) n = 4096;
    for (size_t i = 0; i < n; ++i) os << ' ' << v[i].v;
  }
  void compareRef(int k) {
    if (alive[k] != refAlive[k]) {
      ++refmismatch;
      return;
    }
    if (!alive[k]) return;
    SV& v = sv(k);
    if (v.size() != ref[k].size()) {
      ++refmismatch;
      return;
    }
    for (size_t i = 0; i < ref[k].size(); ++i)
      if (v[i].v != ref[k][i]) {
        ++refmismatch;
        return;
      }
  }

  // returns false when the op cannot be applied (driver error)
  bool apply(const Op& o) {
    const std::string& n = o.name;
    const std::vector<long long>& a = o.a;
    auto K_ok = [&](long long k) { return k >= 0 && k < K; };
    if (n == "C" || n == "Cn" || n == "Cv" || n == "Ci" || n == "Cc" || n == "Cm") {
      int k = static_cast<int>(a[0]);
      if (!K_ok(k) || alive[k]) return false;
      void* mem = slot[k].b;
      if (n == "C") {
        { Track t; new (mem) SV(); }
        ref[k].clear();
      } else if (n == "Cn") {
        { Track t; new (mem) SV(static_cast<size_t>(a[1])); }
        ref[k].assign(static_cast<size_t>(a[1]), 0);
      } else if (n == "Cv") {
        { Track t; new (mem) SV(static_cast<size_t>(a[1]), T(a[2])); }
        ref[k].assign(static_cast<size_t>(a[1]), a[2]);
      } else if (n == "Ci") {
        int m = static_cast<int>(a[1]);
        const long long* x = a.data() + 2;
        {
          Track t;
          switch (m) {
            case 0: new (mem) SV(std::initializer_list<T>{}); break;
            case 1: new (mem) SV{T(x[0])}; break;
            case 2: new (mem) SV{T(x[0]), T(x[1])}; break;
            case 3: new (mem) SV{T(x[0]), T(x[1]), T(x[2])}; break;
            case 4: new (mem) SV{T(x[0]), T(x[1]), T(x[2]), T(x[3])}; break;
            case 5: new (mem) SV{T(x[0]), T(x[1]), T(x[2]), T(x[3]), T(x[4])}; break;
            case 6: new (mem) SV{T(x[0]), T(x[1]), T(x[2]), T(x[3]), T(x[4]), T(x[5])}; break;
            default: return false;
          }
        }
        ref[k].assign(x, x + m);
      } else {
        int j = static_cast<int>(a[1]);
        if (!K_ok(j) || !alive[j] || j == k) return false;
        if (n == "Cc") {
          { Track t; new (mem) SV(const_cast<const SV&>(sv(j))); }
          ref[k] = ref[j];
        } else {
          { Track t; new (mem) SV(std::move(sv(j))); }
          ref[k] = ref[j];
          ref[j].clear();  // SmallVector documents "leaves other empty" (what libstdc++'s vector does as well)
        }
      }
      alive[k] = refAlive[k] = true;
      return true;
    }
    if (n == "P") {
      int mode = static_cast<int>(a[0]), k = static_cast<int>(a[1]);
      if (!K_ok(k) || !alive[k]) return false;
      int64_t x = a[2];
      {
        Track t;
        if (mode == 0) {
          sv(k).emplace_back(x);
        } else if (mode == 1) {
          const T tmp(x);
          sv(k).push_back(tmp);
        } else {
          T tmp(x);
          sv(k).push_back(std::move(tmp));
        }
      }
      ref[k].push_back(x);
      return true;
    }
    int k = static_cast<int>(a[0]);
    if (!K_ok(k) || !alive[k]) return false;
    if (n == "D") {
      { Track t; sv(k).~SV(); }
      alive[k] = refAlive[k] = false;
      ref[k].clear();
    } else if (n == "Ac" || n == "Am") {
      int j = static_cast<int>(a[1]);
      if (!K_ok(j) || !alive[j]) return false;
      if (n == "Ac") {
        { Track t; sv(k) = const_cast<const SV&>(sv(j)); }
        if (j != k) ref[k] = ref[j];
      } else {
        { Track t; sv(k) = std::move(sv(j)); }
        if (j != k) {
          ref[k] = ref[j];
          ref[j].clear();
        }
      }
    } else if (n == "o") {
      if (ref[k].empty()) return false;
      { Track t; sv(k).pop_back(); }
      ref[k].pop_back();
    } else if (n == "r") {
      { Track t; sv(k).resize(static_cast<size_t>(a[1])); }
      ref[k].resize(static_cast<size_t>(a[1]), 0);
    } else if (n == "R") {
      { Track t; sv(k).resize(static_cast<size_t>(a[1]), T(a[2])); }
      ref[k].resize(static_cast<size_t>(a[1]), a[2]);
    } else if (n == "v") {
      { Track t; sv(k).reserve(static_cast<size_t>(a[1])); }
      ref[k].reserve(static_cast<size_t>(a[1]));
    } else if (n == "x") {
      { Track t; sv(k).clear(); }
      ref[k].clear();
    } else if (n == "E") {
      size_t i = static_cast<size_t>(a[1]);
      if (i >= ref[k].size()) return false;
      { Track t; sv(k).erase(sv(k).begin() + i); }
      ref[k].erase(ref[k].begin() + static_cast<std::ptrdiff_t>(i));
    } else if (n == "s") {
      size_t i = static_cast<size_t>(a[1]);
      if (i >= ref[k].size()) return false;
      { Track t; sv(k).push_back(sv(k)[i]); }
      ref[k].push_back(ref[k][i]);  // std::vector guarantees this works
    } else if (n == "S") {
      size_t i = static_cast<size_t>(a[2]);
      if (i >= ref[k].size()) return false;
      { Track t; sv(k).resize(static_cast<size_t>(a[1]), sv(k)[i]); }
      int64_t x = ref[k][i];
      ref[k].resize(static_cast<size_t>(a[1]), x);  // std::vector guarantees this works
    } else {
      return false;
    }
    return true;
  }

  std::string run(int K_, const std::vector<Op>& ops) {
    K = K_;
    std::ostringstream os;
    uintptr_t objmod = 0;
    for (int k = 0; k < kMaxK; ++k) {
      alive[k] = refAlive[k] = false;
      ref[k].clear();
      objmod |= reinterpret_cast<uintptr_t>(slot[k].b) % alignof(SV);
    }
    SV* probe = reinterpret_cast<SV*>(slot[0].b);
    size_t inlOff = static_cast<size_t>(reinterpret_cast<unsigned char*>(&probe->storage_) - reinterpret_cast<unsigned char*>(probe));
    os << "sv " << objmod << ' ' << inlOff << ' ' << sizeof(T);
    for (const Op& o : ops) {
      if (!apply(o)) {
        os << " | X";
        break;
      }
      int k = static_cast<int>(o.name == "P" ? o.a[1] : o.a[0]);
      int j = (o.name == "Cc" || o.name == "Cm" || o.name == "Ac" || o.name == "Am") ? static_cast<int>(o.a[1]) : -1;
      compareRef(k);
      if (j >= 0) compareRef(j);
      os << " | ";
      header(os, refmismatch);
      os << " ; ";
      slotObs(os, k);
      if (j >= 0) {
        os << " ; ";
        slotObs(os, j);
      }
    }
    os << " | F";
    for (int k = 0; k < K; ++k) {
      compareRef(k);
      os << (k ? " ; " : " ");
      slotObs(os, k);
    }
    for (int k = 0; k < K; ++k) {
      if (alive[k]) {
        Track t;
        sv(k).~SV();
        alive[k] = false;
      }
    }
    os << " | Z ";
    header(os, refmismatch);
    long liveBlocks = 0;
    for (int i = 0; i < g_nblocks; ++i) liveBlocks += g_blocks[i].live;
    os << ' ' << lsv::liveObjects() << ' ' << liveBlocks;
    os << " | B";
    for (int i = 0; i < g_nblocks; ++i)
      os << ' ' << g_blocks[i].bytes << ':' << (reinterpret_cast<uintptr_t>(g_blocks[i].p) % 64);
    return os.str();
  }
};

template <size_t A, size_t N>
static std::string runCase(int K, const std::vector<Op>& ops) {
  static Runner<A, N> r;  // static storage: the slots are aligned as alignas(SV) asks
  r.refmismatch = 0;
  return r.run(K, ops);
}

template <size_t A>
static std::string dispatchN(size_t N, int K, const std::vector<Op>& ops) {
  switch (N) {
    case 1: return runCase<A, 1>(K, ops);
    case 2: return runCase<A, 2>(K, ops);
    case 4: return runCase<A, 4>(K, ops);
    case 8: return runCase<A, 8>(K, ops);
  }
  return "BADN";
}

int main() {
  std::string line;
  while (std::getline(std::cin, line)) {
    if (line.empty()) continue;
    std::istringstream is(line);
    long A, N, off, K;
    is >> A >> N >> off >> K;
    std::vector<Op> ops;
    std::string tok;
    while (is >> tok) {
      Op o;
      size_t p = 0, q;
      bool first = true;
      while (p <= tok.size()) {
        q = tok.find(',', p);
        if (q == std::string::npos) q = tok.size();
        std::string f = tok.substr(p, q - p);
        if (first) {
          o.name = f;
          first = false;
        } else {
          o.a.push_back(std::atoll(f.c_str()));
        }
        p = q + 1;
      }
      o.a.resize(o.a.size() + 8, 0);
      ops.push_back(o);
    }
    // reset the per-case state
    for (int i = 0; i < g_nblocks; ++i)
      if (g_blocks[i].live) std::free(g_blocks[i].real);
    g_nblocks = 0;
    g_nalloc = g_nfree = g_dblfree = 0;
    lsv::resetRegistry();
    g_off = static_cast<int>(off);
    g_A = static_cast<size_t>(A);
    if (K < 1 || K > 4) {
      std::printf("BADK\n");
      continue;
    }
    std::string out;
    switch (A) {
      case 8: out = dispatchN<8>(static_cast<size_t>(N), static_cast<int>(K), ops); break;
      case 16: out = dispatchN<16>(static_cast<size_t>(N), static_cast<int>(K), ops); break;
      case 32: out = dispatchN<32>(static_cast<size_t>(N), static_cast<int>(K), ops); break;
      case 64: out = dispatchN<64>(static_cast<size_t>(N), static_cast<int>(K), ops); break;
      default: out = "BADA";
    }
    std::printf("%s\n", out.c_str());
    std::fflush(stdout);
  }
  return 0;
}
