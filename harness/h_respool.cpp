// Correspondence harness for C25: drives the REAL dispenso::ResourcePool / Resource from /repo.
// A watchdog (alarm) ends a case that hangs (an acquire that blocks although a resource is free) with " HANG", a fatal
// signal ends it with " CRASH"; in both cases the harness exits with status 0 after closing the line and the driver
// restarts it on the remaining cases.
//
//   rp <size> <nhandles> <op> ...     ops:  a h      slot h = new Resource(pool.acquire())      (main thread)
//                                           b h r    a second thread acquires into slot h (all resources are held: it must
//                                                    wait); after 30 ms the harness records whether it is still waiting,
//                                                    releases slot r and joins
//                                           r h      delete slot h                                (~Resource)
//                                           c d s    slot d = new Resource(std::move(*slot s))    (move constructor)
//                                           m d s    *slot d = std::move(*slot s)                 (move assignment; d == s: self-move)
//   -> "rp | s0 s1 .. s(n-1) q [blocked] ; | ... ; | E c0 .. c(size-1) D d0 .. d(size-1) ;"
//      s_i: -2 no object, -1 empty handle (resource_ == nullptr), else the id of the resource it holds; q = size_approx();
//      at the end all handles are released, the pool is destroyed; c_i / d_i = number of constructions / destructions of resource i.
#include <algorithm>
#include <atomic>
#include <cassert>
#include <chrono>
#include <cstdint>
#include <cstdio>
#include <cstdlib>
#include <cstring>
#include <iostream>
#include <memory>
#include <mutex>
#include <sstream>
#include <string>
#include <thread>
#include <type_traits>
#include <utility>
#include <vector>
#include <csignal>
#include <fcntl.h>
#include <unistd.h>
#include <dispenso/platform.h>
#include <dispenso/tsan_annotations.h>
#include <moodycamel/blockingconcurrentqueue.h>
#define private public
#include <dispenso/resource_pool.h>
#undef private

static int g_ctor[64], g_dtor[64];

struct Res {
  int id;
  explicit Res(int i) : id(i) {
    g_ctor[i]++;
  }
  Res(Res&& o) noexcept : id(o.id) {
    o.id = -1;
  }
  Res(const Res&) = delete;
  ~Res() {
    if (id >= 0) g_dtor[id]++;
  }
};
using Pool = dispenso::ResourcePool<Res>;
using Handle = dispenso::Resource<Res>;

static void snapshot(const std::vector<std::unique_ptr<Handle>>& sl, Pool& pool) {
  for (auto& h : sl) {
    if (!h) printf(" -2");
    else if (h->resource_ == nullptr) printf(" -1");
    else printf(" %d", h->resource_->id);
  }
  printf(" %zu", pool.pool_.size_approx());
}

static void onAlarm(int) {
  const char m[] = " HANG\n";
  ssize_t r = write(1, m, sizeof(m) - 1);
  (void)r;
  _exit(0);
}
static void onFatal(int) {
  const char m[] = " CRASH\n";
  ssize_t r = write(1, m, sizeof(m) - 1);
  (void)r;
  _exit(0);
}

static void runCase(std::istringstream& in) {
  size_t size, nh;
  in >> size >> nh;
  int next = 0;
  Pool* pool = new Pool(size, [&next]() { return Res(next++); });
  std::vector<std::unique_ptr<Handle>> sl(nh);
  printf("rp");
  fflush(stdout);
  std::string op;
  while (in >> op) {
    printf(" |");
    fflush(stdout);
    if (op == "a") {
      size_t h;
      in >> h;
      sl[h].reset(new Handle(pool->acquire()));
      snapshot(sl, *pool);
    } else if (op == "b") {
      size_t h, r;
      in >> h >> r;
      std::atomic<int> started(0), done(0);
      std::thread t([&]() {
        started.store(1);
        sl[h].reset(new Handle(pool->acquire()));
        done.store(1);
      });
      while (!started.load()) std::this_thread::yield();
      std::this_thread::sleep_for(std::chrono::milliseconds(30));
      int blocked = !done.load();
      sl[r].reset();
      t.join();
      snapshot(sl, *pool);
      printf(" %d", blocked);
    } else if (op == "r") {
      size_t h;
      in >> h;
      sl[h].reset();
      snapshot(sl, *pool);
    } else if (op == "c") {
      size_t d, s;
      in >> d >> s;
      sl[d].reset(new Handle(std::move(*sl[s])));
      snapshot(sl, *pool);
    } else if (op == "m") {
      size_t d, s;
      in >> d >> s;
      Handle& dst = *sl[d];
      Handle& src = *sl[s];
      dst = std::move(src);
      snapshot(sl, *pool);
    } else {
      printf(" BADOP");
      break;
    }
    printf(" ;");
    fflush(stdout);
  }
  for (auto& h : sl) h.reset();
  delete pool;
  printf(" | E");
  for (size_t i = 0; i < size; ++i) printf(" %d", g_ctor[i]);
  printf(" D");
  for (size_t i = 0; i < size; ++i) printf(" %d", g_dtor[i]);
  printf(" ;");
  fflush(stdout);
}

// two pools of the same T:  rq <size0> <size1> <nhandles> <op> ...   ops: a p h (acquire from pool p into slot h), r h, c d s, m d s
//   -> "rq | s0 .. s(n-1) P p0 .. p(n-1) Q q0 q1 ; | ... ; | E c.. D d.. ;"   s_i as above with resource x of pool p printed as 32*p+x;
//      p_i = which pool slot i's pool_ points to (-1: no object); q_p = size_approx() of pool p; E/D: pool 0's resources first
static void runCase2(std::istringstream& in) {
  size_t size[2], nh;
  in >> size[0] >> size[1] >> nh;
  int next0 = 0, next1 = 32;
  Pool* pool[2];
  pool[0] = new Pool(size[0], [&next0]() { return Res(next0++); });
  pool[1] = new Pool(size[1], [&next1]() { return Res(next1++); });
  std::vector<std::unique_ptr<Handle>> sl(nh);
  printf("rq");
  fflush(stdout);
  std::string op;
  while (in >> op) {
    printf(" |");
    fflush(stdout);
    if (op == "a") {
      size_t p, h;
      in >> p >> h;
      sl[h].reset(new Handle(pool[p]->acquire()));
    } else if (op == "r") {
      size_t h;
      in >> h;
      sl[h].reset();
    } else if (op == "c") {
      size_t d, s;
      in >> d >> s;
      sl[d].reset(new Handle(std::move(*sl[s])));
    } else if (op == "m") {
      size_t d, s;
      in >> d >> s;
      Handle& dst = *sl[d];
      Handle& src = *sl[s];
      dst = std::move(src);
    } else {
      printf(" BADOP");
      break;
    }
    for (auto& h : sl) {
      if (!h) printf(" -2");
      else if (h->resource_ == nullptr) printf(" -1");
      else printf(" %d", h->resource_->id);
    }
    printf(" P");
    for (auto& h : sl) printf(" %d", !h ? -1 : (h->pool_ == pool[0] ? 0 : (h->pool_ == pool[1] ? 1 : 9)));
    printf(" Q %zu %zu ;", pool[0]->pool_.size_approx(), pool[1]->pool_.size_approx());
    fflush(stdout);
  }
  for (auto& h : sl) h.reset();
  delete pool[0];
  delete pool[1];
  printf(" | E");
  for (size_t p = 0; p < 2; ++p) for (size_t i = 0; i < size[p]; ++i) printf(" %d", g_ctor[32 * p + i]);
  printf(" D");
  for (size_t p = 0; p < 2; ++p) for (size_t i = 0; i < size[p]; ++i) printf(" %d", g_dtor[32 * p + i]);
  printf(" ;");
  fflush(stdout);
}

int main() {
  std::string line;
  if (!getenv("H_VERBOSE")) {  // assert() messages on stderr would be merged into the result lines
    int fd = open("/dev/null", O_WRONLY);
    if (fd >= 0) dup2(fd, 2);
  }
  signal(SIGALRM, onAlarm);
  signal(SIGSEGV, onFatal);
  signal(SIGBUS, onFatal);
  signal(SIGABRT, onFatal);
  while (std::getline(std::cin, line)) {
    if (line.empty()) continue;
    memset(g_ctor, 0, sizeof(g_ctor));
    memset(g_dtor, 0, sizeof(g_dtor));
    alarm(3);
    std::istringstream in(line);
    std::string kind;
    in >> kind;
    if (kind == "rp") runCase(in);
    else if (kind == "rq") runCase2(in);
    else printf("BAD");
    alarm(0);
    printf("\n");
    fflush(stdout);
  }
  return 0;
}
