// Correspondence harness for C42: drives the REAL dispenso::PoolAllocatorT from /repo on client histories read
// from stdin (one case per line) and prints one canonical, address-independent result line per case.
//
//   <variant> <chunkSize> <allocSize> <op> <op> ...
//        variant: 0 = NoLockPoolAllocator, 1 = PoolAllocator;  op: a = alloc(), d<i> = dealloc of the i-th
//        currently outstanding chunk (0-based, oldest first; the same indexing as Model/PoolAllocModel.v), c = clear()
//     -> "pa <nops> A <slab> <off> <ncalls> <cap> | D <ncalls> <cap> | C <ncalls> <cap> ... ; dtor <k> i0 .. ; intact <b> ; szok <b>"
//        (per alloc: index of the slab in order of allocFunc calls and byte offset of the chunk inside it; ncalls =
//         allocFunc calls so far, cap = totalChunkCapacity(); dtor = slab indices passed to deallocFunc in order;
//         intact = every handed-out chunk still held the byte pattern written over its full chunkSize when it was
//         given back / cleared / at the end; szok = allocFunc was always asked for allocSize bytes)
//   mt <threads> <chunkSize> <allocSize> <iters> <maxHeld> <seed>
//        stress of PoolAllocator: every thread does <iters> random alloc/dealloc steps holding at most <maxHeld>
//        chunks; an atomic ownership map keyed by (slab, offset) detects a chunk handed to two owners
//     -> "mt allocs <n> double <n> oob <n> misaligned <n> corrupt <n> slabs_ok <b> dtor_ok <b>"
//
// The slabs handed to the allocator are malloc'ed with slack before and behind, so that a (mutated) allocator
// that carves chunks past the end of a slab is observed (offset + chunkSize > allocSize) instead of crashing.
#include <algorithm>
#include <atomic>
#include <cstdint>
#include <cstdio>
#include <cstdlib>
#include <cstring>
#include <functional>
#include <iostream>
#include <memory>
#include <mutex>
#include <sstream>
#include <string>
#include <thread>
#include <vector>

#include <dispenso/pool_allocator.h>

namespace {

struct Slabs {
  size_t asz = 0, front = 64, tail = 64;
  std::vector<char*> raw, base;
  std::vector<int> freed;
  std::vector<long> dtorLog;
  bool szok = true;
  std::mutex mu;

  void* alloc(size_t n) {
    std::lock_guard<std::mutex> g(mu);
    if (n != asz) szok = false;
    size_t total = front + asz + tail;
    char* r = static_cast<char*>(std::malloc(total));
    std::memset(r, 0xEE, total);
    raw.push_back(r);
    base.push_back(r + front);
    freed.push_back(0);
    return r + front;
  }
  void dealloc(void* p) {
    std::lock_guard<std::mutex> g(mu);
    for (size_t i = 0; i < base.size(); ++i) {
      if (base[i] == p) {
        dtorLog.push_back(static_cast<long>(i));
        if (!freed[i]) {
          freed[i] = 1;
        }
        return;
      }
    }
    dtorLog.push_back(-1);
  }
  // slab index and offset of an address; the slack counts as part of the slab (offset may be negative or beyond allocSize)
  bool locate(const char* p, long& slab, long& off) const {
    for (size_t i = 0; i < base.size(); ++i) {
      if (p >= raw[i] && p < raw[i] + front + asz + tail) {
        slab = static_cast<long>(i);
        off = static_cast<long>(p - base[i]);
        return true;
      }
    }
    slab = -1;
    off = 0;
    return false;
  }
  bool writable(long slab, long off, size_t cs) const {
    return slab >= 0 && off >= -static_cast<long>(front) && off + static_cast<long>(cs) <= static_cast<long>(asz + tail);
  }
  void releaseAll() {
    for (char* r : raw) std::free(r);
    raw.clear();
  }
};

inline unsigned char pat(unsigned long serial, size_t k) {
  return static_cast<unsigned char>((serial * 167u + k * 13u + 7u) & 0xffu);
}

struct Held {
  char* p;
  unsigned long serial;
  bool written;
};

template <typename Alloc>
void runCase(std::istringstream& in, size_t cs, size_t asz) {
  Slabs sl;
  sl.asz = asz;
  sl.tail = 3 * asz + 4 * cs + 64;
  sl.front = cs + 64;
  std::ostringstream out;
  std::vector<Held> held;
  unsigned long serial = 0;
  bool intact = true;
  long nops = 0;
  bool bad = false;
  auto verify = [&](const Held& h) {
    if (!h.written) return;
    for (size_t k = 0; k < cs; ++k) {
      if (static_cast<unsigned char>(h.p[k]) != pat(h.serial, k)) {
        intact = false;
        return;
      }
    }
  };
  {
    Alloc pa(
        cs, asz, [&sl](size_t n) { return sl.alloc(n); }, [&sl](void* p) { sl.dealloc(p); });
    std::string tok;
    while (in >> tok) {
      if (nops) out << " |";
      ++nops;
      if (tok == "a") {
        char* p = pa.alloc();
        long slab, off;
        sl.locate(p, slab, off);
        Held h{p, ++serial, false};
        if (sl.writable(slab, off, cs)) {
          for (size_t k = 0; k < cs; ++k) p[k] = static_cast<char>(pat(h.serial, k));
          h.written = true;
        }
        held.push_back(h);
        out << " A " << slab << " " << off << " " << sl.base.size() << " " << pa.totalChunkCapacity();
      } else if (tok[0] == 'd') {
        size_t i = static_cast<size_t>(std::strtoul(tok.c_str() + 1, nullptr, 10));
        if (i >= held.size()) {
          bad = true;
          break;
        }
        verify(held[i]);
        char* p = held[i].p;
        held.erase(held.begin() + static_cast<long>(i));
        pa.dealloc(p);
        out << " D " << sl.base.size() << " " << pa.totalChunkCapacity();
      } else if (tok == "c") {
        for (const Held& h : held) verify(h);
        held.clear();
        pa.clear();
        out << " C " << sl.base.size() << " " << pa.totalChunkCapacity();
      } else {
        bad = true;
        break;
      }
    }
    for (const Held& h : held) verify(h);
  }  // destructor runs here
  if (bad) {
    std::cout << "ERR malformed case\n";
  } else {
    std::cout << "pa " << nops << out.str() << " ; dtor " << sl.dtorLog.size();
    for (long i : sl.dtorLog) std::cout << " " << i;
    std::cout << " ; intact " << (intact ? 1 : 0) << " ; szok " << (sl.szok ? 1 : 0) << "\n";
  }
  sl.releaseAll();
}

void runMt(std::istringstream& in) {
  int T;
  size_t cs, asz;
  long iters, maxHeld;
  unsigned long seed;
  in >> T >> cs >> asz >> iters >> maxHeld >> seed;
  if (!in || T < 1 || T > 16 || cs < 1 || asz < cs || maxHeld < 1) {
    std::cout << "ERR malformed case\n";
    return;
  }
  const size_t cpa = asz / cs;
  // when allocFunc is called every chunk of every slab is held (or about to be) by some thread, hence at most
  // T*maxHeld/cpa slabs exist before the call
  const size_t maxSlabs = static_cast<size_t>(T) * static_cast<size_t>(maxHeld) / cpa + 1;
  const size_t mapSlabs = maxSlabs + 8;
  Slabs sl;
  sl.asz = asz;
  sl.tail = 3 * asz + 4 * cs + 64;
  sl.front = cs + 64;
  std::vector<std::atomic<char*>> bases(mapSlabs);
  for (auto& b : bases) b.store(nullptr);
  std::atomic<size_t> nslabs{0};
  std::vector<std::atomic<int>> owner(mapSlabs * cpa);
  for (auto& o : owner) o.store(0);
  std::atomic<long> allocs{0}, dbl{0}, oob{0}, misal{0}, corrupt{0};
  {
    dispenso::PoolAllocator pa(
        cs,
        asz,
        [&](size_t n) {
          void* p = sl.alloc(n);
          size_t k = nslabs.load();
          if (k < mapSlabs) bases[k].store(static_cast<char*>(p));
          nslabs.store(k + 1);
          return p;
        },
        [&sl](void* p) { sl.dealloc(p); });
    auto body = [&](int tid) {
      uint64_t s = seed * 0x9E3779B97F4A7C15ull + static_cast<uint64_t>(tid + 1) * 0xD1B54A32D192ED03ull;
      auto rnd = [&s]() {
        s ^= s << 13;
        s ^= s >> 7;
        s ^= s << 17;
        return s;
      };
      struct H {
        char* p;
        long slot;
        unsigned long serial;
      };
      std::vector<H> held;
      unsigned long serial = static_cast<unsigned long>(tid) * 1000003ul;
      long myAllocs = 0;
      auto give = [&](size_t i) {
        H h = held[i];
        held[i] = held.back();
        held.pop_back();
        if (h.slot >= 0) {
          for (size_t k = 0; k < cs; ++k) {
            if (static_cast<unsigned char>(h.p[k]) != pat(h.serial, k)) {
              corrupt.fetch_add(1);
              break;
            }
          }
          if (owner[static_cast<size_t>(h.slot)].exchange(0) != tid + 1) dbl.fetch_add(1);
        }
        pa.dealloc(h.p);
      };
      for (long it = 0; it < iters; ++it) {
        uint64_t r = rnd();
        if (held.empty() || ((r & 1) && static_cast<long>(held.size()) < maxHeld)) {
          char* p = pa.alloc();
          ++myAllocs;
          long slot = -1;
          bool found = false;
          size_t ns = std::min(nslabs.load(), mapSlabs);
          for (size_t k = 0; k < ns; ++k) {
            char* b = bases[k].load();
            if (b && p >= b - static_cast<long>(sl.front) && p < b + asz + sl.tail) {
              long off = static_cast<long>(p - b);
              found = true;
              if (off < 0 || off + static_cast<long>(cs) > static_cast<long>(asz)) {
                oob.fetch_add(1);
              } else if (static_cast<size_t>(off) % cs != 0) {
                misal.fetch_add(1);
              } else {
                slot = static_cast<long>(k * cpa + static_cast<size_t>(off) / cs);
              }
              break;
            }
          }
          if (!found) oob.fetch_add(1);  // not inside any slab at all
          H h{p, slot, ++serial};
          if (slot >= 0) {
            if (owner[static_cast<size_t>(slot)].exchange(tid + 1) != 0) dbl.fetch_add(1);
            for (size_t k = 0; k < cs; ++k) p[k] = static_cast<char>(pat(h.serial, k));
          }
          held.push_back(h);
        } else {
          give(static_cast<size_t>((r >> 8) % held.size()));
        }
      }
      while (!held.empty()) give(held.size() - 1);
      allocs.fetch_add(myAllocs);
    };
    std::vector<std::thread> ths;
    for (int t = 0; t < T; ++t) ths.emplace_back(body, t);
    for (auto& t : ths) t.join();
  }
  bool dtorOk = sl.dtorLog.size() == sl.base.size();
  std::vector<int> seen(sl.base.size(), 0);
  for (long i : sl.dtorLog) {
    if (i < 0 || static_cast<size_t>(i) >= seen.size() || seen[static_cast<size_t>(i)]++) dtorOk = false;
  }
  bool slabsOk = sl.base.size() <= maxSlabs && sl.szok;
  std::cout << "mt allocs " << allocs.load() << " double " << dbl.load() << " oob " << oob.load() << " misaligned "
            << misal.load() << " corrupt " << corrupt.load() << " slabs_ok " << (slabsOk ? 1 : 0) << " dtor_ok "
            << (dtorOk ? 1 : 0) << "\n";
  sl.releaseAll();
}

}  // namespace

int main() {
  std::string line;
  while (std::getline(std::cin, line)) {
    if (line.empty()) continue;
    std::istringstream in(line);
    std::string first;
    in >> first;
    if (first == "mt") {
      runMt(in);
    } else {
      int variant = std::atoi(first.c_str());
      size_t cs = 0, asz = 0;
      in >> cs >> asz;
      if (!in || cs < 1 || asz < cs) {
        // outside the guarded domain the real constructor divides by zero / the refill loop runs 2^64-1 times
        std::cout << "ERR outside guarded domain\n";
      } else if (variant == 0) {
        runCase<dispenso::NoLockPoolAllocator>(in, cs, asz);
      } else {
        runCase<dispenso::PoolAllocator>(in, cs, asz);
      }
    }
    std::cout.flush();
  }
  return 0;
}
