// C10 search ladder step 5: small native multi-thread programs, one per hand-off protocol, to be built with
//   clang++ -fsanitize=thread   against /repo's CURRENT headers and sources (props/C10.py builds and runs it).
// usage: h_races <probe> [iterations]          h_races list
// A ThreadSanitizer report (exit code 66) is a concrete race witness: the replay is the command line.  Absence of a report
// proves nothing.  The payload on both sides of every hand-off is PLAIN memory, so TSan sees a race exactly when the
// happens-before edge the protocol relies on is missing from the declared orders.
// dispenso's own TSAN annotations are honoured (harness/h_races_annot.cpp forwards them to the TSan runtime) unless the
// environment variable C10_NEUTRALISE names a source file: then the annotations coming from that file are dropped, which is
// how the probes of the recorded gaps (racy-by-design / dependency-ordered / release-only hand-offs that the source hides
// from TSan with annotations) obtain their witness.
#include <atomic>
#include <chrono>
#include <cstdio>
#include <cstdlib>
#include <cstring>
#include <functional>
#include <map>
#include <string>
#include <thread>
#include <vector>

#include <dispenso/async_request.h>
#include <dispenso/chase_lev_deque.h>
#include <dispenso/completion_event.h>
#include <dispenso/concurrent_object_arena.h>
#include <dispenso/concurrent_vector.h>
#include <dispenso/future.h>
#include <dispenso/graph.h>
#include <dispenso/graph_executor.h>
#include <dispenso/latch.h>
#include <dispenso/mpmc_ring_buffer.h>
#include <dispenso/rw_lock.h>
#include <dispenso/spsc_ring_buffer.h>
#include <dispenso/task_set.h>
#include <dispenso/thread_pool.h>

namespace {

struct Payload {           // plain data, written before the hand-off and read after it
  long a[4];
  Payload() : a{0, 0, 0, 0} {}
  explicit Payload(long v) : a{v, v + 1, v + 2, v + 3} {}
  long sum() const { return a[0] + a[1] + a[2] + a[3]; }
};

long g_sink = 0;           // only written by the main thread after joins
int g_iters = 200;

void yieldSome(int k) {
  for (int i = 0; i < k; ++i) {
    std::this_thread::yield();
  }
}

// ---------------------------------------------------------------------------------------------- rings
void probe_spsc() {
  dispenso::SPSCRingBuffer<Payload, 8> ring;
  const int n = g_iters * 4;
  long got = 0;
  std::thread prod([&] {
    for (int i = 0; i < n;) {
      if (i % 3 == 0 ? ring.try_push(Payload(i)) : ring.try_emplace(static_cast<long>(i))) {
        ++i;
      } else {
        std::this_thread::yield();
      }
    }
  });
  std::thread cons([&] {
    Payload p;
    for (int i = 0; i < n;) {
      if (i % 2 == 0) {
        if (ring.try_pop(p)) { got += p.sum(); ++i; } else { std::this_thread::yield(); }
      } else {
        auto r = ring.try_pop();
        if (r) { got += r.value().sum(); ++i; } else { std::this_thread::yield(); }
      }
    }
  });
  prod.join();
  cons.join();
  g_sink += got;
}

void probe_mpmc() {
  dispenso::MpmcRingBuffer<Payload, 8> ring;
  const int n = g_iters * 2;
  std::atomic<int> popped(0);
  long got[2] = {0, 0};
  std::vector<std::thread> th;
  for (int t = 0; t < 2; ++t) {
    th.emplace_back([&, t] {
      for (int i = 0; i < n;) {
        if (ring.try_push(Payload(i + t))) { ++i; } else { std::this_thread::yield(); }
      }
    });
  }
  for (int t = 0; t < 2; ++t) {
    th.emplace_back([&, t] {
      Payload p;
      while (popped.load(std::memory_order_relaxed) < 2 * n) {
        if (ring.try_pop(p)) {
          got[t] += p.sum();
          popped.fetch_add(1, std::memory_order_relaxed);
        } else {
          std::this_thread::yield();
        }
      }
    });
  }
  for (auto& x : th) x.join();
  g_sink += got[0] + got[1];
}

// owner pushes and pops, two thieves steal; the slot accesses are suppressed by annotations in the source
void probe_chaselev() {
  dispenso::ChaseLevDeque<Payload, 8> dq;
  const int n = g_iters * 8;
  std::atomic<bool> done(false);
  long got[3] = {0, 0, 0};
  std::thread owner([&] {
    Payload p;
    for (int i = 0; i < n; ++i) {
      while (!dq.try_push(Payload(i))) {
        if (dq.try_pop(p)) got[0] += p.sum();
      }
      if (i % 5 == 0 && dq.try_pop(p)) got[0] += p.sum();
    }
    while (dq.try_pop(p)) got[0] += p.sum();
    done.store(true, std::memory_order_relaxed);
  });
  std::vector<std::thread> th;
  for (int t = 1; t <= 2; ++t) {
    th.emplace_back([&, t] {
      Payload p;
      while (!done.load(std::memory_order_relaxed)) {
        if (dq.try_steal(p)) got[t] += p.sum();
      }
    });
  }
  owner.join();
  for (auto& x : th) x.join();
  g_sink += got[0] + got[1] + got[2];
}

// ---------------------------------------------------------------------------------------------- event / latch
void probe_event() {
  for (int it = 0; it < g_iters; ++it) {
    dispenso::CompletionEvent ev;
    Payload data;
    long got[2] = {0, 0};
    std::thread w0([&] { ev.wait(); got[0] = data.sum(); });
    std::thread w1([&] {
      while (!ev.waitFor(std::chrono::microseconds(50))) {}
      got[1] = data.sum();
    });
    std::thread n([&] { data = Payload(it); ev.notify(); });
    n.join(); w0.join(); w1.join();
    g_sink += got[0] + got[1];
  }
}

void probe_latch() {
  for (int it = 0; it < g_iters; ++it) {
    dispenso::Latch latch(3);
    Payload data[3];
    long got[3] = {0, 0, 0};
    std::vector<std::thread> th;
    for (int t = 0; t < 2; ++t) {
      th.emplace_back([&, t] { data[t] = Payload(it + t); latch.count_down(); });
    }
    th.emplace_back([&] { data[2] = Payload(it); latch.arrive_and_wait(); got[2] = data[0].sum() + data[1].sum(); });
    th.emplace_back([&] { latch.wait(); got[0] = data[0].sum() + data[1].sum() + data[2].sum(); });
    th.emplace_back([&] { while (!latch.try_wait()) std::this_thread::yield(); got[1] = data[2].sum(); });
    for (auto& x : th) x.join();
    g_sink += got[0] + got[1] + got[2];
  }
}

// ---------------------------------------------------------------------------------------------- futures
// result publication: the functor runs on a new thread; two holders of copies wait and read the result
void probe_future() {
  for (int it = 0; it < g_iters; ++it) {
    dispenso::Future<std::vector<long>> f([it]() { return std::vector<long>{it, it + 1L, it + 2L}; }, dispenso::kNewThreadInvoker);
    long got[2] = {0, 0};
    dispenso::Future<std::vector<long>> c0 = f, c1 = f;
    std::thread r0([&] { got[0] = c0.get()[1]; });
    std::thread r1([&] { while (!c1.is_ready()) std::this_thread::yield(); got[1] = c1.get()[2]; });
    r0.join(); r1.join();
    g_sink += got[0] + got[1] + f.get()[0];
  }
}

// reference count: every holder reads the shared result and drops its reference; whoever drops the last one destroys the
// result (std::vector: frees its storage) -- ordered after the other holders' reads only if the last decrement acquires
void probe_future_refcount() {
  for (int it = 0; it < g_iters; ++it) {
    auto* f = new dispenso::Future<std::vector<long>>(dispenso::make_ready_future(std::vector<long>{it, it + 1L, it + 2L, it + 3L}));
    auto* c0 = new dispenso::Future<std::vector<long>>(*f);
    auto* c1 = new dispenso::Future<std::vector<long>>(*f);
    delete f;
    long got[2] = {0, 0};
    std::thread r0([&] { got[0] = c0->get()[1]; yieldSome(it % 3); delete c0; });
    std::thread r1([&] { got[1] = c1->get()[2]; yieldSome((it + 1) % 3); delete c1; });
    r0.join(); r1.join();
    g_sink += got[0] + got[1];
  }
}

// then-chain: two threads attach continuations while a third completes the future; the links are plain memory
void probe_then_chain() {
  for (int it = 0; it < g_iters; ++it) {
    dispenso::CompletionEvent go;
    dispenso::Future<long> f([&go, it]() { go.wait(); return static_cast<long>(it); }, dispenso::kNewThreadInvoker);
    long got[2] = {0, 0};
    dispenso::Future<long> c0 = f, c1 = f;
    std::thread a0([&] {
      auto g = c0.then([](dispenso::Future<long>&& x) { return x.get() + 1; }, dispenso::kImmediateInvoker);
      got[0] = g.get();
    });
    std::thread a1([&] {
      yieldSome(it % 4);
      auto g = c1.then([](dispenso::Future<long>&& x) { return x.get() + 2; }, dispenso::kImmediateInvoker);
      got[1] = g.get();
    });
    yieldSome(it % 5);
    go.notify();
    a0.join(); a1.join();
    g_sink += got[0] + got[1] + f.get();
  }
}

void probe_when_all() {
  for (int it = 0; it < g_iters / 2 + 1; ++it) {
    dispenso::Future<long> a([it]() { return static_cast<long>(it); }, dispenso::kNewThreadInvoker);
    dispenso::Future<long> b([it]() { return static_cast<long>(it + 1); }, dispenso::kNewThreadInvoker);
    auto all = dispenso::when_all(a, b);
    auto& tup = all.get();
    g_sink += std::get<0>(tup).get() + std::get<1>(tup).get();
  }
}

// ---------------------------------------------------------------------------------------------- AsyncRequest
void probe_async_request() {
  dispenso::AsyncRequest<Payload> req;
  const int n = g_iters;
  std::atomic<bool> done(false);
  long got = 0;
  std::thread requester([&] {
    for (int i = 0; i < n; ++i) {
      req.requestUpdate();
      for (;;) {
        auto r = req.getUpdate();
        if (r) { got += r.value().sum(); break; }
        std::this_thread::yield();
      }
    }
    done.store(true, std::memory_order_relaxed);
  });
  std::thread updater([&] {
    long k = 0;
    while (!done.load(std::memory_order_relaxed)) {
      if (req.updateRequested()) { req.tryEmplaceUpdate(++k); } else { std::this_thread::yield(); }
    }
  });
  requester.join(); updater.join();
  g_sink += got;
}

// ---------------------------------------------------------------------------------------------- containers
void probe_cvec() {
  for (int it = 0; it < g_iters / 20 + 1; ++it) {
    dispenso::ConcurrentVector<Payload> v;
    long got[3] = {0, 0, 0};
    std::vector<std::thread> th;
    for (int t = 0; t < 3; ++t) {
      th.emplace_back([&, t] {
        for (int i = 0; i < 150; ++i) {
          auto itr = (i % 7 == 0) ? v.grow_by(3, Payload(i)) : v.push_back(Payload(i + t));
          got[t] += itr->sum();
        }
      });
    }
    for (auto& x : th) x.join();
    for (auto& p : v) g_sink += p.a[0];
    g_sink += got[0] + got[1] + got[2];
  }
}

void probe_arena() {
  for (int it = 0; it < g_iters / 20 + 1; ++it) {
    dispenso::ConcurrentObjectArena<Payload> arena(16);
    long got[3] = {0, 0, 0};
    std::vector<std::thread> th;
    for (int t = 0; t < 3; ++t) {
      th.emplace_back([&, t] {
        for (int i = 0; i < 60; ++i) {
          size_t idx = arena.grow_by(1 + (i % 3));
          arena[idx] = Payload(i + t);
          got[t] += arena[idx].sum();
        }
      });
    }
    for (auto& x : th) x.join();
    g_sink += got[0] + got[1] + got[2] + static_cast<long>(arena.size());
  }
}

void probe_rwlock() {
  dispenso::RWLock mtx;
  Payload shared(1);
  const int n = g_iters * 2;
  long got[4] = {0, 0, 0, 0};
  std::vector<std::thread> th;
  for (int t = 0; t < 2; ++t) {
    th.emplace_back([&, t] {
      for (int i = 0; i < n; ++i) {
        if (i % 4 == 3) {
          if (mtx.try_lock()) { shared = Payload(i + t); mtx.unlock(); }
        } else {
          mtx.lock(); shared = Payload(i + t); mtx.unlock();
        }
      }
    });
  }
  for (int t = 2; t < 4; ++t) {
    th.emplace_back([&, t] {
      for (int i = 0; i < n; ++i) {
        if (i % 5 == 4) {
          if (mtx.try_lock_shared()) { got[t] += shared.sum(); mtx.unlock_shared(); }
        } else {
          mtx.lock_shared(); got[t] += shared.sum(); mtx.unlock_shared();
        }
      }
    });
  }
  for (auto& x : th) x.join();
  g_sink += got[2] + got[3];
}

// ---------------------------------------------------------------------------------------------- task sets / graph / pool
// "results are visible after wait()": tasks write plain slots, the caller reads them after wait()
void probe_taskset() {
  dispenso::ThreadPool pool(3);
  for (int it = 0; it < g_iters / 4 + 1; ++it) {
    Payload out[16];
    {
      dispenso::TaskSet ts(pool);
      for (int i = 0; i < 16; ++i) ts.schedule([&out, i, it] { out[i] = Payload(i + it); });
      ts.wait();
      for (int i = 0; i < 16; ++i) g_sink += out[i].sum();
    }
    {
      dispenso::ConcurrentTaskSet cts(pool);
      std::thread other([&] { for (int i = 0; i < 8; ++i) cts.schedule([&out, i] { out[i].a[1] = i; }, dispenso::ForceQueuingTag()); });
      for (int i = 8; i < 16; ++i) cts.schedule([&out, i] { out[i].a[1] = i; });
      other.join();
      cts.wait();
      for (int i = 0; i < 16; ++i) g_sink += out[i].a[1];
    }
  }
}

// task-set counter through Future's taskSetCounter_ (dispenso::async on a task set)
void probe_taskset_future() {
  dispenso::ThreadPool pool(2);
  for (int it = 0; it < g_iters / 4 + 1; ++it) {
    Payload out[4];
    dispenso::ConcurrentTaskSet cts(pool);
    std::vector<dispenso::Future<void>> fs;
    for (int i = 0; i < 4; ++i) fs.push_back(dispenso::async(cts, [&out, i, it] { out[i] = Payload(i + it); }));
    cts.wait();
    for (int i = 0; i < 4; ++i) g_sink += out[i].sum();
  }
}

void probe_ts_exception() {
  dispenso::ThreadPool pool(3);
  for (int it = 0; it < g_iters / 8 + 1; ++it) {
    dispenso::ConcurrentTaskSet cts(pool);
    for (int i = 0; i < 6; ++i) cts.schedule([i] { if (i % 2) throw std::string("boom-boom-boom-boom-boom-boom-") + std::to_string(i); }, dispenso::ForceQueuingTag());
    try { cts.wait(); } catch (const std::string& s) { g_sink += static_cast<long>(s.size()); }
  }
}

void run_graph(bool fresh) {
  dispenso::ThreadPool pool(3);
  for (int it = 0; it < g_iters / 4 + 1; ++it) {
    long r[6] = {0, 0, 0, 0, 0, 0};
    dispenso::Graph g;
    dispenso::Node& n0 = g.addNode([&] { r[0] = it + 1; });
    dispenso::Node& n1 = g.addNode([&] { r[1] = it + 2; });
    dispenso::Node& n2 = g.addNode([&] { r[2] = r[0] * 2; });
    dispenso::Node& n3 = g.addNode([&] { r[3] = r[1] * 3; });
    dispenso::Node& n4 = g.addNode([&] { r[4] = r[2] + r[3] + r[0]; });
    dispenso::Node& n5 = g.addNode([&] { r[5] = r[4] + r[1]; });
    n2.dependsOn(n0); n3.dependsOn(n1); n4.dependsOn(n2, n3, n0); n5.dependsOn(n4, n1);
    if (!fresh) {
      setAllNodesIncomplete(g);   // (found by ADL) without this the executors ignore the dependencies (known finding of C30)
    }
    dispenso::ConcurrentTaskSet cts(pool);
    dispenso::ConcurrentTaskSetExecutor exec;
    exec(cts, g);
    g_sink += r[5];
  }
}

void probe_graph() { run_graph(false); }
// the first documented example of graph.h: a freshly built graph executed directly
void probe_graph_fresh() { run_graph(true); }

// pool resized while an external thread keeps scheduling: exercises numRings_ / wakeState_ publication
void probe_pool_resize() {
  dispenso::ThreadPool pool(2);
  std::atomic<bool> done(false);
  std::atomic<long> ran(0);
  std::thread ext([&] {
    while (!done.load(std::memory_order_relaxed)) {
      pool.schedule([&ran] { ran.fetch_add(1, std::memory_order_relaxed); }, dispenso::ForceQueuingTag());
      std::this_thread::yield();
    }
  });
  for (int it = 0; it < g_iters / 20 + 2; ++it) {
    pool.resize(2 + (it % 3));
    yieldSome(20);
  }
  done.store(true, std::memory_order_relaxed);
  ext.join();
  g_sink += ran.load();
}

// lock_upgrade / lock_downgrade: the contract allows only ONE thread to try to lock for write concurrently, so a single
// upgrading reader and two plain readers
void probe_rwlock_upgrade() {
  dispenso::RWLock mtx;
  Payload shared(1);
  const int n = g_iters * 2;
  long got[3] = {0, 0, 0};
  std::vector<std::thread> th;
  th.emplace_back([&] {
    for (int i = 0; i < n; ++i) {
      mtx.lock_shared(); got[0] += shared.a[0]; mtx.lock_upgrade(); shared = Payload(i); mtx.lock_downgrade(); got[0] += shared.a[3]; mtx.unlock_shared();
    }
  });
  for (int t = 1; t < 3; ++t) {
    th.emplace_back([&, t] {
      for (int i = 0; i < n; ++i) {
        mtx.lock_shared(); got[t] += shared.sum(); mtx.unlock_shared();
      }
    });
  }
  for (auto& x : th) x.join();
  g_sink += got[0] + got[1] + got[2];
}

const std::map<std::string, std::function<void()>>& probes() {
  static const std::map<std::string, std::function<void()>> m = {
      {"spsc", probe_spsc}, {"mpmc", probe_mpmc}, {"chaselev", probe_chaselev}, {"event", probe_event}, {"latch", probe_latch},
      {"future", probe_future}, {"future_refcount", probe_future_refcount}, {"then_chain", probe_then_chain},
      {"when_all", probe_when_all}, {"async_request", probe_async_request}, {"cvec", probe_cvec}, {"arena", probe_arena},
      {"rwlock", probe_rwlock}, {"rwlock_upgrade", probe_rwlock_upgrade}, {"taskset", probe_taskset}, {"taskset_future", probe_taskset_future},
      {"ts_exception", probe_ts_exception}, {"graph", probe_graph}, {"graph_fresh", probe_graph_fresh}, {"pool_resize", probe_pool_resize}};
  return m;
}

} // namespace

int main(int argc, char** argv) {
  if (argc < 2 || !std::strcmp(argv[1], "list")) {
    for (auto& kv : probes()) std::printf("%s\n", kv.first.c_str());
    return 0;
  }
  if (argc > 2) g_iters = std::atoi(argv[2]);
  auto it = probes().find(argv[1]);
  if (it == probes().end()) {
    std::fprintf(stderr, "unknown probe %s\n", argv[1]);
    return 2;
  }
  it->second();
  std::printf("done %s iters=%d sink=%ld\n", argv[1], g_iters, g_sink);
  return 0;
}
