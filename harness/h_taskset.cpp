// Harness for the task-set layer (C02, C04, C05, C47): TaskSet / ConcurrentTaskSet on the REAL code from /repo.
// One case per line, one fork per case.
//
// L (lockstep under vsched.h, full schedule control; the pool owns no OS threads, enrolled harness threads play workers):
//   L <budget> ; P <numThreads> <poolLoadFactor> <workRemaining> <prlf2> ; S <conc> <heavy> <mult> <parent|-1> <cancel0> ; ... ;
//     T <isPoolThread> <inlineDepth0> : <ops> ; ... ; X <schedule ints>
//   ops:  s <set> <force> <skipRecheck> [ <ops> ]   schedule      b <set> <force> <n> [ <ops> ]   scheduleBulk
//         w <set>  wait     y <set> <m>  tryWait(m)     c <set>  cancel     k  pool.tryExecuteNext()     t  throw
//   prlf2 = 2 * poolRecursiveLoadFactor (3 = the default 1.5).  Sets are built before the run (children registered with
//   their parent through the thread-local task-set stack), cancel0 sets are cancelled before the run.
//   Output: steps t:site@set ... | results t:tag=(arg*1000+stamp) ... | blocked | sets out:canc:guard ... wr W q Q | status S
// D (decisions of the real code under forced load, real pool threads):
//   D <cls> <force> <skip> <nthr> <blockers> <preOut> <canceled> <recursive> <depth> <prlf2> <mult> <bulk n> <casc>
//   casc: 0 the set stands alone and is cancelled directly; 1 the set is a ParentCascadeCancel::kOn child and <canceled> means parent.cancel();
//         2 as 1, but a task of the parent has thrown before (the parent's canceled_ is already set through the exception path, which does not cascade)
//   cls: 0 TaskSet, 1 ConcurrentTaskSet(kLightweight), 2 ConcurrentTaskSet(kHeavy), 3 ThreadPool
//   Output: D out=<outstanding before the call> wr=.. n=.. plf=.. lf=.. canc=.. | incall=<functors run on the caller during the call>
//             fout=<outstanding seen by the first such functor - out, or 9> aout=<outstanding after the call - out> ran=<functors run in total> other=<functors run on the caller thread during the call: same as incall>
#include <atomic>
#include <cerrno>
#include <chrono>
#include <climits>
#include <condition_variable>
#include <cstring>
#include <functional>
#include <mutex>
#include <cstdio>
#include <cstdlib>
#include <iostream>
#include <map>
#include <sstream>
#include <string>
#include <thread>
#include <vector>
#include <sys/wait.h>
#include <unistd.h>
#define private public
#define protected public
#include <dispenso/task_set.h>
#include <dispenso/thread_pool.h>
#undef private
#undef protected
#define private public
#define dispenso_verif_point vs_plain_point
#define dispenso_verif_futex vs_plain_futex
#include "vsched.h"
#undef dispenso_verif_point
#undef dispenso_verif_futex
#undef private

// ------------------------------------------------------------------------------------------------ point filter
static std::map<const void*, int> g_setIndex;

extern "C" void dispenso_verif_point(const char* site, const void* addr) {
  if (!vs::g_sched || vs::t_self < 0) return;
  if (strncmp(site, "ts.", 3) != 0 && strncmp(site, "tsk.", 4) != 0 && strncmp(site, "cts.", 4) != 0) return;   // other components run atomically
  auto it = g_setIndex.find(addr);
  std::string s = std::string(site) + "@" + std::to_string(it == g_setIndex.end() ? 0 : it->second);
  vs::g_sched->point(s.c_str(), addr);
}
extern "C" int dispenso_verif_futex(int*, int, int, const struct timespec*, int*) { return 0; }

// ------------------------------------------------------------------------------------------------ programs
struct Op {
  char k;
  long a = 0, b = 0, c = 0;
  std::vector<Op> body;
};
struct VExc {
  long id;
};

static std::vector<Op> parseOps(std::istringstream& in) {
  std::vector<Op> v;
  std::string tok;
  while (in >> tok) {
    if (tok == "]") break;
    Op o;
    o.k = tok[0];
    switch (o.k) {
      case 's':
      case 'b': {
        in >> o.a >> o.b >> o.c;
        std::string br;
        in >> br;   // "["
        o.body = parseOps(in);
        break;
      }
      case 'w':
      case 'c': in >> o.a; break;
      case 'y': in >> o.a >> o.b; break;
      default: break;
    }
    v.push_back(o);
  }
  return v;
}

struct LCtx {
  vs::Sched* S;
  dispenso::ThreadPool* pool;
  std::vector<dispenso::TaskSetBase*> base;
  std::vector<dispenso::TaskSet*> ts;
  std::vector<dispenso::ConcurrentTaskSet*> cts;
  long nextId = 1;
  long stamp() const { return static_cast<long>(S->steps_.size()); }
  void log(const char* tag, long a) { S->result(tag, a * 1000 + stamp()); }
};
static LCtx* g_l = nullptr;

static void runOps(const std::vector<Op>& ops, bool top);

struct Fn {
  long id;
  const std::vector<Op>* body;
  struct Guard {
    long id;
    ~Guard() { g_l->log(std::uncaught_exception() ? "ee" : "e", id); }
  };
  void operator()() const {
    g_l->log("b", id);
    Guard g{id};
    runOps(*body, false);
  }
};

static void runOp(const Op& o) {
  LCtx& L = *g_l;
  switch (o.k) {
    case 's': {
      long id = L.nextId++;
      Fn f{id, &o.body};
      size_t s = static_cast<size_t>(o.a);
      if (L.ts[s]) {
        if (o.b) L.ts[s]->schedule(f, dispenso::ForceQueuingTag()); else L.ts[s]->schedule(f);
      } else {
        if (o.b) L.cts[s]->schedule(f, dispenso::ForceQueuingTag()); else L.cts[s]->schedule(f, o.c != 0);
      }
      L.log(o.b ? "sf" : "s", id * 64 + o.a);
      break;
    }
    case 'b': {
      long basei = L.nextId;
      L.nextId += o.c;
      const std::vector<Op>* body = &o.body;
      auto gen = [basei, body](size_t i) { return Fn{basei + static_cast<long>(i), body}; };
      size_t s = static_cast<size_t>(o.a);
      if (L.ts[s]) {
        if (o.b) L.ts[s]->scheduleBulk(static_cast<size_t>(o.c), gen, dispenso::ForceQueuingTag()); else L.ts[s]->scheduleBulk(static_cast<size_t>(o.c), gen);
      } else {
        if (o.b) L.cts[s]->scheduleBulk(static_cast<size_t>(o.c), gen, dispenso::ForceQueuingTag()); else L.cts[s]->scheduleBulk(static_cast<size_t>(o.c), gen);
      }
      L.log(o.b ? "bf" : "bs", (basei * 64 + o.a) * 64 + o.c);
      break;
    }
    case 'w': {
      size_t s = static_cast<size_t>(o.a);
      L.log("wc", o.a);
      try {
        bool r = L.ts[s] ? L.ts[s]->wait() : L.cts[s]->wait();
        L.log("w", (r ? 1 : 0) * 64 + o.a);
      } catch (VExc& e) {
        L.log("rt", e.id * 64 + o.a);
        throw;
      }
      break;
    }
    case 'y': {
      size_t s = static_cast<size_t>(o.a);
      L.log("wc", o.a);
      try {
        bool r = L.ts[s] ? L.ts[s]->tryWait(static_cast<size_t>(o.b)) : L.cts[s]->tryWait(static_cast<size_t>(o.b));
        L.log("tw", (r ? 1 : 0) * 64 + o.a);
      } catch (VExc& e) {
        L.log("rt", e.id * 64 + o.a);
        throw;
      }
      break;
    }
    case 'c': {
      size_t s = static_cast<size_t>(o.a);
      if (L.ts[s]) L.ts[s]->cancel(); else L.cts[s]->cancel();
      L.log("c", o.a);
      break;
    }
    case 'k': {
      L.S->point("ts.h.worker@0", nullptr);
      bool r = L.pool->tryExecuteNext();
      L.log("wk", r ? 1 : 0);
      break;
    }
    case 't': {
      long id = L.nextId++;
      L.log("x", id);
      throw VExc{id};
    }
    default: break;
  }
}

static void runOps(const std::vector<Op>& ops, bool top) {
  for (const Op& o : ops) {
    if (top) {
      try {
        runOp(o);
      } catch (VExc& e) {
        g_l->log("u", e.id);
      }
    } else {
      runOp(o);
    }
  }
}

static void lockstep(const std::vector<std::string>& parts) {
  std::istringstream hd(parts[0]);
  std::string mode;
  long budget;
  hd >> mode >> budget;
  long nthr = 1, plf = 32, wr = 0, prlf2 = 3;
  struct SetSpec { int conc, heavy; long mult; int parent, canc0; };
  std::vector<SetSpec> sets;
  struct ThrSpec { int isPool; int dep0; std::vector<Op> ops; };
  std::vector<ThrSpec> thrs;
  std::vector<long> sched;
  for (size_t i = 1; i < parts.size(); ++i) {
    std::istringstream ps(parts[i]);
    std::string first;
    ps >> first;
    if (first == "P") {
      ps >> nthr >> plf >> wr >> prlf2;
    } else if (first == "S") {
      SetSpec s;
      ps >> s.conc >> s.heavy >> s.mult >> s.parent >> s.canc0;
      sets.push_back(s);
    } else if (first == "T") {
      ThrSpec t;
      std::string colon;
      ps >> t.isPool >> t.dep0 >> colon;
      t.ops = parseOps(ps);
      thrs.push_back(std::move(t));
    } else if (first == "X") {
      long x;
      while (ps >> x) sched.push_back(x);
    }
  }
  if (prlf2 != 3) {
    printf("ERROR only the default poolRecursiveLoadFactor is reachable through the public scheduling API\n");
    return;
  }
  auto* pool = new dispenso::ThreadPool(0);
  pool->numThreads_.store(nthr);
  pool->poolLoadFactor_.store(plf);
  pool->workRemaining_.store(wr);
  static LCtx L;
  g_l = &L;
  L.pool = pool;
  for (size_t i = 0; i < sets.size(); ++i) {
    const SetSpec& s = sets[i];
    bool pushed = false;
    if (s.parent >= 0) {
      dispenso::detail::pushThreadTaskSet(L.base[static_cast<size_t>(s.parent)]);
      pushed = true;
    }
    auto cascade = s.parent >= 0 ? dispenso::ParentCascadeCancel::kOn : dispenso::ParentCascadeCancel::kOff;
    if (s.conc) {
      auto* c = new dispenso::ConcurrentTaskSet(*pool, cascade, s.mult, s.heavy ? dispenso::TaskCost::kHeavy : dispenso::TaskCost::kLightweight);
      L.cts.push_back(c);
      L.ts.push_back(nullptr);
      L.base.push_back(c);
      g_setIndex[static_cast<const void*>(c)] = static_cast<int>(i);
      g_setIndex[static_cast<const void*>(static_cast<dispenso::TaskSetBase*>(c))] = static_cast<int>(i);
    } else {
      auto* t = new dispenso::TaskSet(*pool, cascade, s.mult);
      L.ts.push_back(t);
      L.cts.push_back(nullptr);
      L.base.push_back(t);
      g_setIndex[static_cast<const void*>(t)] = static_cast<int>(i);
      g_setIndex[static_cast<const void*>(static_cast<dispenso::TaskSetBase*>(t))] = static_cast<int>(i);
    }
    if (pushed) dispenso::detail::popThreadTaskSet();
  }
  for (size_t i = 0; i < sets.size(); ++i)
    if (sets[i].canc0) L.base[i]->cancel();
  vs::Sched S(sched, budget, false);
  L.S = &S;
  for (size_t t = 0; t < thrs.size(); ++t) {
    S.spawn([&thrs, t, pool]() {
      if (thrs[t].isPool) dispenso::detail::PerPoolPerThreadInfo::registerPool(pool, nullptr);
      dispenso::detail::PerPoolPerThreadInfo::inlineDepth() = thrs[t].dep0;
      runOps(thrs[t].ops, true);
    });
  }
  S.run();
  std::ostringstream ex;
  ex << "sets";
  for (size_t i = 0; i < sets.size(); ++i)
    ex << " " << L.base[i]->outstandingTaskCount_.load() << ":" << (L.base[i]->canceled_.load() ? 1 : 0) << ":" << static_cast<int>(L.base[i]->guardException_.load());
  ex << " wr " << pool->workRemaining_.load() << " q " << pool->work_.size_approx();
  S.print(ex.str());
}

// ------------------------------------------------------------------------------------------------ D mode
struct DState {
  std::atomic<bool> release{false};
  std::atomic<int> blockersStarted{0};
  std::atomic<bool> inCall{false};
  std::thread::id caller;
  std::atomic<int> ranInCall{0}, ranTotal{0};
  std::atomic<long> firstOut{-1000000};
  dispenso::TaskSetBase* base = nullptr;
};

static void decision(const std::vector<std::string>& parts) {
  std::istringstream hd(parts[0]);
  std::string mode;
  int cls, force, skip, nthr, blockers, preOut, canceled, recursive, depth, prlf2, mult, bulk, casc = 0;
  hd >> mode >> cls >> force >> skip >> nthr >> blockers >> preOut >> canceled >> recursive >> depth >> prlf2 >> mult >> bulk >> casc;
  static DState D;
  dispenso::ThreadPool pool(static_cast<size_t>(nthr));
  std::atomic<bool> callerGo{false}, callerDone{false};
  dispenso::TaskSet* ts = nullptr;
  dispenso::ConcurrentTaskSet* cts = nullptr;
  dispenso::ConcurrentTaskSet* parent = nullptr;
  auto cascade = dispenso::ParentCascadeCancel::kOff;
  if (casc && cls != 3) {
    parent = new dispenso::ConcurrentTaskSet(pool, dispenso::ParentCascadeCancel::kOff, mult, dispenso::TaskCost::kLightweight);
    dispenso::detail::pushThreadTaskSet(parent);
    cascade = dispenso::ParentCascadeCancel::kOn;
  }
  if (cls == 0) ts = new dispenso::TaskSet(pool, cascade, mult);
  if (cls == 1) cts = new dispenso::ConcurrentTaskSet(pool, cascade, mult, dispenso::TaskCost::kLightweight);
  if (cls == 2) cts = new dispenso::ConcurrentTaskSet(pool, cascade, mult, dispenso::TaskCost::kHeavy);
  if (parent) dispenso::detail::popThreadTaskSet();
  if (parent && casc == 2) {
    // a task of the parent throws and completes: the parent is cancelled through the exception path
    parent->schedule([]() { throw 1; }, dispenso::ForceQueuingTag());
    try {
      parent->wait();
    } catch (...) {
    }
  }
  D.base = ts ? static_cast<dispenso::TaskSetBase*>(ts) : static_cast<dispenso::TaskSetBase*>(cts);
  long out0 = 0, wr0 = 0, n0 = 0, plf0 = 0, lf0 = 0;
  int canc0 = 0;
  auto fn = []() {
    if (D.inCall.load() && std::this_thread::get_id() == D.caller) {
      if (D.ranInCall.fetch_add(1) == 0 && D.base) D.firstOut.store(D.base->outstandingTaskCount_.load());
    }
    D.ranTotal.fetch_add(1);
  };
  long aout = 0;
  auto theCall = [&]() {
    dispenso::detail::PerPoolPerThreadInfo::inlineDepth() = depth;
    if (D.base) {
      out0 = D.base->outstandingTaskCount_.load();
      lf0 = D.base->taskSetLoadFactor_;
      canc0 = D.base->canceled_.load() ? 1 : 0;
    }
    wr0 = pool.workRemaining_.load();
    n0 = pool.numThreads_.load();
    plf0 = pool.poolLoadFactor_.load();
    D.caller = std::this_thread::get_id();
    D.inCall.store(true);
    float lf = static_cast<float>(prlf2) / 2.0f;
    auto gen = [&fn](size_t) { return fn; };
    if (cls == 0) {
      if (bulk) { if (force) ts->scheduleBulk(static_cast<size_t>(bulk), gen, dispenso::ForceQueuingTag()); else ts->scheduleBulk(static_cast<size_t>(bulk), gen); }
      else if (force) ts->schedule(fn, dispenso::ForceQueuingTag()); else ts->schedule(fn);
    } else if (cls == 1 || cls == 2) {
      if (bulk) { if (force) cts->scheduleBulk(static_cast<size_t>(bulk), gen, dispenso::ForceQueuingTag()); else cts->scheduleBulk(static_cast<size_t>(bulk), gen); }
      else if (force) cts->schedule(fn, dispenso::ForceQueuingTag()); else cts->schedule(fn, skip != 0, lf);
    } else {
      if (force) pool.schedule(fn, dispenso::ForceQueuingTag()); else pool.schedule(fn);
    }
    D.inCall.store(false);
    if (D.base) aout = D.base->outstandingTaskCount_.load();
    dispenso::detail::PerPoolPerThreadInfo::inlineDepth() = 0;
  };
  int callerOnPool = recursive && nthr > 0;
  if (callerOnPool) {
    pool.schedule([&]() {
      while (!callerGo.load()) std::this_thread::sleep_for(std::chrono::microseconds(50));
      theCall();
      callerDone.store(true);
      while (!D.release.load()) std::this_thread::sleep_for(std::chrono::microseconds(50));
    }, dispenso::ForceQueuingTag());
  }
  for (int i = 0; i < blockers; ++i) {
    pool.schedule([]() {
      D.blockersStarted.fetch_add(1);
      while (!D.release.load()) std::this_thread::sleep_for(std::chrono::microseconds(50));
    }, dispenso::ForceQueuingTag());
  }
  // let the pool settle: as many blockers running as there are free threads
  int freeThreads = nthr - (callerOnPool ? 1 : 0);
  int want = blockers < freeThreads ? blockers : freeThreads;
  for (int spin = 0; spin < 40000 && D.blockersStarted.load() < want; ++spin) std::this_thread::sleep_for(std::chrono::microseconds(50));
  for (int i = 0; i < preOut && D.base; ++i) {
    if (ts) ts->schedule([]() {}, dispenso::ForceQueuingTag()); else cts->schedule([]() {}, dispenso::ForceQueuingTag());
  }
  std::this_thread::sleep_for(std::chrono::milliseconds(3));
  if (canceled && D.base) {
    if (parent) parent->cancel(); else D.base->cancel();
  }
  if (callerOnPool) {
    callerGo.store(true);
    for (int spin = 0; spin < 100000 && !callerDone.load(); ++spin) std::this_thread::sleep_for(std::chrono::microseconds(50));
  } else {
    theCall();
  }
  int incall = D.ranInCall.load();
  D.release.store(true);
  if (ts) ts->wait();
  if (cts) cts->wait();
  if (!D.base) {
    for (int spin = 0; spin < 20000 && pool.workRemaining_.load() > 0 && D.ranTotal.load() == 0; ++spin) std::this_thread::sleep_for(std::chrono::microseconds(50));
    std::this_thread::sleep_for(std::chrono::milliseconds(2));
  }
  long fout = D.firstOut.load() == -1000000 ? 9 : D.firstOut.load() - out0;
  printf("D out=%ld wr=%ld n=%ld plf=%ld lf=%ld canc=%d | incall=%d fout=%ld aout=%ld ran=%d api=%d\n", out0, wr0, n0, plf0, lf0, D.base ? canc0 : 0, incall, fout,
         aout - out0, D.ranTotal.load(), (canceled && D.base) ? 1 : 0);
  fflush(stdout);
  delete ts;
  delete cts;
  delete parent;
}

int main() {
  std::string line;
  while (std::getline(std::cin, line)) {
    if (line.empty()) continue;
    fflush(stdout);
    pid_t pid = fork();
    if (pid == 0) {
      alarm(30);
      std::vector<std::string> parts;
      std::stringstream ss(line);
      std::string part;
      while (std::getline(ss, part, ';')) parts.push_back(part);
      if (line[0] == 'L') lockstep(parts); else decision(parts);
      fflush(stdout);
      _exit(0);
    }
    int st = 0;
    waitpid(pid, &st, 0);
    if (!WIFEXITED(st) || WEXITSTATUS(st) != 0) {
      printf("CRASH status %d\n", st);
      fflush(stdout);
    }
  }
  return 0;
}
