// Correspondence harness for C32: drives the REAL dispenso::ConcurrentVector<life::L<Align,0>, Traits> from /repo
// and std::vector<life::L<4,1>> through the same single-threaded operation sequence.
//
// One case per input line:   <ts> <nops> <op> <op> ...        (blank separated tokens)
//   ts   = trait set (see kTraitSets below: element size picks the first bucket length, Traits picks buffer
//          placement / iterator kind / reallocation strategy)
//   op   = <sel> <name> <args...>;   sel 0: self = vector A, other = B;  sel 1: self = B, other = A
//     push t | pushm t | emplace t | growby n | growbyv n t | growbyr k t1..tk | growbyg n t0 | gtal n | gtalv n t |
//     pop | resize n | resizev n t | clear | erase i | eraser i j | insert i t | insertm i t | insertn i n t |
//     insertr i k t1..tk | assignn n t | assignr k t1..tk | reserve n | shrink | swap | copyas | moveas | selfas |
//     rc_default | rc_reserve n | rc_sized n | rc_sizedv n t | rc_range k t1..tk | rc_copy | rc_move |
//     iter | at i | frontback | compare
// Output, one line per case; '|' separates records:
//   cvec <ts> <firstShift> <maxBuffers> | <step> | ... | Z <final>
//   step  = <sizeS> c.. ; <two> [<sizeO> c..] ; <ret> <stdret> <stdok> <capS> <shiftS> <shiftO> ; <ledger>
//           contents are the element tags read through operator[]; `two` = 1 when the op can change the other
//           vector as well (then its contents follow); ret = returned iterator - begin() (or the observer's value,
//           -1 for void); stdret = what std::vector returned for the same op (-1 when there is no counterpart);
//           stdok = 1 iff size and contents of BOTH ConcurrentVectors equal the std::vectors after the op
//   ledger = cv cc cm ac am d live moved e0 e1 e2 e3 e4 misaligned    (life::Ledger<0>, order of ledger_obs in
//           Base/Life.v; the six counters and five error counters are accumulated over the calls into
//           ConcurrentVector only -- the harness's own temporaries are created before and destroyed after the
//           measured window; live/moved are read after the temporaries died)
//   final = ledger after both vectors were destroyed ; <ref ledger balanced> <blocks allocated> <blocks freed>
// Memory reuse: `free` is wrapped (-Wl,--wrap=free): objects that still need a destructor inside a block that is
// being freed are re-keyed to a graveyard (they stay counted as live = leaked), everything else in the block is
// forgotten, so that a later allocation at the same address starts Unborn (fresh ids in the model).
#include <algorithm>
#include <cassert>
#include <csignal>
#include <cstddef>
#include <cstdint>
#include <cstdio>
#include <cstdlib>
#include <cstring>
#include <iostream>
#include <malloc.h>
#include <new>
#include <sstream>
#include <string>
#include <unistd.h>
#include <utility>
#include <vector>

#include "life.h"

#define private public
#define protected public
#include <dispenso/concurrent_vector.h>
#undef private
#undef protected

// ---------------------------------------------------------------- wrapped malloc/free (references from this TU only:
// dispenso::detail::alignedMalloc / alignedFree are inline, so these are exactly ConcurrentVector's blocks)
static long g_blocks_alloc = 0, g_blocks_free = 0;
static uintptr_t g_grave = 0;
extern "C" void* __real_malloc(size_t);
extern "C" void __real_free(void*);
extern "C" void* __wrap_malloc(size_t n) {
  ++g_blocks_alloc;
  return __real_malloc(n);
}
extern "C" void __wrap_free(void* p) {
  if (p) {
    ++g_blocks_free;
    size_t n = malloc_usable_size(p);
    auto& d = life::Ledger<0>::d();
    std::lock_guard<std::mutex> g(d.mu);
    uintptr_t lo = reinterpret_cast<uintptr_t>(p), hi = lo + n;
    auto it = d.reg.lower_bound(lo);
    std::vector<life::Ledger<0>::Entry> keep;
    while (it != d.reg.end() && it->first < hi) {
      if (it->second.st == life::Alive || it->second.st == life::MovedFrom) keep.push_back(it->second);
      it = d.reg.erase(it);
    }
    for (auto& e : keep) d.reg[(uintptr_t(1) << 63) | (++g_grave)] = e;
  }
  __real_free(p);
}

// ---------------------------------------------------------------- measured windows
using Led0 = life::Ledger<0>;
static long g_acc[11]; // cv cc cm ac am d e0..e4
static void snap(long* s) {
  life::Counters c = Led0::counters();
  s[0] = c.ctor_value; s[1] = c.ctor_copy; s[2] = c.ctor_move; s[3] = c.assign_copy; s[4] = c.assign_move; s[5] = c.dtor;
  for (int i = 0; i < 5; ++i) s[6 + i] = c.err[i];
}
struct Win {
  long s0[11];
  Win() { snap(s0); }
  ~Win() { long s1[11]; snap(s1); for (int i = 0; i < 11; ++i) g_acc[i] += s1[i] - s0[i]; }
};
#define W(stmt) do { Win w_; stmt; } while (0)

static std::string ledger_line() {
  std::ostringstream o;
  for (int i = 0; i < 6; ++i) o << g_acc[i] << ' ';
  o << Led0::live() << ' ' << Led0::moved();
  for (int i = 6; i < 11; ++i) o << ' ' << g_acc[i];
  o << ' ' << Led0::counters().misaligned;
  return o.str();
}

// ---------------------------------------------------------------- trait sets
using RS = dispenso::ConcurrentVectorReallocStrategy;
template <bool Inl, RS Strat, bool Fast>
struct Tr {
  static constexpr bool kPreferBuffersInline = Inl;
  static constexpr RS kReallocStrategy = Strat;
  static constexpr bool kIteratorPreferSpeed = Fast;
};

// source ranges of element type L in suitably aligned static storage (std::vector<L> would need over-aligned new)
template <class L>
struct Src {
  static constexpr int kMax = 160;
  L* p;
  int n;
  static char* storage() {
    alignas(256) static char buf[kMax * sizeof(L)];
    return buf;
  }
  explicit Src(const std::vector<int>& tags) : p(reinterpret_cast<L*>(storage())), n(static_cast<int>(tags.size())) {
    if (n > kMax) { std::printf("BADCASE range too long\n"); std::exit(2); }
    for (int i = 0; i < n; ++i) new (p + i) L(tags[i]);
  }
  ~Src() { for (int i = n; i--;) p[i].~L(); }
  L* begin() const { return p; }
  L* end() const { return p + n; }
};

struct Toks {
  std::vector<std::string> t;
  size_t i = 0;
  bool more() const { return i < t.size(); }
  std::string s() { if (i >= t.size()) { std::printf("BADCASE truncated\n"); std::exit(2); } return t[i++]; }
  long n() { return std::stol(s()); }
  std::vector<int> list() { long k = n(); std::vector<int> v; for (long j = 0; j < k; ++j) v.push_back(static_cast<int>(n())); return v; }
};

template <class L, class Traits>
struct Runner {
  using CV = dispenso::ConcurrentVector<L, Traits>;
  using R = life::L<4, 1>;
  using SV = std::vector<R>;
  alignas(64) char stor[2][sizeof(CV)];
  CV* v[2];
  SV ref[2];

  static std::vector<R> rlist(const std::vector<int>& tags) { std::vector<R> r; for (int t : tags) r.emplace_back(t); return r; }

  bool same(int k) {
    if (v[k]->size() != ref[k].size()) return false;
    for (size_t i = 0; i < ref[k].size(); ++i) if ((*v[k])[i].get() != ref[k][i].get()) return false;
    return true;
  }
  void contents(std::ostringstream& o, int k) {
    const CV& c = *v[k];
    o << c.size();
    for (size_t i = 0; i < c.size(); ++i) o << ' ' << c[i].get();
  }

  // all the ways of walking the vector must agree with operator[]
  long iterCheck(CV& c) {
    long bad = 0;
    const CV& cc = c;
    size_t n = c.size(), i = 0;
    for (auto it = c.begin(); it != c.end(); ++it, ++i) {
      bad += (it->get() != cc[i].get());
      bad += (static_cast<size_t>(it - c.begin()) != i);
    }
    bad += (i != n);
    i = 0;
    for (auto it = cc.cbegin(); it != cc.cend(); it++, ++i) bad += ((*it).get() != cc[i].get());
    bad += (i != n);
    i = n;
    for (auto it = c.rbegin(); it != c.rend(); ++it) { --i; bad += (it->get() != cc[i].get()); }
    bad += (i != 0);
    i = n;
    for (auto it = c.end(); it != c.begin();) { --it; --i; bad += (it->get() != cc[i].get()); bad += (static_cast<size_t>(it - c.begin()) != i); }
    bad += (i != 0);
    // random access arithmetic across bucket boundaries
    for (size_t a = 0; a <= n; a += (a < 6 ? 1 : 5)) {
      auto ia = c.begin() + static_cast<ssize_t>(a);
      bad += (static_cast<size_t>(ia - c.begin()) != a);
      bad += (static_cast<size_t>(c.end() - ia) != n - a);
      for (size_t b = 0; b <= n; b += (b < 4 ? 1 : 3)) {
        auto ib = ia;
        ib += static_cast<ssize_t>(b) - static_cast<ssize_t>(a);
        bad += ((ib - ia) != static_cast<ssize_t>(b) - static_cast<ssize_t>(a));
        bad += ((ia < ib) != (a < b)) + ((ia <= ib) != (a <= b)) + ((ia > ib) != (a > b)) + ((ia >= ib) != (a >= b));
        bad += ((ia == ib) != (a == b)) + ((ia != ib) != (a != b));
        if (b < n) {
          bad += (ib->get() != cc[b].get());
          bad += (ia[static_cast<ssize_t>(b) - static_cast<ssize_t>(a)].get() != cc[b].get());
          bad += (c.at(b).get() != cc[b].get()) + (cc.at(b).get() != cc[b].get());
        }
        auto ic = ib - (static_cast<ssize_t>(b) - static_cast<ssize_t>(a));
        bad += (ic != ia);
        auto id = ia;
        id -= static_cast<ssize_t>(a);
        bad += (id != c.begin());
      }
    }
    bad += (c.empty() != (n == 0));
    return bad;
  }

  void run(int ts, Toks& tk) {
    Led0::reset();
    life::Ledger<1>::reset();
    for (long& a : g_acc) a = 0;
    g_blocks_alloc = g_blocks_free = 0;
    std::ostringstream out;
    W(v[0] = new (stor[0]) CV());
    W(v[1] = new (stor[1]) CV());
    out << "cvec " << ts << ' ' << v[0]->firstBucketShift_ << ' ' << CV::kMaxBuffers;
    long nops = tk.n();
    for (long opi = 0; opi < nops; ++opi) {
      int sel = static_cast<int>(tk.n());
      std::string op = tk.s();
      CV*& S = v[sel];
      CV*& O = v[1 - sel];
      SV& RS_ = ref[sel];
      SV& RO = ref[1 - sel];
      long ret = -1, sret = -1;
      bool two = false;
      typename CV::iterator it;
      if (op == "push") {
        int t = tk.n(); { L tmp(t); W(it = S->push_back(tmp)); } ret = it - S->begin();
        { R r(t); RS_.push_back(r); } sret = RS_.size() - 1;
      } else if (op == "pushm") {
        int t = tk.n(); { L tmp(t); W(it = S->push_back(std::move(tmp))); } ret = it - S->begin();
        { R r(t); RS_.push_back(std::move(r)); } sret = RS_.size() - 1;
      } else if (op == "emplace") {
        int t = tk.n(); W(it = S->emplace_back(t)); ret = it - S->begin();
        RS_.emplace_back(t); sret = RS_.size() - 1;
      } else if (op == "growby") {
        long n = tk.n(); W(it = S->grow_by(static_cast<size_t>(n))); ret = it - S->begin();
        sret = RS_.size(); RS_.resize(RS_.size() + n);
      } else if (op == "growbyv") {
        long n = tk.n(); int t = tk.n(); { L tmp(t); W(it = S->grow_by(static_cast<size_t>(n), tmp)); } ret = it - S->begin();
        sret = RS_.size(); RS_.insert(RS_.end(), n, R(t));
      } else if (op == "growbyr") {
        auto tags = tk.list(); { Src<L> src(tags); W(it = S->grow_by(src.begin(), src.end())); } ret = it - S->begin();
        sret = RS_.size(); auto r = rlist(tags); RS_.insert(RS_.end(), r.begin(), r.end());
      } else if (op == "growbyg") {
        long n = tk.n(); int t0 = tk.n(); int c = t0;
        W(it = S->grow_by_generator(static_cast<size_t>(n), [&c]() { return L(c++); })); ret = it - S->begin();
        sret = RS_.size(); for (long j = 0; j < n; ++j) RS_.emplace_back(t0 + static_cast<int>(j));
      } else if (op == "gtal") {
        long n = tk.n(); W(it = S->grow_to_at_least(static_cast<size_t>(n))); ret = it - S->begin();
        if (RS_.size() < static_cast<size_t>(n)) RS_.resize(n);
      } else if (op == "gtalv") {
        long n = tk.n(); int t = tk.n(); { L tmp(t); W(it = S->grow_to_at_least(static_cast<size_t>(n), tmp)); } ret = it - S->begin();
        if (RS_.size() < static_cast<size_t>(n)) RS_.resize(n, R(t));
      } else if (op == "pop") {
        W(S->pop_back()); RS_.pop_back();
      } else if (op == "resize") {
        long n = tk.n(); W(S->resize(n)); RS_.resize(n);
      } else if (op == "resizev") {
        long n = tk.n(); int t = tk.n(); { L tmp(t); W(S->resize(n, tmp)); } RS_.resize(n, R(t));
      } else if (op == "clear") {
        W(S->clear()); RS_.clear();
      } else if (op == "erase") {
        long i = tk.n(); W(it = S->erase(S->cbegin() + i)); ret = it - S->begin();
        { auto rit = RS_.erase(RS_.begin() + i); sret = rit - RS_.begin(); }
      } else if (op == "eraser") {
        long i = tk.n(); long j = tk.n(); W(it = S->erase(S->cbegin() + i, S->cbegin() + j)); ret = it - S->begin();
        { auto rit = RS_.erase(RS_.begin() + i, RS_.begin() + j); sret = rit - RS_.begin(); }
      } else if (op == "insert") {
        long i = tk.n(); int t = tk.n(); { L tmp(t); W(it = S->insert(S->cbegin() + i, tmp)); } ret = it - S->begin();
        { R r(t); auto rit = RS_.insert(RS_.begin() + i, r); sret = rit - RS_.begin(); }
      } else if (op == "insertm") {
        long i = tk.n(); int t = tk.n(); { L tmp(t); W(it = S->insert(S->cbegin() + i, std::move(tmp))); } ret = it - S->begin();
        { R r(t); auto rit = RS_.insert(RS_.begin() + i, std::move(r)); sret = rit - RS_.begin(); }
      } else if (op == "insertn") {
        long i = tk.n(); long n = tk.n(); int t = tk.n();
        { L tmp(t); W(it = S->insert(S->cbegin() + i, static_cast<size_t>(n), tmp)); } ret = it - S->begin();
        { R r(t); auto rit = RS_.insert(RS_.begin() + i, static_cast<size_t>(n), r); sret = rit - RS_.begin(); }
      } else if (op == "insertr") {
        long i = tk.n(); auto tags = tk.list();
        { Src<L> src(tags); W(it = S->insert(S->cbegin() + i, src.begin(), src.end())); } ret = it - S->begin();
        { auto r = rlist(tags); auto rit = RS_.insert(RS_.begin() + i, r.begin(), r.end()); sret = rit - RS_.begin(); }
      } else if (op == "assignn") {
        long n = tk.n(); int t = tk.n(); { L tmp(t); W(S->assign(static_cast<size_t>(n), tmp)); } RS_.assign(static_cast<size_t>(n), R(t));
      } else if (op == "assignr") {
        auto tags = tk.list(); { Src<L> src(tags); W(S->assign(src.begin(), src.end())); }
        { auto r = rlist(tags); RS_.assign(r.begin(), r.end()); }
      } else if (op == "reserve") {
        long n = tk.n(); W(S->reserve(n)); RS_.reserve(n);
      } else if (op == "shrink") {
        W(S->shrink_to_fit()); RS_.shrink_to_fit();
      } else if (op == "swap") {
        two = true; W(S->swap(*O)); RS_.swap(RO);
      } else if (op == "copyas") {
        two = true; W(*S = *O); RS_ = RO;
      } else if (op == "moveas") {
        two = true; W(*S = std::move(*O)); RS_ = std::move(RO); RO.clear();
      } else if (op == "selfas") {
        CV& alias = *S; W(*S = alias);
      } else if (op.compare(0, 3, "rc_") == 0) {
        two = (op == "rc_copy" || op == "rc_move");
        W(S->~CV());
        if (op == "rc_default") { W(S = new (stor[sel]) CV()); RS_ = SV(); }
        else if (op == "rc_reserve") { long n = tk.n(); W(S = new (stor[sel]) CV(static_cast<size_t>(n), dispenso::ReserveTag)); RS_ = SV(); }
        else if (op == "rc_sized") { long n = tk.n(); W(S = new (stor[sel]) CV(static_cast<size_t>(n))); RS_ = SV(static_cast<size_t>(n)); }
        else if (op == "rc_sizedv") { long n = tk.n(); int t = tk.n(); { L tmp(t); W(S = new (stor[sel]) CV(static_cast<size_t>(n), tmp)); } RS_ = SV(static_cast<size_t>(n), R(t)); }
        else if (op == "rc_range") { auto tags = tk.list(); { Src<L> src(tags); W(S = new (stor[sel]) CV(src.begin(), src.end())); } auto r = rlist(tags); RS_ = SV(r.begin(), r.end()); }
        else if (op == "rc_copy") { W(S = new (stor[sel]) CV(*O)); RS_ = SV(RO); }
        else if (op == "rc_move") { W(S = new (stor[sel]) CV(std::move(*O))); RS_ = SV(std::move(RO)); RO.clear(); }
        else { std::printf("BADCASE op %s\n", op.c_str()); std::exit(2); }
      } else if (op == "iter") {
        ret = iterCheck(*S); sret = 0;
      } else if (op == "at") {
        long i = tk.n(); ret = S->at(i).get(); sret = RS_.at(i).get();
      } else if (op == "frontback") {
        ret = static_cast<long>(S->front().get()) * 1000 + S->back().get();
        sret = static_cast<long>(RS_.front().get()) * 1000 + RS_.back().get();
      } else if (op == "compare") {
        const CV& a = *S; const CV& b = *O;
        ret = (a == b) + 2 * (a != b) + 4 * (a < b) + 8 * (a <= b) + 16 * (a > b) + 32 * (a >= b);
        sret = (RS_ == RO) + 2 * (RS_ != RO) + 4 * (RS_ < RO) + 8 * (RS_ <= RO) + 16 * (RS_ > RO) + 32 * (RS_ >= RO);
      } else {
        std::printf("BADCASE op %s\n", op.c_str());
        std::exit(2);
      }
      out << " | ";
      contents(out, sel);
      out << " ; " << (two ? 1 : 0);
      if (two) { out << ' '; contents(out, 1 - sel); }
      out << " ; " << ret << ' ' << sret << ' ' << ((same(0) && same(1)) ? 1 : 0) << ' ' << S->capacity() << ' '
          << S->firstBucketShift_ << ' ' << O->firstBucketShift_ << " ; " << ledger_line();
    }
    W(v[0]->~CV());
    W(v[1]->~CV());
    ref[0] = SV();
    ref[1] = SV();
    out << " | Z " << ledger_line() << " ; " << (life::Ledger<1>::balanced() ? 1 : 0) << ' ' << g_blocks_alloc << ' ' << g_blocks_free;
    std::puts(out.str().c_str());
    std::fflush(stdout);
  }
};

template <class L, class Traits>
static void runCase(int ts, Toks& tk) {
  static Runner<L, Traits>* r = nullptr;
  if (!r) {
    void* mem = nullptr;
    if (posix_memalign(&mem, 256, sizeof(Runner<L, Traits>))) std::abort();
    r = new (mem) Runner<L, Traits>();
  }
  r->run(ts, tk);
}

static void onAlarm(int) {
  const char m[] = "\nHANG\n";
  ssize_t k = write(1, m, sizeof m - 1);
  (void)k;
  _exit(3);
}

int main() {
  std::signal(SIGALRM, onAlarm);
  std::string line;
  while (std::getline(std::cin, line)) {
    Toks tk;
    std::istringstream is(line);
    std::string w;
    while (is >> w) tk.t.push_back(w);
    if (tk.t.empty()) continue;
    int ts = static_cast<int>(tk.n());
    alarm(6);   // a sequential run that spins on a buffer nobody allocates never ends
    switch (ts) {
      // element of 256 bytes: kDefaultCapacity 2, first bucket length 1 (the smallest)
      case 0: runCase<life::L<256, 0>, Tr<true, RS::kAsNeeded, true>>(ts, tk); break;
      case 1: runCase<life::L<256, 0>, Tr<false, RS::kHalfBufferAhead, false>>(ts, tk); break;
      case 2: runCase<life::L<256, 0>, Tr<true, RS::kFullBufferAhead, false>>(ts, tk); break;
      // 128 bytes: first bucket length 2
      case 3: runCase<life::L<128, 0>, Tr<false, RS::kFullBufferAhead, true>>(ts, tk); break;
      // 64 bytes: first bucket length 4
      case 4: runCase<life::L<64, 0>, Tr<true, RS::kHalfBufferAhead, true>>(ts, tk); break;
      // 16 bytes, library defaults: first bucket length 16
      case 5: runCase<life::L<16, 0>, dispenso::DefaultConcurrentVectorTraits>(ts, tk); break;
      default: std::printf("BADCASE ts %d\n", ts); return 2;
    }
    alarm(0);
  }
  return 0;
}
