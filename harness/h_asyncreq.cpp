// Lockstep harness for dispenso::AsyncRequest<Tag> (C24) under harness/vsched.h.
// Built twice by props/C24.py: -std=c++14 (OpResult = detail::OpResult<T>: a moved-from OpResult is disengaged)
// and -std=c++17 (OpResult = std::optional<T>: a moved-from optional stays engaged).
// One case per line:
//   <budget> ; <prog t0> ; <prog t1> ; ... ; S <schedule ints...>
// prog tokens: R requestUpdate()  U updateRequested()  E<v> tryEmplaceUpdate(v)  G getUpdate()
// Output (one line): steps t:site ... | results t:tag=v ... | blocked | word W obj <engaged 0|1> <value> std <14|17> | status S
#include <atomic>
#include <cstdio>
#include <cstdlib>
#include <iostream>
#include <sstream>
#include <string>
#include <vector>
#include <sys/wait.h>
#include <unistd.h>
#define private public
#define protected public
#include <dispenso/async_request.h>
#undef private
#undef protected
#include "vsched.h"

struct Op {
  char k;
  long a = 0;
};

static std::vector<Op> parseProg(const std::string& s) {
  std::vector<Op> v;
  std::istringstream in(s);
  std::string tok;
  while (in >> tok) {
    Op o;
    o.k = tok[0];
    if (tok.size() > 1) o.a = atol(tok.substr(1).c_str());
    v.push_back(o);
  }
  return v;
}

// payload type: a tagged value whose move constructor (user code as far as AsyncRequest is concerned) contains a
// scheduling point after the payload has been read, i.e. between OpResult(OpResult&&)'s engaged test + T move and its
// `oth.ptr_ = nullptr`.  The point fires only when the source lives inside the shared obj_ (moves of thread-local
// temporaries, e.g. a non-elided `return obj;`, are not shared-memory accesses).  Moving leaves the source's tag
// unchanged (like any trivially copyable payload).
static const char* g_objLo = nullptr;
static const char* g_objHi = nullptr;
struct Tag {
  long v;
  Tag(long x) : v(x) {}
  Tag(const Tag& o) : v(o.v) {}
  Tag(Tag&& o) : v(o.v) {
    const char* a = reinterpret_cast<const char*>(&o);
    if (a >= g_objLo && a < g_objHi) DISPENSO_VERIF_POINT("T.moved", &o);
  }
};
using Req = dispenso::AsyncRequest<Tag>;

static void runProg(Req& req, vs::Sched& S, const std::vector<Op>& prog) {
  for (const Op& o : prog) {
    switch (o.k) {
      case 'R': req.requestUpdate(); break;
      case 'U': S.result("updateRequested", req.updateRequested() ? 1 : 0); break;
      case 'E': S.result("emplace", req.tryEmplaceUpdate(o.a) ? 1 : 0); break;
      case 'G': {
        Req::OpResult r = req.getUpdate();
        if (r.has_value()) S.result("get", r.value().v);
        else S.result("getnone", 0);
        break;
      }
      default: break;
    }
  }
}

int main() {
  std::string line;
  while (std::getline(std::cin, line)) {
    if (line.empty()) continue;
    fflush(stdout);
    pid_t pid = fork();
    if (pid == 0) {
      alarm(20);
      std::vector<std::string> parts;
      std::stringstream ss(line);
      std::string part;
      while (std::getline(ss, part, ';')) parts.push_back(part);
      long budget = atol(parts[0].c_str());
      std::vector<std::vector<Op>> progs;
      std::vector<long> sched;
      for (size_t i = 1; i < parts.size(); ++i) {
        std::istringstream ps(parts[i]);
        std::string first;
        ps >> first;
        if (first == "S") {
          long x;
          while (ps >> x) sched.push_back(x);
        } else {
          progs.push_back(parseProg(parts[i]));
        }
      }
      Req req;
      g_objLo = reinterpret_cast<const char*>(&req.obj_);
      g_objHi = g_objLo + sizeof(req.obj_);
      vs::Sched S(sched, budget, false);
      for (size_t t = 0; t < progs.size(); ++t) S.spawn([&req, &S, &progs, t]() { runProg(req, S, progs[t]); });
      S.run();
      std::ostringstream ex;
      bool eng = req.obj_.has_value();
      ex << "word " << static_cast<int>(req.state_.load()) << " obj " << (eng ? 1 : 0) << " " << (eng ? req.obj_.value().v : 0) << " std "
         << (__cplusplus >= 201703L ? 17 : 14);
      S.print(ex.str());
      fflush(stdout);
      _exit(0);
    }
    int st = 0;
    waitpid(pid, &st, 0);
    if (!WIFEXITED(st) || WEXITSTATUS(st) != 0) {
      printf("CRASH status %d\n", st);
      fflush(stdout);
    }
  }
  return 0;
}
