// C10: stands in for /repo/dispenso/tsan_annotations.cpp in the TSan build of harness/h_races.cpp.  It forwards dispenso's
// annotations to the ThreadSanitizer runtime exactly like the original (so they are HONOURED), except for annotations that
// come from a source file whose path ends with $C10_NEUTRALISE (e.g. "chase_lev_deque.h"): those are dropped.  Dropping an
// annotation can only make TSan see MORE of what the declared memory orders do not order.
#include <cstdlib>
#include <cstring>
#include <dispenso/tsan_annotations.h>

#if DISPENSO_HAS_TSAN
extern "C" {
void AnnotateIgnoreReadsBegin(const char* f, int l);
void AnnotateIgnoreReadsEnd(const char* f, int l);
void AnnotateIgnoreWritesBegin(const char* f, int l);
void AnnotateIgnoreWritesEnd(const char* f, int l);
void AnnotateNewMemory(const char* f, int l, const volatile void* address, long size);
void AnnotateHappensBefore(const char* f, int l, const volatile void* address);
void AnnotateHappensAfter(const char* f, int l, const volatile void* address);
}

namespace {
bool dropped(const char* f) {
  static const char* pat = std::getenv("C10_NEUTRALISE");
  if (!pat || !*pat || !f) return false;
  size_t lf = std::strlen(f), lp = std::strlen(pat);
  return lf >= lp && std::strcmp(f + (lf - lp), pat) == 0;
}
} // namespace

namespace dispenso {
namespace detail {
void annotateIgnoreWritesBegin(const char* f, int l) { if (!dropped(f)) AnnotateIgnoreWritesBegin(f, l); }
void annotateIgnoreWritesEnd(const char* f, int l) { if (!dropped(f)) AnnotateIgnoreWritesEnd(f, l); }
void annotateIgnoreReadsBegin(const char* f, int l) { if (!dropped(f)) AnnotateIgnoreReadsBegin(f, l); }
void annotateIgnoreReadsEnd(const char* f, int l) { if (!dropped(f)) AnnotateIgnoreReadsEnd(f, l); }
void annotateNewMemory(const char* f, int l, const volatile void* a, long s) { if (!dropped(f)) AnnotateNewMemory(f, l, a, s); }
void annotateHappensBefore(const char* f, int l, const volatile void* a) { if (!dropped(f)) AnnotateHappensBefore(f, l, a); }
void annotateHappensAfter(const char* f, int l, const volatile void* a) { if (!dropped(f)) AnnotateHappensAfter(f, l, a); }
} // namespace detail
} // namespace dispenso
#endif
