// Lockstep harness for CompletionEventImpl / CompletionEvent / Latch (C20, C21) under harness/vsched.h.
// One case per line:
//   <ev|la> <w0> <timeouts 0|1> <budget> ; <prog t0> ; <prog t1> ; ... ; S <schedule ints...>
// prog tokens: N<v> notify(v)  W<v> wait(v)  F<v>:<0|1> waitFor(v, rel>0?)  C<n> count_down(n)  T try_wait  A arrive_and_wait
//              P completed()  R reset()
// Output (one line): steps t:site ... | results t:tag=v ... | blocked t ... | word W cur t:opidx ... | status S
#include <atomic>
#include <chrono>
#include <cstdio>
#include <cstdlib>
#include <iostream>
#include <sstream>
#include <string>
#include <vector>
#include <sys/wait.h>
#include <unistd.h>
#define private public
#define protected public
#include <dispenso/completion_event.h>
#include <dispenso/latch.h>
#undef private
#undef protected
#include "vsched.h"

struct Op {
  char k;
  long a = 0, b = 0;
};

static std::vector<Op> parseProg(const std::string& s) {
  std::vector<Op> v;
  std::istringstream in(s);
  std::string tok;
  while (in >> tok) {
    Op o;
    o.k = tok[0];
    if (tok.size() > 1) {
      size_t c = tok.find(':');
      o.a = atol(tok.substr(1, c == std::string::npos ? std::string::npos : c - 1).c_str());
      if (c != std::string::npos) o.b = atol(tok.substr(c + 1).c_str());
    }
    v.push_back(o);
  }
  return v;
}

template <typename Obj>
struct Runner {
  Obj& obj;
  vs::Sched& S;
  std::vector<std::atomic<int>>& cur;
  void run(int tid, const std::vector<Op>& prog) {
    for (size_t i = 0; i < prog.size(); ++i) {
      cur[tid].store(static_cast<int>(i));
      const Op& o = prog[i];
      switch (o.k) {
        case 'N': obj.impl_.notify(static_cast<int>(o.a)); break;
        case 'W': obj.impl_.wait(static_cast<int>(o.a)); S.result("wait", obj.impl_.intrusiveStatus().load()); break;   // no hook point in between: exact
        case 'F': {
          bool r = obj.impl_.waitFor(static_cast<int>(o.a), std::chrono::duration<double>(o.b ? 1000.0 : 0.0));
          S.result("waitFor", r ? 1 : 0);
          if (r) {   // no hook point between the return and this load: the word the successful waitFor ended on
            S.result("wft", o.a);
            S.result("wfw", obj.impl_.intrusiveStatus().load());
          }
          break;
        }
        default: special(tid, o); break;
      }
    }
    cur[tid].store(static_cast<int>(prog.size()));
  }
  void special(int tid, const Op& o);
};

template <>
void Runner<dispenso::Latch>::special(int, const Op& o) {
  switch (o.k) {
    case 'C': obj.count_down(static_cast<uint32_t>(o.a)); break;
    case 'T': S.result("try_wait", obj.try_wait() ? 1 : 0); break;
    case 'A': obj.arrive_and_wait(); break;
    default: break;
  }
}
template <>
void Runner<dispenso::CompletionEvent>::special(int, const Op& o) {
  switch (o.k) {
    case 'P': S.result("completed", obj.completed() ? 1 : 0); break;
    case 'R': obj.reset(); break;
    default: break;
  }
}

template <typename Obj>
static void runCase(Obj& obj, int timeouts, long budget, const std::vector<std::vector<Op>>& progs, const std::vector<long>& sched) {
  vs::Sched S(sched, budget, timeouts != 0);
  std::vector<std::atomic<int>> cur(progs.size());
  Runner<Obj> R{obj, S, cur};
  for (size_t t = 0; t < progs.size(); ++t) {
    cur[t].store(0);
    S.spawn([&R, &progs, t]() { R.run(static_cast<int>(t), progs[t]); });
  }
  S.run();
  std::ostringstream ex;
  ex << "word " << obj.impl_.intrusiveStatus().load() << " cur";
  for (size_t t = 0; t < progs.size(); ++t) ex << " " << t << ":" << cur[t].load();
  S.print(ex.str());
}

int main() {
  std::string line;
  while (std::getline(std::cin, line)) {
    if (line.empty()) continue;
    fflush(stdout);
    pid_t pid = fork();
    if (pid == 0) {
      alarm(20);
      std::vector<std::string> parts;
      std::stringstream ss(line);
      std::string part;
      while (std::getline(ss, part, ';')) parts.push_back(part);
      std::istringstream hd(parts[0]);
      std::string mode;
      long w0, budget;
      int timeouts;
      hd >> mode >> w0 >> timeouts >> budget;
      std::vector<std::vector<Op>> progs;
      std::vector<long> sched;
      for (size_t i = 1; i < parts.size(); ++i) {
        std::istringstream ps(parts[i]);
        std::string first;
        ps >> first;
        if (first == "S") {
          long x;
          while (ps >> x) sched.push_back(x);
        } else {
          progs.push_back(parseProg(parts[i]));
        }
      }
      if (mode == "la") {
        dispenso::Latch l(static_cast<uint32_t>(w0));
        runCase(l, timeouts, budget, progs, sched);
      } else {
        dispenso::CompletionEvent e;
        e.impl_.intrusiveStatus().store(static_cast<int>(w0));
        runCase(e, timeouts, budget, progs, sched);
      }
      fflush(stdout);
      _exit(0);
    }
    int st = 0;
    waitpid(pid, &st, 0);
    if (!WIFEXITED(st) || WEXITSTATUS(st) != 0) {
      printf("CRASH status %d\n", st);
      fflush(stdout);
    }
  }
  return 0;
}
