// Harness for C06 (nested waits never deadlock through pool starvation): runs nesting programs on the REAL dispenso from /repo with a
// watchdog.  One case per line, one fork per repetition.
//
//   run <N> <timeoutMs> <reps> ; <program>
//     N = pool threads (0..); the program's root body runs on the (external) main thread of the child process.
//   program := op*            (blanks between tokens are optional)
//     w<ms>            work: counts one leaf execution, then sleeps <ms> milliseconds (0: nothing -- lightweight body)
//     s<name><k>[ops]  spawn a child body into the join <name> of the CURRENT body (created on first use):
//                        k = t TaskSet, l ConcurrentTaskSet(kLightweight), h ConcurrentTaskSet(kHeavy)      (schedule)
//                        k = q / r : ConcurrentTaskSet light / heavy with ForceQueuingTag
//                        k = f future = dispenso::async(pool, body)   k = a future with std::launch::async (forced onto the queue)
//                        k = d / D : Future<void>(body, pool, kNotAsync / std::launch::async, std::launch::deferred)
//                        k = n / N : Future<void>(body, pool, kNotAsync / std::launch::async, dispenso::kNotDeferred)
//     j<name>          wait on the own join <name>: set.wait() / future.wait()
//     g<name>          same through Future::get() (sets: wait())
//     u<name>          wait on a future created EARLIER by an enclosing body (captured by value when this body was spawned)
//     p<n>[ops]        dispenso::parallel_for(0, n, body) (waiting): every index runs ops
//   At the end of a body every own join is waited for (structured programs: a body outlives nothing it spawned).
//
// Output (one line per case):
//   nested <N> | status done|hang|crash | reps <completed> | work <leaf executions of the last repetition> | ms <max elapsed> | hangs <n> | buried <k>
//   buried k >= 0 (hangs only): some thread sits in Future::wait() on future k while the SAME thread is running future k's body further
//   down its stack (it took the waiting task from inside a wait() of that body) -- the future can never become ready.
#include <atomic>
#include <chrono>
#include <cstdio>
#include <cstdlib>
#include <cstring>
#include <iostream>
#include <map>
#include <memory>
#include <sstream>
#include <string>
#include <thread>
#include <vector>
#include <signal.h>
#include <sys/mman.h>
#include <sys/wait.h>
#include <unistd.h>
#include <dispenso/future.h>
#include <dispenso/parallel_for.h>
#include <dispenso/task_set.h>
#include <dispenso/thread_pool.h>

struct Op {
  char kind = 'w';     // w s j u p
  int name = 0;
  char jk = 't';
  int num = 0;         // ms / n
  std::vector<Op> body;
};

struct Parser {
  const std::string& s;
  size_t i = 0;
  bool ok = true;
  explicit Parser(const std::string& str) : s(str) {}
  void ws() {
    while (i < s.size() && (s[i] == ' ' || s[i] == '\t')) ++i;
  }
  int num() {
    ws();
    int v = 0;
    bool any = false;
    while (i < s.size() && s[i] >= '0' && s[i] <= '9') {
      v = v * 10 + (s[i] - '0');
      ++i;
      any = true;
    }
    if (!any) ok = false;
    return v;
  }
  std::vector<Op> ops(bool top) {
    std::vector<Op> out;
    while (ok) {
      ws();
      if (i >= s.size()) {
        if (!top) ok = false;
        break;
      }
      char c = s[i];
      if (c == ']') {
        if (top) ok = false;
        break;
      }
      ++i;
      Op o;
      o.kind = c;
      if (c == 'w') {
        o.num = num();
      } else if (c == 'j' || c == 'u' || c == 'g') {
        o.name = num();
      } else if (c == 's') {
        o.name = num();
        ws();
        if (i >= s.size()) { ok = false; break; }
        o.jk = s[i++];
        if (!strchr("tlhqrfanNdD", o.jk)) ok = false;
        ws();
        if (i >= s.size() || s[i] != '[') { ok = false; break; }
        ++i;
        o.body = ops(false);
        if (i >= s.size() || s[i] != ']') { ok = false; break; }
        ++i;
      } else if (c == 'p') {
        o.num = num();
        ws();
        if (i >= s.size() || s[i] != '[') { ok = false; break; }
        ++i;
        o.body = ops(false);
        if (i >= s.size() || s[i] != ']') { ok = false; break; }
        ++i;
      } else {
        ok = false;
      }
      out.push_back(std::move(o));
    }
    return out;
  }
};

struct SharedC {
  std::atomic<long> work;
  std::atomic<int> done;
  // diagnosis of a hang: which thread runs the body of future <name> (0 = not running), which thread sits in a u<name> wait
  std::atomic<long> futThread[64], uwaitThread[64];
};
static long myThread() {
  static std::atomic<long> next{1};
  static thread_local long id = 0;
  if (!id) id = next.fetch_add(1);
  return id;
}
static SharedC* g_sh = nullptr;
static dispenso::ThreadPool* g_pool = nullptr;

using Captured = std::map<int, dispenso::Future<void>>;

struct Join {
  std::unique_ptr<dispenso::TaskSet> ts;
  std::unique_ptr<dispenso::ConcurrentTaskSet> cts;
  dispenso::Future<void> fut;
  bool isFuture = false;
  bool waited = false;
};

static void runBody(const std::vector<Op>& ops, const Captured& cap);

static void waitJoin(Join& j, bool viaGet = false) {
  if (j.isFuture) {
    if (viaGet) j.fut.get(); else j.fut.wait();
  } else if (j.ts) {
    j.ts->wait();
  } else if (j.cts) {
    j.cts->wait();
  }
  j.waited = true;
}

static void runBody(const std::vector<Op>& ops, const Captured& cap) {
  std::map<int, Join> own;
  for (const Op& o : ops) {
    switch (o.kind) {
      case 'w':
        g_sh->work.fetch_add(1);
        if (o.num > 0) std::this_thread::sleep_for(std::chrono::milliseconds(o.num));
        break;
      case 's': {
        Join& j = own[o.name];
        Captured sub = cap;
        for (auto& kv : own)
          if (kv.second.isFuture && kv.first != o.name) sub[kv.first] = kv.second.fut;
        const std::vector<Op>* body = &o.body;
        int nm = o.name & 63;
        bool isFut = strchr("fanNdD", o.jk) != nullptr;
        auto f = [body, sub, nm, isFut]() {
          if (isFut) g_sh->futThread[nm].store(myThread());
          runBody(*body, sub);
          if (isFut) g_sh->futThread[nm].store(0);
        };
        if (isFut) {
          j.isFuture = true;
          j.waited = false;
          auto f2 = f;
          switch (o.jk) {
            case 'f': j.fut = dispenso::async(*g_pool, f); break;
            case 'a': j.fut = dispenso::async(*g_pool, std::launch::async | std::launch::deferred, f); break;
            case 'd': j.fut = dispenso::Future<void>(std::move(f2), *g_pool, dispenso::kNotAsync, std::launch::deferred); break;
            case 'D': j.fut = dispenso::Future<void>(std::move(f2), *g_pool, std::launch::async, std::launch::deferred); break;
            case 'n': j.fut = dispenso::Future<void>(std::move(f2), *g_pool, dispenso::kNotAsync, dispenso::kNotDeferred); break;
            default: j.fut = dispenso::Future<void>(std::move(f2), *g_pool, std::launch::async, dispenso::kNotDeferred); break;
          }
        } else if (o.jk == 't') {
          if (!j.ts) j.ts.reset(new dispenso::TaskSet(*g_pool));
          j.waited = false;
          j.ts->schedule(f);
        } else {
          bool heavy = o.jk == 'h' || o.jk == 'r';
          if (!j.cts) j.cts.reset(new dispenso::ConcurrentTaskSet(*g_pool, heavy ? dispenso::TaskCost::kHeavy : dispenso::TaskCost::kLightweight));
          j.waited = false;
          if (o.jk == 'q' || o.jk == 'r') j.cts->schedule(f, dispenso::ForceQueuingTag());
          else j.cts->schedule(f);
        }
        break;
      }
      case 'j':
      case 'g': {
        auto it = own.find(o.name);
        if (it != own.end()) waitJoin(it->second, o.kind == 'g');
        break;
      }
      case 'u': {
        auto it = cap.find(o.name);
        if (it != cap.end()) {
          g_sh->uwaitThread[o.name & 63].store(myThread());
          it->second.wait();
          g_sh->uwaitThread[o.name & 63].store(0);
        }
        break;
      }
      case 'p': {
        Captured sub = cap;
        for (auto& kv : own)
          if (kv.second.isFuture) sub[kv.first] = kv.second.fut;
        const std::vector<Op>* body = &o.body;
        dispenso::TaskSet pts(*g_pool);
        dispenso::parallel_for(pts, 0, o.num, [body, &sub](int) { runBody(*body, sub); });
        break;
      }
      default: break;
    }
  }
  for (auto& kv : own)
    if (!kv.second.waited) waitJoin(kv.second);
}

int main() {
  std::string line;
  void* mem = mmap(nullptr, sizeof(SharedC), PROT_READ | PROT_WRITE, MAP_SHARED | MAP_ANONYMOUS, -1, 0);
  g_sh = new (mem) SharedC();
  while (std::getline(std::cin, line)) {
    if (line.empty()) continue;
    size_t semi = line.find(';');
    std::istringstream is(line.substr(0, semi));
    std::string cmd;
    int N = 0, timeoutMs = 0, reps = 1;
    is >> cmd >> N >> timeoutMs >> reps;
    if (cmd != "run" || semi == std::string::npos || N < 0 || N > 64 || timeoutMs < 1 || reps < 1) {
      printf("ERR bad case: %s\n", line.c_str());
      fflush(stdout);
      continue;
    }
    std::string prog = line.substr(semi + 1);
    Parser ps(prog);
    std::vector<Op> ops = ps.ops(true);
    if (!ps.ok) {
      printf("ERR bad program at %zu: %s\n", ps.i, prog.c_str());
      fflush(stdout);
      continue;
    }
    int completed = 0, hangs = 0, crashes = 0;
    long maxMs = 0, work = 0;
    for (int r = 0; r < reps; ++r) {
      g_sh->work.store(0);
      g_sh->done.store(0);
      for (int k = 0; k < 64; ++k) {
        g_sh->futThread[k].store(0);
        g_sh->uwaitThread[k].store(0);
      }
      fflush(stdout);
      auto t0 = std::chrono::steady_clock::now();
      pid_t pid = fork();
      if (pid == 0) {
        {
          dispenso::ThreadPool pool(static_cast<size_t>(N));
          g_pool = &pool;
          runBody(ops, Captured());
          g_sh->done.store(1);
        }
        _exit(0);
      }
      int st = 0;
      bool exited = false;
      while (true) {
        pid_t w = waitpid(pid, &st, WNOHANG);
        if (w == pid) {
          exited = true;
          break;
        }
        long ms = std::chrono::duration_cast<std::chrono::milliseconds>(std::chrono::steady_clock::now() - t0).count();
        if (ms > timeoutMs) break;
        // the program is complete when the root body returned; the pool destructor is not part of C06
        std::this_thread::sleep_for(std::chrono::microseconds(g_sh->done.load() ? 200 : 500));
      }
      long ms = std::chrono::duration_cast<std::chrono::milliseconds>(std::chrono::steady_clock::now() - t0).count();
      if (!exited) {
        kill(pid, SIGKILL);
        waitpid(pid, &st, 0);
      }
      work = g_sh->work.load();
      maxMs = std::max(maxMs, ms);
      if (g_sh->done.load()) ++completed;
      else if (!exited) ++hangs;
      else ++crashes;
      if (hangs || crashes) break;
    }
    const char* status = hangs ? "hang" : (crashes ? "crash" : "done");
    // a thread that waits for future k from inside (a wait of) the body of future k itself: the runner is buried under its waiter
    int buried = -1;
    if (hangs)
      for (int k = 0; k < 64; ++k)
        if (g_sh->uwaitThread[k].load() != 0 && g_sh->uwaitThread[k].load() == g_sh->futThread[k].load()) buried = k;
    printf("nested %d | status %s | reps %d | work %ld | ms %ld | hangs %d | buried %d\n", N, status, completed, work, maxMs, hangs, buried);
    fflush(stdout);
  }
  return 0;
}
