// vsched_pool: extension of harness/vsched.h for components that own threads (dispenso::ThreadPool) and are tied at
// EVENT granularity (DESIGN.md §4 "E").  Include in exactly one TU per harness INSTEAD of vsched.h.
//
// What it adds on top of vs::Sched (vsched.h itself is not modified; its private members are reached with
// `#define private public`, and its two extern "C" interposers are renamed so that this header can install filtered ones):
//  * enrolment of ALREADY RUNNING threads: the weak hook dispenso_verif_thread(begin, pool, ringIndex), called by a pool
//    worker at the top / at the exit of ThreadPool::threadLoopImpl, turns the worker into a scheduled thread (ids are
//    handed out in ringIndex order, so that they do not depend on the OS; the creator waits for the enrolment at the
//    "pool.threads_started" event);
//  * DISPENSO_VERIF_EVENT hooks: every event is appended to the trace as (tid, name, a, b) and then parks the thread like a
//    point (events in `noPark` are only logged);
//  * DISPENSO_VERIF_POINT sites are filtered by prefix (default: all POINT sites are skipped -> the ring buffers, the wake
//    state and moodycamel run atomically between two events);
//  * cooperative blocking: blockUntil(pred) (used for "pool.join.begin": a joiner must not sit in pthread_join while it
//    counts as running) and waitQuiescent() (returns when nothing else can run; the snapshot callback is invoked first);
//  * timed futex waits never time out by themselves; the scheduler times a sleeper out only when nothing else is runnable
//    (that is the pool's wake backstop / poll period), round-robin over the sleepers.
// Decisions: exactly as vsched.h (decision c picks cands[c mod |cands|], cands = runnable tids ascending).
#pragma once
#include <atomic>
#include <condition_variable>
#include <cstdio>
#include <cstring>
#include <functional>
#include <map>
#include <mutex>
#include <string>
#include <thread>
#include <vector>
#include <cerrno>
#include <climits>
#include <linux/futex.h>
#include <time.h>
#include <sched.h>

#define dispenso_verif_point vs_base_verif_point
#define dispenso_verif_futex vs_base_verif_futex
#define private public
#include "vsched.h"
#undef private
#undef dispenso_verif_point
#undef dispenso_verif_futex

namespace vsp {

struct Ev {
  int tid;
  std::string name;
  long a, b;
};

class PoolSched : public vs::Sched {
 public:
  PoolSched(std::vector<long> schedule, long budget) : vs::Sched(std::move(schedule), budget, false) {}

  std::vector<Ev> trace;                       // the event trace (all enrolled threads, in execution order)
  std::vector<std::string> keepPoints;         // POINT site prefixes that park (default none)
  std::vector<std::string> noPark;             // EVENT names that are logged without parking
  std::function<void()> onQuiescent;           // called by the scheduler thread, everybody parked
  std::function<bool()> polledWork;            // is there queued work in a tier that a sleeping worker polls?
  std::function<void(const Ev&)> onEvent;      // called on the event's thread after logging, before parking
  std::atomic<int> enrolledInGen{0};           // workers of the current generation that have enrolled
  std::vector<int> curWorkers;                 // tids of the workers of the current generation
  long timeoutSteps = 0;

  static PoolSched* self() { return static_cast<PoolSched*>(vs::g_sched); }
  static int tid() { return vs::t_self; }

  // ---- enrolment of an already running thread (pool worker)
  void enrolSelf(int ringIndex) {
    while (enrolledInGen.load() != ringIndex) sched_yield();
    {
      std::unique_lock<std::mutex> lk(mu_);
      int id = static_cast<int>(ths_.size());
      ths_.push_back(new vs::Th());
      vs::t_self = id;
      curWorkers.push_back(id);
      trace.push_back(Ev{id, "worker.begin", ringIndex, 0});
    }
    enrolledInGen.fetch_add(1);
    point("start", nullptr);
  }
  void finishSelf(int ringIndex) {
    if (vs::t_self < 0) return;
    logEvent("worker.end", ringIndex, 0, true);
    std::unique_lock<std::mutex> lk(mu_);
    ths_[vs::t_self]->st = vs::St::Finished;
    vs::t_self = -1;
    sched_cv_.notify_all();
  }
  // the creator of n worker threads waits until all of them are enrolled (and parked at "start")
  void awaitEnrolment(long n) {
    while (enrolledInGen.load() != static_cast<int>(n)) sched_yield();
    enrolledInGen.store(0);
  }

  // ---- events
  void logEvent(const char* name, long a, long b, bool park) {
    if (vs::t_self < 0) return;
    Ev e{vs::t_self, name, a, b};
    {
      std::unique_lock<std::mutex> lk(mu_);
      trace.push_back(e);
    }
    if (onEvent) onEvent(e);
    if (park && !freeRun_) point(name, nullptr);
  }
  bool parks(const char* name) const {
    for (auto& s : noPark)
      if (s == name) return false;
    return true;
  }

  // ---- cooperative blocking
  void blockUntil(std::function<bool()> pred, const char* site) {
    if (vs::t_self < 0 || freeRun_) return;
    std::unique_lock<std::mutex> lk(mu_);
    vs::Th* t = ths_[vs::t_self];
    preds_[vs::t_self] = std::move(pred);
    predSite_[vs::t_self] = site;
    t->st = vs::St::Blocked;
    t->faddr = &predTag_;
    t->timed = false;
    t->granted = false;
    sched_cv_.notify_all();
    t->cv.wait(lk, [t]() { return t->granted; });
    t->st = vs::St::Running;
  }
  void waitQuiescent() {
    if (vs::t_self < 0 || freeRun_) return;
    std::unique_lock<std::mutex> lk(mu_);
    vs::Th* t = ths_[vs::t_self];
    t->st = vs::St::Blocked;
    t->faddr = &quiesceTag_;
    t->timed = false;
    t->granted = false;
    sched_cv_.notify_all();
    t->cv.wait(lk, [t]() { return t->granted; });
    t->st = vs::St::Running;
  }
  bool finished(int id) {   // call with mu_ held (from predicates)
    return ths_[static_cast<size_t>(id)]->st == vs::St::Finished;
  }

  // ---- the scheduler loop (replaces vs::Sched::run)
  void runPool() {
    std::unique_lock<std::mutex> lk(mu_);
    size_t rr = 0;
    long timeoutsLeft = 64;
    while (true) {
      sched_cv_.wait(lk, [this]() {
        for (vs::Th* t : ths_)
          if (t->st == vs::St::Running) return false;
        return true;
      });
      for (size_t i = 0; i < ths_.size(); ++i) {
        vs::Th* t = ths_[i];
        if (t->st == vs::St::Blocked && t->faddr == &predTag_ && preds_[static_cast<int>(i)]()) {
          t->st = vs::St::AtPoint;
          t->site = predSite_[static_cast<int>(i)];
          t->faddr = nullptr;
        }
      }
      std::vector<int> cand, sleepers, quiescers;
      bool anyBlocked = false, allFinished = true;
      for (size_t i = 0; i < ths_.size(); ++i) {
        vs::Th* t = ths_[i];
        if (t->st == vs::St::AtPoint) cand.push_back(static_cast<int>(i));
        if (t->st != vs::St::Finished) allFinished = false;
        if (t->st == vs::St::Blocked) {
          anyBlocked = true;
          if (t->faddr == &quiesceTag_) quiescers.push_back(static_cast<int>(i));
          else if (t->faddr != &predTag_ && t->timed) sleepers.push_back(static_cast<int>(i));
        }
      }
      if (allFinished) {
        status_ = "done";
        return;
      }
      if (static_cast<long>(steps_.size()) >= budget_) {
        status_ = "budget";
        return;
      }
      if (cand.empty()) {
        bool work = polledWork && polledWork();
        if (!sleepers.empty() && (work || quiescers.empty()) && timeoutsLeft > 0) {
          int id = sleepers[rr++ % sleepers.size()];
          vs::Th* t = ths_[static_cast<size_t>(id)];
          t->timedOut = true;
          steps_.push_back(std::to_string(id) + ":futex.timeout");
          ++timeoutSteps;
          --timeoutsLeft;
          t->st = vs::St::Running;
          t->granted = true;
          t->cv.notify_all();
          continue;
        }
        if (!quiescers.empty()) {
          if (onQuiescent) onQuiescent();
          for (int id : quiescers) {
            vs::Th* t = ths_[static_cast<size_t>(id)];
            t->st = vs::St::AtPoint;
            t->site = "quiesce.done";
            t->faddr = nullptr;
          }
          timeoutsLeft = 64;
          continue;
        }
        status_ = anyBlocked ? "deadlock" : "done";
        return;
      }
      size_t k = static_cast<size_t>(nextChoice()) % cand.size();
      vs::Th* t = ths_[static_cast<size_t>(cand[k])];
      steps_.push_back(std::to_string(cand[k]) + ":" + t->site);
      if (t->site != "futex.wait" && t->site != "futex.woken") timeoutsLeft = 64;
      t->st = vs::St::Running;
      t->granted = true;
      t->cv.notify_all();
    }
  }

  bool keepsPoint(const char* site) const {
    for (auto& p : keepPoints)
      if (strncmp(site, p.c_str(), p.size()) == 0) return true;
    return false;
  }

 private:
  std::map<int, std::function<bool()>> preds_;
  std::map<int, std::string> predSite_;
  int predTag_ = 0, quiesceTag_ = 0;
};

}  // namespace vsp

extern "C" void dispenso_verif_point(const char* site, const void* addr) {
  if (vs::g_sched && vsp::PoolSched::self()->keepsPoint(site)) vs::g_sched->point(site, addr);
}
extern "C" int dispenso_verif_futex(int* uaddr, int op, int val, const struct timespec* timeout, int* result) {
  if (vs::g_sched && vs::g_sched->futex(uaddr, op, val, timeout, result)) return 1;
  return 0;
}
extern "C" void dispenso_verif_thread(int begin, const void* /*pool*/, int ringIndex) {
  if (!vs::g_sched) return;
  if (begin) vsp::PoolSched::self()->enrolSelf(ringIndex);
  else vsp::PoolSched::self()->finishSelf(ringIndex);
}
extern "C" void dispenso_verif_event(const char* event, const void* /*obj*/, long a, long b) {
  if (!vs::g_sched) return;
  vsp::PoolSched* S = vsp::PoolSched::self();
  if (strcmp(event, "pool.threads_started") == 0) {   // creator (enrolled or not) waits for the new workers
    S->logEvent(event, a, b, false);
    S->awaitEnrolment(a);
    if (vs::t_self >= 0) S->point(event, nullptr);
    return;
  }
  if (vs::t_self < 0) return;
  if (strcmp(event, "pool.join.begin") == 0) {
    S->logEvent(event, a, b, false);
    std::vector<int> ws = S->curWorkers;
    S->blockUntil([S, ws]() {
      for (int w : ws)
        if (!S->finished(w)) return false;
      return true;
    }, "pool.join.ready");
    return;
  }
  if (strcmp(event, "pool.join.done") == 0) S->curWorkers.clear();
  S->logEvent(event, a, b, S->parks(event));
}
