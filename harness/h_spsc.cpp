// Lockstep harness for dispenso::SPSCRingBuffer (C35) under harness/vsched.h.
// One case per line:
//   <Capacity> <RoundUp 0|1> <budget> ; <prog t0> ; <prog t1> ; S <schedule ints...>
// prog tokens (element type = life::L<4>, tag = small non-negative int):
//   P<v> try_push(T&&)   C<v> try_push(const T&)   E<v> try_emplace(v)
//   O try_pop(T&)        R try_pop() (OpResult)    I try_pop_into(T*)
//   B<v>,<v>,... try_push_batch (B alone = empty range)     Q<m> try_pop_batch(dest, m)
//   Z size()  Y empty()  F full()
// Output (one line):
//   steps t:site ... | results t:tag=v ... | blocked | K k head h tail t slots st:tag ... errs e0 e1 e2 e3 e4 dtor n | status S
//   slots: per slot the ledger state of the object at that address (0 unborn 1 alive 2 moved-from 3 dead) and, when alive, its tag
//   errs: lifetime misuses on the slot addresses (constructOverLive doubleDestroy destroyUnborn 0 0), recomputed from the
//         ledger's ordered event trace (see SlotErrs below).
//   dtor: after a run that finished, the buffer is destroyed and n = number of slots whose object still needs a destructor
//         (-1 when the run did not finish), followed by the misuse counters again.
#include <atomic>
#include <cstdio>
#include <cstdlib>
#include <iostream>
#include <map>
#include <memory>
#include <sstream>
#include <string>
#include <vector>
#include <sys/wait.h>
#include <unistd.h>
#include <cerrno>
#include <climits>
#include <condition_variable>
#include <cstring>
#include <functional>
#include <mutex>
#include <thread>
#include <linux/futex.h>
#include <time.h>
#include "life.h"
#define private public
#include "vsched.h"
#undef private
#define private public
#define protected public
#include <dispenso/spsc_ring_buffer.h>
#undef private
#undef protected

using Base = life::L<4, 0>;
using Led = life::Ledger<0>;
// ---- payload accesses must happen inside their own scheduler step: the element type checks, for every construction,
// move-out and destruction that touches a SLOT address on an enrolled thread, that the thread's last granted hook site is
// the matching payload site (*.data_write / *.data_read / *.data_destroy).  A mismatch (e.g. a destructor call that was
// moved behind the store that hands the slot back) is counted as `stray` and reported as the 4th misuse counter.
static const char* g_lo = nullptr;
static const char* g_hi = nullptr;
static std::atomic<long> g_stray{0};
static void payloadAccess(const void* p, const char* want) {
  if (vs::t_self < 0 || !vs::g_sched) return;
  const char* c = static_cast<const char*>(p);
  if (c < g_lo || c >= g_hi) return;
  const std::string& site = vs::g_sched->ths_[vs::t_self]->site;
  size_t n = strlen(want);
  if (site.size() < n || site.compare(site.size() - n, n, want) != 0) g_stray++;
}
struct E : Base {
  explicit E(int t) noexcept : Base(t) { payloadAccess(this, "data_write"); }
  E(const E& o) noexcept : Base(o) { payloadAccess(this, "data_write"); }
  E(E&& o) noexcept : Base(std::move(o)) { payloadAccess(this, "data_write"); payloadAccess(&o, "data_read"); }
  E& operator=(const E& o) noexcept { Base::operator=(o); return *this; }
  E& operator=(E&& o) noexcept { payloadAccess(&o, "data_read"); Base::operator=(std::move(o)); return *this; }
  ~E() { payloadAccess(this, "data_destroy"); }
};
using T = E;

struct Op {
  char k;
  std::vector<int> a;
};

static std::vector<Op> parseProg(const std::string& s) {
  std::vector<Op> v;
  std::istringstream in(s);
  std::string tok;
  while (in >> tok) {
    Op o;
    o.k = tok[0];
    std::string rest = tok.substr(1);
    std::stringstream rs(rest);
    std::string num;
    while (std::getline(rs, num, ',')) {
      if (!num.empty()) o.a.push_back(atoi(num.c_str()));
    }
    v.push_back(o);
  }
  return v;
}

template <typename Buf>
static void runProg(Buf& b, vs::Sched& S, const std::vector<Op>& prog) {
  for (const Op& o : prog) {
    switch (o.k) {
      case 'P': {
        T item(o.a[0]);
        bool ok = b.try_push(std::move(item));
        S.result(ok ? "push" : "pushfail", o.a[0]);
        break;
      }
      case 'C': {
        const T item(o.a[0]);
        bool ok = b.try_push(item);
        S.result(ok ? "push" : "pushfail", o.a[0]);
        break;
      }
      case 'E': {
        bool ok = b.try_emplace(o.a[0]);
        S.result(ok ? "push" : "pushfail", o.a[0]);
        break;
      }
      case 'O': {
        T item(-7);
        if (b.try_pop(item)) S.result("pop", item.tag);
        else S.result("popfail", 0);
        break;
      }
      case 'R': {
        auto r = b.try_pop();
        if (r) S.result("pop", r.value().tag);
        else S.result("popfail", 0);
        break;
      }
      case 'I': {
        alignas(T) char storage[sizeof(T)];
        T* p = reinterpret_cast<T*>(storage);
        if (b.try_pop_into(p)) {
          S.result("pop", p->tag);
          p->~T();
        } else {
          S.result("popfail", 0);
        }
        break;
      }
      case 'B': {
        std::vector<T> items;
        items.reserve(o.a.size());
        for (int v : o.a) items.emplace_back(v);
        size_t n = b.try_push_batch(items.begin(), items.end());
        for (size_t i = 0; i < n && i < o.a.size(); ++i) S.result("push", o.a[i]);
        S.result("pushb", static_cast<long>(n));
        break;
      }
      case 'Q': {
        size_t m = static_cast<size_t>(o.a[0]);
        std::vector<T> dest;
        dest.reserve(m);
        for (size_t i = 0; i < m; ++i) dest.emplace_back(-7);
        size_t n = b.try_pop_batch(dest.begin(), m);
        for (size_t i = 0; i < n && i < m; ++i) S.result("pop", dest[i].tag);
        S.result("popb", static_cast<long>(n));
        break;
      }
      case 'Z': S.result("size", static_cast<long>(b.size())); break;
      case 'Y': S.result("empty", b.empty() ? 1 : 0); break;
      case 'F': S.result("full", b.full() ? 1 : 0); break;
      default: break;
    }
  }
}

// Lifetime misuses on the SLOT addresses only, recomputed from the ledger's ordered event trace (the global error
// counters also see the harness' own temporaries and OpResult's, whose move constructor is the subject of C40):
// "constructOverLive doubleDestroy destroyUnborn 0 0" (reads of dead slots leave no trace event of their own; they
// show up as the doubleDestroy of the destructor call that follows the move-out).
struct SlotErrs {
  std::map<uintptr_t, int> st;   // 0 unborn 1 live 3 dead
  long e[3] = {0, 0, 0};
  void feed(const std::vector<life::Event>& tr, const std::vector<const void*>& addr) {
    for (const life::Event& ev : tr) {
      bool isSlot = false;
      for (const void* a : addr) isSlot = isSlot || (reinterpret_cast<uintptr_t>(a) == ev.key);
      if (!isSlot) continue;
      int& s = st[ev.key];
      if (ev.what == 'C' || ev.what == 'c' || ev.what == 'm') {
        if (s == 1) e[0]++;
        s = 1;
      } else if (ev.what == 'D') {
        if (s == 3) e[1]++;
        else if (s == 0) e[2]++;
        else s = 3;
      }
    }
  }
  std::string line() const {
    std::ostringstream o;
    o << e[0] << " " << e[1] << " " << e[2] << " " << g_stray.load() << " 0";
    return o.str();
  }
};

template <size_t Cap, bool Round>
static void runCase(long budget, const std::vector<std::vector<Op>>& progs, const std::vector<long>& sched) {
  using Buf = dispenso::SPSCRingBuffer<T, Cap, Round>;
  alignas(Buf) static char mem[sizeof(Buf)];
  Buf* b = new (mem) Buf();
  const size_t K = Buf::kBufferSize;
  std::vector<const void*> addr(K);
  for (size_t i = 0; i < K; ++i) addr[i] = b->elementAt(i);
  g_lo = reinterpret_cast<const char*>(b->storage_);
  g_hi = g_lo + sizeof(b->storage_);
  Led::set_trace(true);
  SlotErrs se;
  vs::Sched S(sched, budget, false);
  for (size_t t = 0; t < progs.size(); ++t) {
    S.spawn([b, &S, &progs, t]() { runProg(*b, S, progs[t]); });
  }
  S.run();
  std::ostringstream ex;
  ex << "K " << K << " head " << b->head_.load() << " tail " << b->tail_.load() << " slots";
  for (size_t i = 0; i < K; ++i) {
    int st = Led::state(reinterpret_cast<uintptr_t>(addr[i]));
    int tag = (st == life::Alive) ? reinterpret_cast<const T*>(addr[i])->tag : 0;
    ex << " " << st << ":" << tag;
  }
  se.feed(Led::take_trace(), addr);
  ex << " errs " << se.line();
  long dl = -1;
  if (S.status() == "done") {
    S.joinAll();
    b->~Buf();
    dl = 0;
    for (size_t i = 0; i < K; ++i) {
      int st = Led::state(reinterpret_cast<uintptr_t>(addr[i]));
      dl += (st == life::Alive || st == life::MovedFrom);
    }
  }
  se.feed(Led::take_trace(), addr);
  ex << " dtor " << dl << " " << se.line();
  S.print(ex.str());
}

int main() {
  std::string line;
  while (std::getline(std::cin, line)) {
    if (line.empty()) continue;
    fflush(stdout);
    pid_t pid = fork();
    if (pid == 0) {
      alarm(20);
      std::vector<std::string> parts;
      std::stringstream ss(line);
      std::string part;
      while (std::getline(ss, part, ';')) parts.push_back(part);
      std::istringstream hd(parts[0]);
      long cap, budget;
      int rnd;
      hd >> cap >> rnd >> budget;
      std::vector<std::vector<Op>> progs;
      std::vector<long> sched;
      for (size_t i = 1; i < parts.size(); ++i) {
        std::istringstream ps(parts[i]);
        std::string first;
        ps >> first;
        if (first == "S") {
          long x;
          while (ps >> x) sched.push_back(x);
        } else {
          progs.push_back(parseProg(parts[i]));
        }
      }
      long key = cap * 2 + (rnd ? 1 : 0);
      switch (key) {
        case 1 * 2 + 0: runCase<1, false>(budget, progs, sched); break;
        case 1 * 2 + 1: runCase<1, true>(budget, progs, sched); break;
        case 2 * 2 + 0: runCase<2, false>(budget, progs, sched); break;
        case 2 * 2 + 1: runCase<2, true>(budget, progs, sched); break;
        case 3 * 2 + 0: runCase<3, false>(budget, progs, sched); break;
        case 3 * 2 + 1: runCase<3, true>(budget, progs, sched); break;
        case 4 * 2 + 0: runCase<4, false>(budget, progs, sched); break;
        case 4 * 2 + 1: runCase<4, true>(budget, progs, sched); break;
        case 5 * 2 + 0: runCase<5, false>(budget, progs, sched); break;
        case 6 * 2 + 0: runCase<6, false>(budget, progs, sched); break;
        case 5 * 2 + 1: runCase<5, true>(budget, progs, sched); break;
        case 6 * 2 + 1: runCase<6, true>(budget, progs, sched); break;
        case 7 * 2 + 1: runCase<7, true>(budget, progs, sched); break;
        case 8 * 2 + 1: runCase<8, true>(budget, progs, sched); break;
        case 9 * 2 + 0: runCase<9, false>(budget, progs, sched); break;
        case 9 * 2 + 1: runCase<9, true>(budget, progs, sched); break;
        case 10 * 2 + 1: runCase<10, true>(budget, progs, sched); break;
        case 12 * 2 + 1: runCase<12, true>(budget, progs, sched); break;
        case 8 * 2 + 0: runCase<8, false>(budget, progs, sched); break;
        case 15 * 2 + 0: runCase<15, false>(budget, progs, sched); break;
        case 16 * 2 + 1: runCase<16, true>(budget, progs, sched); break;
        default: printf("BADCAP\n"); break;
      }
      fflush(stdout);
      _exit(0);
    }
    int st = 0;
    waitpid(pid, &st, 0);
    if (!WIFEXITED(st) || WEXITSTATUS(st) != 0) {
      printf("CRASH status %d\n", st);
      fflush(stdout);
    }
  }
  return 0;
}
