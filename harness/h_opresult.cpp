// h_opresult.cpp -- drives the REAL dispenso::detail::OpResult<L> (and std::optional<L> as the reference) through
// operation sequences over NV variables living in raw storage; lifetime-tracked payload from life.h.
//
// stdin: one case per line, tokens separated by blanks (i, j = variable index 0..NV-1, t = tag >= 0):
//   D<i>        new (&v[i]) OpResult<L>()                    default construction
//   V<i>:<t>    new (&v[i]) OpResult<L>(L(t))                value construction from an rvalue
//   W<i>:<t>    L tmp(t); new (&v[i]) OpResult<L>(tmp)       value construction from an lvalue
//   C<i>:<j>    new (&v[i]) OpResult<L>(v[j])                copy construction
//   M<i>:<j>    new (&v[i]) OpResult<L>(std::move(v[j]))     move construction
//   c<i>:<j>    v[i] = v[j]                                  copy assignment (i = j allowed)
//   m<i>:<j>    v[i] = std::move(v[j])                       move assignment (i = j allowed)
//   E<i>:<t>    v[i].emplace(t)
//   P<i>:<t>    v[i].value().set(t)                          write through value() (only when engaged)
//   X<i>        v[i].~OpResult<L>()
// the same with the payload's constructor THROWING (the payload is L behind a gate that throws once when armed, before L is constructed,
// so a failed construction leaves no trace in the ledger); the driver emits them only where a payload constructor really runs:
//   F<i>:<j>    move construction from an engaged v[j], T(T&&) throws       -> no object at i, v[j] unchanged
//   G<i>:<j>    copy construction from an engaged v[j], T(const T&) throws  -> no object at i, v[j] unchanged
//   f<i>:<j> / g<i>:<j>   move / copy assignment of an engaged v[j] to a DISENGAGED v[i], constructor throws -> both unchanged
//   e<i>:<t>    v[i].emplace(t), T(int) throws                              -> old value destroyed, v[i] disengaged
// a token whose operation did not throw prints "BAD".
// The driver (props/C40.py) only emits sequences that are valid C++ (construct only dead variables, use only
// live ones); an invalid token prints "BAD".
// stdout: one line per case:
//   R s1|s2|...|sn # <ledger 0> ; O s1|...|sn # <ledger 1>
// s_k = state after the k-th op: per variable `x` (no object), `n` (disengaged) or the tag (engaged), comma
// separated, then `/live,ctors,dtors,errors` of the payload ledger.  `!` is appended to a variable whose
// operator bool and has_value() disagree.  <ledger d> = life::Ledger<d>::line().
#include <cstdio>
#include <cstdlib>
#include <cstring>
#include <iostream>
#include <optional>
#include <sstream>
#include <string>
#include <vector>

#include "life.h"

#include <dispenso/detail/op_result.h>

static const int NV = 4;

struct Boom {};
static bool g_armed = false;
struct Gate {
  Gate() {
    if (g_armed) {
      g_armed = false;
      throw Boom();
    }
  }
  Gate(const Gate&) = default;
  Gate& operator=(const Gate&) = default;
};
// the payload: life::L behind the gate (the gate is constructed first, so a throw happens before L exists)
template <int Dom>
struct TL {
  using In = life::L<alignof(int), Dom>;
  Gate g;
  In in;
  explicit TL(int t = 0) : g(), in(t) {}
  TL(const TL& o) : g(), in(o.in) {}
  TL(TL&& o) : g(), in(std::move(o.in)) {}
  TL& operator=(const TL& o) { in = o.in; return *this; }
  TL& operator=(TL&& o) { in = std::move(o.in); return *this; }
  int get() const { return in.get(); }
  void set(int t) { in.set(t); }
};

template <typename Opt, int Dom>
struct Driver {
  using T = TL<Dom>;
  using Led = life::Ledger<Dom>;
  alignas(Opt) unsigned char store[NV][sizeof(Opt)];
  bool inScope[NV];

  Opt& v(int i) { return *reinterpret_cast<Opt*>(store[i]); }

  void begin() {
    Led::reset();
    for (int i = 0; i < NV; ++i) inScope[i] = false;
    std::memset(store, 0x5A, sizeof store);
  }

  static bool engaged(Opt& o) { return static_cast<bool>(o); }

  std::string state() {
    std::ostringstream s;
    for (int i = 0; i < NV; ++i) {
      if (i) s << ',';
      if (!inScope[i]) { s << 'x'; continue; }
      bool e = engaged(v(i));
      if (e != v(i).has_value()) s << '!';
      if (e) s << v(i).value().get(); else s << 'n';
    }
    life::Counters c = Led::counters();
    s << '/' << Led::live() << ',' << c.ctors() << ',' << c.dtor << ',' << c.errors();
    return s.str();
  }

  // returns false on a token that is not valid in the current state
  bool apply(char op, int i, int a) {
    if (i < 0 || i >= NV) return false;
    switch (op) {
      case 'D': if (inScope[i]) return false; new (store[i]) Opt(); inScope[i] = true; return true;
      case 'V': if (inScope[i]) return false; new (store[i]) Opt(T(a)); inScope[i] = true; return true;
      case 'W': { if (inScope[i]) return false; T tmp(a); new (store[i]) Opt(tmp); inScope[i] = true; return true; }
      case 'C': if (inScope[i] || a < 0 || a >= NV || !inScope[a]) return false;
        new (store[i]) Opt(static_cast<const Opt&>(v(a))); inScope[i] = true; return true;
      case 'M': if (inScope[i] || a < 0 || a >= NV || !inScope[a]) return false;
        new (store[i]) Opt(std::move(v(a))); inScope[i] = true; return true;
      case 'c': if (!inScope[i] || a < 0 || a >= NV || !inScope[a]) return false;
        v(i) = static_cast<const Opt&>(v(a)); return true;
      case 'm': if (!inScope[i] || a < 0 || a >= NV || !inScope[a]) return false;
        v(i) = std::move(v(a)); return true;
      case 'E': if (!inScope[i]) return false; v(i).emplace(a); return true;
      case 'P': if (!inScope[i] || !engaged(v(i))) return false; v(i).value().set(a); return true;
      case 'X': if (!inScope[i]) return false; v(i).~Opt(); inScope[i] = false; return true;
      case 'F': case 'G': {
        if (inScope[i] || a < 0 || a >= NV || !inScope[a] || !engaged(v(a))) return false;
        bool threw = false;
        g_armed = true;
        try {
          if (op == 'F') new (store[i]) Opt(std::move(v(a))); else new (store[i]) Opt(static_cast<const Opt&>(v(a)));
        } catch (const Boom&) { threw = true; }
        g_armed = false;
        return threw;
      }
      case 'f': case 'g': {
        if (!inScope[i] || engaged(v(i)) || a < 0 || a >= NV || a == i || !inScope[a] || !engaged(v(a))) return false;
        bool threw = false;
        g_armed = true;
        try {
          if (op == 'f') v(i) = std::move(v(a)); else v(i) = static_cast<const Opt&>(v(a));
        } catch (const Boom&) { threw = true; }
        g_armed = false;
        return threw;
      }
      case 'e': {
        if (!inScope[i]) return false;
        bool threw = false;
        g_armed = true;
        try { v(i).emplace(a); } catch (const Boom&) { threw = true; }
        g_armed = false;
        return threw;
      }
      default: return false;
    }
  }
};

int main() {
  static Driver<dispenso::detail::OpResult<TL<0>>, 0> real;
  static Driver<std::optional<TL<1>>, 1> ref;
  std::string line;
  while (std::getline(std::cin, line)) {
    if (line.empty()) continue;
    std::istringstream in(line);
    std::string tok;
    real.begin();
    ref.begin();
    std::string r, o;
    bool bad = false, first = true;
    while (in >> tok) {
      char op = tok[0];
      int i = -1, a = 0;
      if (std::sscanf(tok.c_str() + 1, "%d:%d", &i, &a) < 1) { bad = true; break; }
      if (!real.apply(op, i, a) || !ref.apply(op, i, a)) { bad = true; break; }
      if (!first) { r += '|'; o += '|'; }
      first = false;
      r += real.state();
      o += ref.state();
    }
    if (bad) { std::printf("BAD %s\n", tok.c_str()); std::fflush(stdout); continue; }
    std::printf("R %s # %s ; O %s # %s\n", r.c_str(), life::Ledger<0>::line().c_str(), o.c_str(),
                life::Ledger<1>::line().c_str());
    std::fflush(stdout);
  }
  return 0;
}
